(* proofs/RefSched3.v — predicate soundness for P_C11 (Preds2.v), part 2:
   - the canonical entity lists ([spec_ents]) computed from the model's entity maps under the entity refinement,
     hence the snapshot clause 1122 and the newcomer clauses 1110 / 1112;
   - the assembly: on the model's own traces P_C11 can only report clause 1104 ([model_C11_partial]);
   the u_deleted relation that covers 1104 is in proofs/RefSched4.v. *)
From stdpp Require Import relations sorting.
From hagall Require Import Model Spec Obs Preds Preds2.
From hagall.proofs Require Import BaseLemmas Relay Inv Session Local Trans WF Mono Reach PC02 PC06 PC07 PC11 PC18 Own
  Refine Refine2 Refine3 Refine4 Refine5 RefComp RefComp2 RefComp3 RefComp4 RefSched RefSched2.
From Coq Require Import Lia.

(* ================= insertion sort: comparators that agree on the elements; mapping ================= *)
Lemma insert_sorted_ext_in {A} (leb1 leb2 : A → A → bool) x k :
  (∀ y, y ∈ k → leb1 x y = leb2 x y) → insert_sorted leb1 x k = insert_sorted leb2 x k.
Proof.
  induction k as [|y k IH]; intros H; simpl; [done|]. rewrite (H y) by (by left).
  destruct (leb2 x y); [done|]. f_equal. apply IH. intros z Hz. apply H. by right.
Qed.
Lemma isort_ext_in {A} (leb1 leb2 : A → A → bool) l :
  (∀ x y, x ∈ l → y ∈ l → leb1 x y = leb2 x y) → isort leb1 l = isort leb2 l.
Proof.
  induction l as [|x l IH]; intros H; simpl; [done|]. rewrite IH by (intros a b Ha Hb; apply H; by right).
  apply insert_sorted_ext_in. intros y Hy. apply H; [by left|]. right. by rewrite <- (isort_perm leb2 l).
Qed.
Lemma map_insert_sorted {A B} (f : A → B) (leb : B → B → bool) x k :
  map f (insert_sorted (λ a b, leb (f a) (f b)) x k) = insert_sorted leb (f x) (map f k).
Proof. induction k as [|y k IH]; simpl; [done|]. destruct (leb (f x) (f y)); simpl; [done|]. by rewrite IH. Qed.
Lemma map_isort {A B} (f : A → B) (leb : B → B → bool) l :
  map f (isort (λ a b, leb (f a) (f b)) l) = isort leb (map f l).
Proof. induction l as [|x l IH]; simpl; [done|]. by rewrite map_insert_sorted, IH. Qed.

Lemma lex_leb_refl a : lex_leb a a = true.
Proof. induction a as [|x a IH]; simpl; [done|]. by rewrite Z.ltb_irrefl. Qed.
Lemma lex_leb_head x y a b : x ≠ y → lex_leb (x :: a) (y :: b) = (x <? y)%Z.
Proof.
  intros Hne. simpl. destruct (Z.ltb_spec x y); [done|]. destruct (Z.ltb_spec y x); [done|]. lia.
Qed.

Lemma NoDup_fmap_inj_on {A B} (f : A → B) l x y : NoDup (f <$> l) → x ∈ l → y ∈ l → f x = f y → x = y.
Proof.
  induction l as [|a l IH]; [by intros _ ?%elem_of_nil|]. rewrite fmap_cons. intros [Hn Hnd]%NoDup_cons Hx Hy Hf.
  apply elem_of_cons in Hx as [->|Hx], Hy as [->|Hy]; try done.
  - destruct Hn. rewrite Hf. by apply elem_of_list_fmap_1.
  - destruct Hn. rewrite <- Hf. by apply elem_of_list_fmap_1.
  - by apply IH.
Qed.

(* ================= the entity lists ================= *)
Lemma map_zn_inj (p q : list N) : map zn p = map zn q → p = q.
Proof.
  revert q. induction p as [|x p IH]; intros [|y q]; simpl; try done.
  intros [= Hx%zn_inj Hp%IH]. by subst.
Qed.
Lemma eEnt_inj x y : eEnt x = eEnt y → x = y.
Proof.
  destruct x as [i1 o1 p1 f1], y as [i2 o2 p2 f2]. unfold eEnt, ePose. simpl.
  intros [= Hi%zn_inj Ho%zn_inj H]. apply app_inj_tail in H as [Hp%map_zn_inj [= Hf%zn_inj]]. by subst.
Qed.

Definition entkey (eb : ent_pb * bool) : list Z := eEnt (fst eb).
Definition entkey' (eb : ent_pb * bool) : list Z := eEnt (fst eb) ++ [if snd eb then 1%Z else 0%Z].
Lemma entkey'_inj x y : entkey' x = entkey' y → x = y.
Proof.
  destruct x as [e1 b1], y as [e2 b2]. unfold entkey'. cbn [fst snd]. intros [He%eEnt_inj Hb]%app_inj_tail. subst. f_equal.
  destruct b1, b2; done.
Qed.
Lemma entkey_agree x y : ep_id (fst x) ≠ ep_id (fst y) →
  lex_leb (entkey x) (entkey y) = lex_leb (entkey' x) (entkey' y).
Proof.
  intros Hne. unfold entkey, entkey', eEnt. cbn [app].
  assert (Hz : zn (ep_id x.1) ≠ zn (ep_id y.1)) by (intros H%zn_inj; done).
  by rewrite !lex_leb_head.
Qed.

(* two lists of entities with the same elements, no entity id twice: the same canonical list *)
Lemma sort_ents_perm (l1 l2 : list (ent_pb * bool)) :
  NoDup ((λ eb, ep_id (fst eb)) <$> l1) → l1 ≡ₚ l2 → sort_by entkey l1 = sort_by entkey l2.
Proof.
  intros Hnd Hp.
  assert (Hnd2 : NoDup ((λ eb : ent_pb * bool, ep_id (fst eb)) <$> l2)) by (by rewrite <- Hp).
  assert (G : ∀ l, NoDup ((λ eb : ent_pb * bool, ep_id (fst eb)) <$> l) → sort_by entkey l = sort_by entkey' l).
  { intros l Hl. unfold sort_by. apply isort_ext_in. intros x y Hx Hy.
    destruct (decide (ep_id x.1 = ep_id y.1)) as [He|Hne]; [|by apply entkey_agree].
    rewrite (NoDup_fmap_inj_on (λ eb : ent_pb * bool, ep_id (fst eb)) l x y Hl Hx Hy He). by rewrite !lex_leb_refl. }
  rewrite (G l1 Hnd), (G l2 Hnd2). by apply (sort_by_perm_eq _ entkey'_inj).
Qed.

Definition ent_items (sp : spec) (sid : N) : list (ent_pb * bool) :=
  omap (λ kv : (N*N) * (ent_pb*bool), if fst (fst kv) =? sid then Some (snd kv) else None) (map_to_list (sp_ents sp)).
Definition sess_ents (SS : session) : list (ent_pb * bool) :=
  map (λ kv : N * entity, (ent_to_pb (fst kv) (snd kv), e_persist (snd kv))) (map_to_list (s_ents SS)).

Lemma spec_ents_items sp sid : spec_ents sp sid = sort_by entkey (ent_items sp sid).
Proof. reflexivity. Qed.
Lemma elem_of_sess_ents SS x : x ∈ sess_ents SS ↔ ∃ e, s_ents SS !! ep_id (fst x) = Some e ∧ x = ent_abs (ep_id (fst x)) e.
Proof.
  unfold sess_ents. rewrite elem_of_list_fmap. split.
  - intros ([eid e]&->&H). apply elem_of_map_to_list in H. simpl. by exists e.
  - intros (e&He&Hx). exists (ep_id x.1, e). split; [done|]. by apply elem_of_map_to_list.
Qed.
Lemma sess_ents_ids SS : (λ eb : ent_pb * bool, ep_id (fst eb)) <$> sess_ents SS = (map_to_list (s_ents SS)).*1.
Proof. unfold sess_ents. rewrite <- list_fmap_compose. by apply list_fmap_ext. Qed.
Lemma NoDup_sess_ents SS : NoDup (sess_ents SS).
Proof. apply (NoDup_fmap_1 (λ eb : ent_pb * bool, ep_id (fst eb))). rewrite sess_ents_ids. apply NoDup_fst_map_to_list. Qed.

Lemma spec_ents_session sp sid SS :
  (∀ eid, sp_ents sp !! (sid, eid) = ent_abs eid <$> s_ents SS !! eid) →
  spec_ents sp sid = sort_by entkey (sess_ents SS).
Proof.
  intros H. rewrite spec_ents_items. symmetry. apply sort_ents_perm.
  { rewrite sess_ents_ids. apply NoDup_fst_map_to_list. }
  assert (Hin : ∀ x, x ∈ ent_items sp sid ↔ x ∈ sess_ents SS).
  { intros x. rewrite elem_of_sess_ents. unfold ent_items. rewrite elem_of_list_omap. split.
    - intros ([[s eid] y]&Hin&Hf). simpl in Hf. apply elem_of_map_to_list in Hin.
      destruct (N.eqb_spec s sid) as [->|]; [|done]. injection Hf as ->. rewrite H in Hin.
      destruct (s_ents SS !! eid) as [e|] eqn:He; [|done]. simpl in Hin. injection Hin as <-. simpl. by exists e.
    - intros (e&He&Hx). exists ((sid, ep_id x.1), x). split; [|simpl; by rewrite N.eqb_refl].
      apply elem_of_map_to_list. rewrite H, He. simpl. by rewrite <- Hx. }
  apply NoDup_Permutation; [apply NoDup_sess_ents| |intros x; by rewrite Hin].
  unfold ent_items. apply NoDup_omap_inj; [apply NoDup_map_to_list|].
  intros [[s1 e1] y1] [[s2 e2] y2] b Hi1 Hi2. simpl.
  destruct (N.eqb_spec s1 sid) as [->|]; [|done]. destruct (N.eqb_spec s2 sid) as [->|]; [|done].
  intros [= ->] [= ->]. apply elem_of_map_to_list in Hi1, Hi2. rewrite H in Hi1, Hi2.
  destruct (s_ents SS !! e1) as [x1|]; [|done]. destruct (s_ents SS !! e2) as [x2|]; [|done].
  simpl in *. injection Hi1 as Hb1. injection Hi2 as Hb2. rewrite <- Hb2 in Hb1. unfold ent_abs, ent_to_pb in Hb1.
  injection Hb1 as ? _ _ _ _. by subst.
Qed.
Lemma spec_ents_eq sp st sid SS :
  refines_ents sp st → sessions st !! sid = Some SS → spec_ents sp sid = sort_by entkey (sess_ents SS).
Proof. intros E HS. apply spec_ents_session. intros eid. rewrite (E sid eid). unfold ents_at. by rewrite HS. Qed.

Lemma map_fst_sort_ents l : map fst (sort_by entkey l) = sort_by eEnt (map fst l).
Proof. unfold sort_by, entkey. apply (map_isort fst (λ a b, lex_leb (eEnt a) (eEnt b))). Qed.
Lemma map_fst_sess_ents SS : map fst (sess_ents SS) = ents_pb SS.
Proof. unfold sess_ents, ents_pb. rewrite map_map. done. Qed.

(* ---------- the hook snapshot (1122) ---------- *)
Lemma dump_check_k11 cfg i sp d0 :
  dump_check cfg k11 1100 i sp d0 =
  okv i (bool_decide (sort_by entkey (d_ents d0) = spec_ents sp (d_sid d0))) 1122 [zn (d_sid d0)].
Proof. unfold dump_check. cbn [k11 k_parts k_ents k_comps k_types k_subs k_acts k_assets k_reg negb orb andb okv app]. by rewrite app_nil_r. Qed.

Lemma snap_ok_11 cfg i sp st :
  refines_ents sp st →
  snap_check cfg k11 1100 i sp {| ev_op := OSnap; ev_req := None; ev_outs := [(0, snapshot st)]; ev_verdict := VOk |} = [].
Proof.
  intros E. unfold snap_check. cbn [ev_op ev_outs flat_map snd snapshot k_reg k11]. rewrite !app_nil_r.
  apply flat_map_nil_all. intros d0 Hd. apply elem_of_list_fmap in Hd as ([sid SS]&->&Hin).
  apply elem_of_map_to_list in Hin. rewrite dump_check_k11. cbn [fst snd dump_session d_ents d_sid].
  rewrite (spec_ents_eq sp st sid SS E Hin). by rewrite bool_decide_eq_true_2.
Qed.

(* ---------- the newcomer's SessionState (1110, 1112) ---------- *)
Lemma join_snapshot_ents_ok cfg i sp' c sid outs ps es cs :
  (flag_on cfg F_SESSION_STATE = false → first_to c outs state_of = Some (ps, es, cs)) →
  sort_by eEnt es = map fst (spec_ents sp' sid) →
  join_snapshot_check cfg k11 1100 i sp' c sid outs = [].
Proof.
  intros Hf Hes. unfold join_snapshot_check. cbn [k_parts k_ents k_comps k_acts k_assets k11].
  rewrite !andb_false_r. destruct (flag_on cfg F_SESSION_STATE); [done|].
  change (λ m : msg, match m with MSessionState ps0 es0 cs0 => Some (ps0, es0, cs0) | _ => None end) with state_of.
  rewrite (Hf eq_refl). simpl. by rewrite bool_decide_eq_true_2.
Qed.

(* ================= one step: everything but clause 1104 ================= *)
Definition c11_f (cfg : config) : nat → spec → spec → c11st → event → c11st * list violation :=
  λ i sp sp' s e, let '(s', v) := P_C11_event cfg i sp sp' s e in (s', v ++ P_C11_join cfg i sp sp' e ++ bad_msgs i 1100 e).
Definition c11_state (cfg : config) (t : trace) : c11st := xstate (c11_f cfg) 0 spec0 c11_0 t.

Lemma c11_join_ok cfg st o k sp i :
  inv st → bounded k st → k + 1 < two32 → own_inv st → refines_mem sp st → refines_ents sp st →
  let e := ev_of st o (step cfg st o) in
  P_C11_join cfg i sp (spec_step sp e) e = [].
Proof.
  intros I B Hk O R E e. unfold P_C11_join.
  pose proof (step_sim_ents cfg st o k sp I B Hk O R E) as E'. fold e in E'.
  destruct (stepped e) as [[c r]|] eqn:Hst; [|done]. destruct r; try done.
  destruct (step_stepped_join cfg st o c rid sid ots I Hst) as (hint&cn&q&st1&o1&v&->&Hc&Hc0&Ej&Es).
  set (st0 := upd_conn c (set_queue q) st) in *.
  assert (Hs0 : same_mem st st0) by (apply same_mem_upd_conn; by intros []).
  assert (I0 : inv st0) by by eapply inv_same_mem.
  assert (W0 : nowrap st0) by (eapply bounded_nowrap; [by eapply bounded_same_mem|done]).
  revert E'. generalize (spec_step sp e). intros sp' E'. unfold e, ev_of in *. rewrite Es in *. cbn [ev_outs fst snd] in *.
  destruct (join_resp c o1) as [[[[r' n] u] p']|] eqn:Hjr; [|done].
  destruct (join_shape cfg st0 c _ rid sid ots hint _ _ _ I0 W0 Hc0 Ej _ _ _ _ Hjr) as (S1&HS1&Hfirst).
  eapply join_snapshot_ents_ok; [exact Hfirst|].
  rewrite (spec_ents_eq sp' st1 n S1 E' HS1). by rewrite map_fst_sort_ents, map_fst_sess_ents.
Qed.

Lemma c11_rest_ok cfg st o k sp s i :
  inv st → bounded k st → k + 1 < two32 → reg st → own_inv st → frames_inv st →
  refines_mem sp st → refines_ents sp st → Rs st (u_last s) (u_expect s) →
  let e := ev_of st o (step cfg st o) in
  let s' := (P_C11_event cfg i sp (spec_step sp e) s e).1 in
  c11_step_clauses cfg i sp (u_expect s) e ++ snap_check cfg k11 1100 i sp e ++ c11_queue_clause i (u_expect s) e = [] ∧
  P_C11_join cfg i sp (spec_step sp e) e = [] ∧ bad_msgs i 1100 e = [] ∧
  Rs (step cfg st o).1.1 (u_last s') (u_expect s').
Proof.
  intros I B Hk G O F R E RS e s'. split; [|split; [|split]].
  - unfold e. rewrite (c11_step_clauses_ok cfg st o sp _ _ i I R E RS), (c11_queue_clause_ok cfg st o _ _ i RS). rewrite app_nil_r. simpl.
    destruct o as [c|c r|c hint|sid|c|]; try (by apply snap_check_not_snap).
    unfold ev_of. cbn [step consumed fst snd]. by apply snap_ok_11.
  - by eapply c11_join_ok.
  - by eapply step_bad_msgs'.
  - pose proof (P_C11_event_sched cfg i sp (spec_step sp e) s e) as Hs. fold s' in Hs.
    pose proof (sched_step_ok cfg st o sp _ _ I F R RS) as RS'. cbv zeta in RS'. fold e in RS'. rewrite <- Hs in RS'. exact RS'.
Qed.

(* every violation [c11_deliveries] can report is 1104 *)
Lemma c11_deliveries_codes i s outs : Forall (λ v, v_code v = 1104%Z) (c11_deliveries i s outs).2.
Proof.
  unfold c11_deliveries.
  assert (G : ∀ acc : c11st * list violation, Forall (λ v, v_code v = 1104%Z) acc.2 →
    Forall (λ v, v_code v = 1104%Z) (fold_left (λ (acc : c11st * list violation) (d : delivery),
      let '(s, vs) := acc in
      let seen := default ∅ (u_deleted s !! fst d) in
      match snd d with
      | MPoseB _ eid _ => (s, vs ++ okv i (bool_decide (eid ∉ seen)) 1104 [zn (fst d); zn eid])
      | MEntityDeleteB _ eid => ({| u_last := u_last s; u_expect := u_expect s;
                                    u_deleted := <[fst d := seen ∪ {[eid]}]> (u_deleted s) |}, vs)
      | _ => (s, vs)
      end) outs acc).2).
  { induction outs as [|d outs IH]; intros [s0 vs] Hacc; [done|]. cbn [fold_left].
    destruct (snd d); try (by apply (IH (s0, vs))); try (by apply (IH (_, vs))).
    apply (IH (s0, _)). cbn [snd] in *. apply Forall_app_2; [done|]. by apply Forall_okv. }
  apply (G (s, [])). constructor.
Qed.

(* ================= every history: the scheduler relation, and only 1104 can remain ================= *)
Theorem model_C11_sched cfg h :
  short h →
  Forall (λ v, v_code v = 1104%Z) (P_C11 cfg (run cfg h)) ∧
  Rs (final cfg h) (u_last (c11_state cfg (run cfg h))) (u_expect (c11_state cfg (run cfg h))).
Proof.
  induction h as [|o h IH] using rev_ind; intros Hs.
  { split; [constructor|apply Rs_state0]. }
  apply short_snoc in Hs as [Hs Hb]. destruct (IH Hs) as [IH1 IH2].
  assert (Hlen : N.of_nat (length h) < two32) by (unfold short in Hs; lia).
  destruct (reachable_inv cfg h state0 0 inv_state0 bounded_state0) as [I B]; [lia|].
  destruct (reachable_reg cfg h Hlen) as [G _].
  pose proof (refinement_mem cfg h Hs) as R. pose proof (refinement_ents cfg h Hs) as E.
  pose proof (reachable_own cfg h Hs) as O. pose proof (reachable_frames cfg h Hlen) as F.
  unfold P_C11, c11_state in *.
  change (λ i sp sp' s e, let '(s', v) := P_C11_event cfg i sp sp' s e in (s', v ++ P_C11_join cfg i sp sp' e ++ bad_msgs i 1100 e))
    with (c11_f cfg) in *.
  rewrite run_snoc, xscan_snoc, xstate_snoc, final_snoc.
  change (fold_left spec_step (run cfg h) spec0) with (spec_after (run cfg h)).
  set (sp := spec_after (run cfg h)) in *. set (st := final cfg h) in *. set (s := xstate (c11_f cfg) 0 spec0 c11_0 (run cfg h)) in *.
  set (e := ev_of st o (step cfg st o)).
  destruct (c11_rest_ok cfg st o (0 + N.of_nat (length h)) sp s (0 + length (run cfg h)) I B ltac:(lia) G O F R E IH2) as (C1&C2&C3&C4).
  fold e in C1, C2, C3, C4.
  pose proof (P_C11_event_viol cfg (0 + length (run cfg h)) sp (spec_step sp e) s e) as Hv. rewrite C1, app_nil_r in Hv.
  unfold c11_f. destruct (P_C11_event cfg (0 + length (run cfg h)) sp (spec_step sp e) s e) as [s' v]. cbn [fst snd] in *.
  split; [|exact C4]. apply Forall_app_2; [exact IH1|]. rewrite C2, C3, !app_nil_r. rewrite Hv. apply c11_deliveries_codes.
Qed.

Theorem model_C11_partial cfg h : short h → Forall (λ v, v_code v = 1104%Z) (P_C11 cfg (run cfg h)).
Proof. intros Hs. by destruct (model_C11_sched cfg h Hs). Qed.

(* proofs/Relay.v — who a Broadcast / BroadcastTo reaches, exactly.  Facts about one
   session record; no global state. *)
From hagall Require Import Model.
From hagall.proofs Require Import BaseLemmas.
From Coq Require Import Lia.

(* ---------- dedupN ---------- *)
Lemma dedupN_spec l seen x : x ∈ dedupN l seen ↔ x ∈ l ∧ x ∉ seen.
Proof.
  revert seen. induction l as [|y l IH]; intros seen; simpl.
  - split; [inversion 1|intros [H _]; inversion H].
  - destruct (memN y seen) eqn:E.
    + apply memN_elem in E. rewrite IH. split.
      * intros [H1 H2]. split; [by right|done].
      * intros [H1 H2]. split; [|done]. inversion H1; subst; [done|done].
    + apply memN_false in E. rewrite elem_of_cons, IH. split.
      * intros [->|[H1 H2]]; [split; [by left|done]|]. split; [by right|]. intros H. apply H2. by right.
      * intros [H1 H2]. inversion H1; subst; [by left|]. destruct (decide (x = y)) as [->|Hne]; [by left|].
        right. split; [done|]. intros H. inversion H; subst; done.
Qed.
Lemma dedupN_NoDup l seen : NoDup (dedupN l seen).
Proof.
  revert seen. induction l as [|y l IH]; intros seen; simpl; [constructor|].
  destruct (memN y seen) eqn:E; [apply IH|]. constructor; [|apply IH].
  rewrite dedupN_spec. intros [_ H]. apply H. by left.
Qed.

(* ---------- Session.Broadcast ---------- *)
Lemma elem_of_others SS p q cq :
  (q, cq) ∈ others SS p ↔ s_parts SS !! q = Some cq ∧ q ≠ p.
Proof.
  unfold others. rewrite elem_of_list_filter, elem_of_sort_by, elem_of_map_to_list. simpl. tauto.
Qed.
Lemma NoDup_others_fst SS p : NoDup (map fst (others SS p)).
Proof.
  unfold others.
  assert (H : NoDup (map fst (sort_by (λ qc : N * N, [zn (fst qc)]) (map_to_list (s_parts SS))))).
  { rewrite sort_by_perm. apply NoDup_fst_map_to_list. }
  revert H. generalize (sort_by (λ qc : N * N, [zn (fst qc)]) (map_to_list (s_parts SS))).
  intros l. induction l as [|[a b] l IH]; [done|].
  rewrite filter_cons. simpl. intros Hnd. apply NoDup_cons in Hnd as [Hn Hnd].
  destruct (decide (a ≠ p)); simpl; [|by apply IH].
  apply NoDup_cons. split; [|by apply IH].
  intros H. apply Hn. apply elem_of_list_fmap in H as ([a' b']&->&H). apply elem_of_list_filter in H as [_ H].
  apply elem_of_list_fmap. by exists (a', b').
Qed.

(* participant ids and connections correspond one to one inside a session *)
Definition parts_injective (SS : session) : Prop :=
  ∀ q1 q2 c, s_parts SS !! q1 = Some c → s_parts SS !! q2 = Some c → q1 = q2.

Lemma NoDup_others_snd SS p : parts_injective SS → NoDup (map snd (others SS p)).
Proof.
  intros Hinj. pose proof (NoDup_others_fst SS p) as Hnd.
  assert (Hin : ∀ qc, qc ∈ others SS p → s_parts SS !! fst qc = Some (snd qc)).
  { intros [q cq] H. by apply elem_of_others in H as [H _]. }
  revert Hnd Hin. generalize (others SS p). intros l. induction l as [|[a b] l IH]; simpl; [constructor|].
  intros Hnd Hin. apply NoDup_cons in Hnd as [Hn Hnd]. apply NoDup_cons. split.
  - intros H. apply elem_of_list_fmap in H as ([a' b']&Hb&H). simpl in Hb. subst b'.
    apply Hn. assert (a' = a) as ->.
    { eapply Hinj; [apply (Hin (a', b)); by right|apply (Hin (a, b)); by left]. }
    apply elem_of_list_fmap. by exists (a, b).
  - apply IH; [done|]. intros qc H. apply Hin. by right.
Qed.

(* Broadcast reaches every other member, and nobody else *)
Theorem broadcast_spec SS p m cq m' :
  (cq, m') ∈ broadcast SS p m ↔ m' = m ∧ ∃ q, s_parts SS !! q = Some cq ∧ q ≠ p.
Proof.
  unfold broadcast. rewrite elem_of_list_fmap. split.
  - intros ([q c]&[= -> ->]&H). apply elem_of_others in H. split; [done|]. by exists q.
  - intros (->&q&H1&H2). exists (q, cq). split; [done|]. by apply elem_of_others.
Qed.
(* ... exactly once each: the recipient list has no duplicates *)
Theorem broadcast_recipients_NoDup SS p m :
  parts_injective SS → NoDup (map fst (broadcast SS p m)).
Proof.
  intros Hinj. unfold broadcast. rewrite <- list_fmap_compose.
  replace (map (fst ∘ (λ qc : N * N, (snd qc, m))) (others SS p)) with (map snd (others SS p)); [by apply NoDup_others_snd|].
  by apply list_fmap_ext.
Qed.
(* ... and never the sender's own connection *)
Theorem broadcast_not_sender SS p m c :
  parts_injective SS → s_parts SS !! p = Some c → c ∉ map fst (broadcast SS p m).
Proof.
  intros Hinj Hp H. apply elem_of_list_fmap in H as ([c' m']&->&H). simpl in *.
  apply broadcast_spec in H as (_&q&Hq&Hne). apply Hne. by eapply Hinj.
Qed.
Lemma broadcast_length SS p m : length (broadcast SS p m) = length (others SS p).
Proof. unfold broadcast. by rewrite map_length. Qed.
Lemma broadcast_empty SS p m : (∀ q, is_Some (s_parts SS !! q) → q = p) → broadcast SS p m = [].
Proof.
  intros H. unfold broadcast. destruct (others SS p) as [|[q c] l] eqn:E; [done|].
  assert (Hin : (q, c) ∈ others SS p) by (rewrite E; by left).
  apply elem_of_others in Hin as [H1 H2]. destruct H2. apply H. by eexists.
Qed.

(* ---------- Session.BroadcastTo ---------- *)
Theorem broadcast_to_spec SS p ids m cq m' :
  (cq, m') ∈ broadcast_to SS p ids m ↔ m' = m ∧ ∃ q, q ∈ ids ∧ q ≠ p ∧ s_parts SS !! q = Some cq.
Proof.
  unfold broadcast_to. rewrite elem_of_list_omap. split.
  - intros (q&Hq&H). apply dedupN_spec in Hq as [Hq _].
    destruct (q =? p) eqn:E; [done|]. apply N.eqb_neq in E.
    destruct (s_parts SS !! q) as [c|] eqn:Hc; simpl in H; [|done]. injection H as <- <-.
    split; [done|]. by exists q.
  - intros (->&q&H1&H2&H3). exists q. split; [apply dedupN_spec; split; [done|inversion 1]|].
    apply N.eqb_neq in H2. rewrite H2, H3. done.
Qed.
Theorem broadcast_to_recipients_NoDup SS p ids m :
  parts_injective SS → NoDup (map fst (broadcast_to SS p ids m)).
Proof.
  intros Hinj. unfold broadcast_to.
  pose proof (dedupN_NoDup ids []) as Hnd. revert Hnd. generalize (dedupN ids []). intros l.
  induction l as [|q l IH]; simpl; [constructor|]. intros Hnd. apply NoDup_cons in Hnd as [Hn Hnd].
  destruct (q =? p) eqn:E; [by apply IH|]. destruct (s_parts SS !! q) as [c|] eqn:Hc; simpl; [|by apply IH].
  apply NoDup_cons. split; [|by apply IH].
  intros H. apply elem_of_list_fmap in H as ([c' m']&->&H). simpl in *.
  apply elem_of_list_omap in H as (q'&Hq'&H). destruct (q' =? p); [done|].
  destruct (s_parts SS !! q') as [c''|] eqn:Hc'; simpl in H; [|done]. injection H as -> ->.
  assert (q' = q) as -> by (by eapply Hinj). done.
Qed.
Theorem broadcast_to_not_sender SS p ids m c :
  parts_injective SS → s_parts SS !! p = Some c → c ∉ map fst (broadcast_to SS p ids m).
Proof.
  intros Hinj Hp H. apply elem_of_list_fmap in H as ([c' m']&->&H). simpl in *.
  apply broadcast_to_spec in H as (_&q&_&Hne&Hq). apply Hne. by eapply Hinj.
Qed.

(* proofs/PC18.v — the signed-latency measurement as a state machine (models/signed_latency.go, C18). *)
From hagall Require Import Model.
From hagall.proofs Require Import BaseLemmas Inv.
From Coq Require Import Lia.

Definition answered (l : latency) : nat := length (List.filter (λ ib : N * bool, snd ib) (l_pings l)).
Definition unanswered (l : latency) : list N := map fst (List.filter (λ ib : N * bool, negb (snd ib)) (l_pings l)).

(* n rounds were asked for; the measurement is running (l_iter > 0) or complete (l_iter = 0) *)
Record lat_inv (n : N) (top : N) (l : latency) : Prop := {
  li_sum : N.of_nat (answered l) + l_iter l = n;
  li_len : length (l_pings l) = (answered l + (if (l_iter l =? 0)%N then 0 else 1))%nat;
  li_last : ∀ i id, l_pings l !! i = Some (id, false) → S i = length (l_pings l);
  li_ids : ∀ id b, (id, b) ∈ l_pings l → 1 ≤ id ≤ top;
  li_nodup : NoDup (map fst (l_pings l));
  li_small : n < two32
}.

(* ---------- start ---------- *)
Definition start_refusal (joined : bool) (n wallet : N) : option N :=
  if negb joined then Some E_UNAUTHORIZED
  else if (n <? lat_min) || (lat_max <? n) then Some E_BAD_REQUEST
  else if wallet =? 0 then Some E_BAD_REQUEST else None.

Lemma start_unjoined cfg st c cn rid n w hint :
  handle_unjoined cfg st c cn (RSignedLatency rid n w) hint = (st, [(c, MError rid E_UNAUTHORIZED)], VOk).
Proof. done. Qed.
Lemma start_refused cfg st c cn sid p SS rid n w hint code :
  start_refusal true n w = Some code →
  handle_joined cfg st c cn sid p SS (RSignedLatency rid n w) hint = (st, [(c, MError rid code)], VOk).
Proof. unfold start_refusal. simpl. intros H. repeat case_match; by simplify_eq. Qed.
Lemma start_accepted cfg st c cn sid p SS rid n w hint :
  start_refusal true n w = None → next_ping st + 1 < two32 →
  let id := next_ping st + 1 in
  let l := {| l_rid := rid; l_iter := n; l_pings := [(id, false)]; l_uuid := s_uuid SS; l_client := c; l_wallet := w |} in
  ∃ st', handle_joined cfg st c cn sid p SS (RSignedLatency rid n w) hint = (upd_conn c (set_lat (Some l)) st', [(c, MPingReq id)], VOk) ∧
    sessions st' = sessions st ∧ conns st' = conns st ∧ next_ping st' = id ∧ 3 ≤ n ≤ 50 ∧ w ≠ 0 ∧ lat_inv n id l.
Proof.
  unfold start_refusal. simpl. intros H Hw. destruct ((n <? lat_min) || (lat_max <? n)) eqn:E1; [done|].
  destruct (w =? 0) eqn:E2; [done|]. apply orb_false_iff in E1 as [E1a E1b].
  apply N.ltb_ge in E1a, E1b. apply N.eqb_neq in E2. unfold lat_min, lat_max in *.
  eexists. split; [reflexivity|]. simpl. repeat (split; [done|]).
  assert (Hn0 : (n =? 0) = false) by (apply N.eqb_neq; lia).
  split; unfold answered; simpl; rewrite ?Hn0; try done; try lia.
  - intros [|i] id; simpl; [done|]. by rewrite lookup_nil.
  - intros id b [= -> ->]%elem_of_list_singleton. lia.
  - apply NoDup_singleton.
  - unfold two32. lia.
Qed.

(* ---------- answers ---------- *)
(* unknown id, id already answered, or no measurement: refused, nothing changes *)
Lemma ping_refused st c cn rid :
  (c_lat cn = None ∨ ∃ l, c_lat cn = Some l ∧ rid ∉ unanswered l) →
  on_ping st c cn rid = (st, [(c, MError rid E_INTERNAL)], VOk).
Proof.
  unfold on_ping. intros [->|(l&->&H)]; [done|].
  destruct (list_find (λ ib : N * bool, ib.1 = rid) (l_pings l)) as [[i [id b]]|] eqn:E; [|done].
  apply list_find_Some in E as (Hi&He&_). simpl in He. subst id. destruct b; [done|].
  destruct H. unfold unanswered. apply elem_of_list_fmap. exists (rid, false). split; [done|].
  apply elem_of_list_In, filter_In. split; [|done]. apply elem_of_list_In. by eapply elem_of_list_lookup_2.
Qed.

Lemma lfilter_le {A} (f : A → bool) l : (length (List.filter f l) ≤ length l)%nat.
Proof. induction l as [|x l IH]; simpl; [done|]. destruct (f x); simpl; lia. Qed.

Lemma filter_insert_true (l : list (N * bool)) i id :
  l !! i = Some (id, false) →
  length (List.filter (λ ib : N * bool, ib.2) (<[i := (id, true)]> l)) = S (length (List.filter (λ ib : N * bool, ib.2) l)).
Proof.
  revert i. induction l as [|[x b] l IH]; intros [|i]; simpl; try done.
  - intros [= -> ->]. done.
  - intros H. destruct b; simpl; rewrite (IH _ H); done.
Qed.

(* an answer to the one outstanding ping: either exactly one more ping is issued, or - when exactly n have
   been answered - the report, naming the request, n, exactly the ids issued, the incarnation, client and wallet *)
Lemma ping_accepted st c cn rid l n :
  c_lat cn = Some l → lat_inv n (next_ping st) l → rid ∈ unanswered l → next_ping st + 1 < two32 →
  (∃ l' st', on_ping st c cn rid = (upd_conn c (set_lat (Some l')) st', [(c, MPingReq (next_ping st + 1))], VOk) ∧
     sessions st' = sessions st ∧ next_ping st' = next_ping st + 1 ∧ 0 < l_iter l' ∧
     lat_inv n (next_ping st + 1) l' ∧ answered l' = S (answered l) ∧ l_rid l' = l_rid l ∧
     l_uuid l' = l_uuid l ∧ l_client l' = l_client l ∧ l_wallet l' = l_wallet l) ∨
  (∃ l', on_ping st c cn rid =
       (upd_conn c (set_lat (Some l')) st,
        [(c, MSignedLatencyResp (l_rid l) n (map fst (l_pings l)) (l_uuid l) (l_client l) (l_wallet l) true true)], VOk) ∧
     l_iter l' = 0 ∧ lat_inv n (next_ping st) l' ∧ N.of_nat (length (l_pings l)) = n ∧ NoDup (map fst (l_pings l)) ∧
     unanswered l' = []).
Proof.
  intros Hl [I1 I2 I3 I4 I5 I6] Hr Hw. unfold on_ping. rewrite Hl.
  apply elem_of_list_fmap in Hr as ([id b]&->&Hr). apply elem_of_list_In, filter_In in Hr as [Hin Hb]. simpl in *.
  apply negb_true_iff in Hb. subst b. apply elem_of_list_In in Hin.
  destruct (list_find (λ ib : N * bool, ib.1 = id) (l_pings l)) as [[i [id' b]]|] eqn:E.
  2: { apply list_find_None in E. rewrite Forall_forall in E. by destruct (E _ Hin). }
  apply list_find_Some in E as (Hi&He&Hfirst). simpl in He. subst id'.
  (* ids are distinct: the entry found is the unanswered one *)
  assert (b = false) as ->.
  { apply elem_of_list_lookup in Hin as [j Hj].
    assert (i = j); [|by simplify_eq].
    eapply NoDup_lookup; [exact I5| |]; rewrite list_lookup_fmap; [by rewrite Hi|by rewrite Hj]. }
  pose proof (I3 _ _ Hi) as Hlast.
  assert (Hit : l_iter l ≠ 0).
  { intros H0. rewrite H0 in I2. simpl in I2. unfold answered in I2.
    assert (length (List.filter (λ ib : N * bool, ib.2) (l_pings l)) < length (l_pings l))%nat; [|lia].
    clear -Hi. revert i Hi. induction (l_pings l) as [|[x b] l' IH]; intros [|i] Hi; simpl in *; try done.
    - injection Hi as -> ->. pose proof (lfilter_le (λ ib : N * bool, ib.2) l'). simpl. lia.
    - specialize (IH _ Hi). destruct b; simpl; lia. }
  assert (Hpred : u32_pred (l_iter l) = l_iter l - 1) by (unfold u32_pred; apply N.eqb_neq in Hit; by rewrite Hit).
  rewrite Hpred. apply N.eqb_neq in Hit. rewrite Hit in I2.
  assert (Hans : length (List.filter (λ ib : N * bool, ib.2) (<[i := (id, true)]> (l_pings l))) = S (answered l))
    by (by apply filter_insert_true).
  assert (Hfst : map fst (<[i := (id, true)]> (l_pings l)) = map fst (l_pings l)).
  { rewrite list_fmap_insert. simpl. apply list_insert_id. rewrite list_lookup_fmap, Hi. done. }
  destruct (0 <? l_iter l - 1) eqn:Egt.
  - left. apply N.ltb_lt in Egt. unfold send_ping. simpl. eexists _, _. split; [reflexivity|]. simpl.
    split; [done|]. split; [done|]. split; [lia|].
    split; [|split; [unfold answered; simpl; rewrite List.filter_app, app_length; simpl; unfold answered in Hans; rewrite Hans; lia|done]].
    assert (Hn0 : (l_iter l - 1 =? 0) = false) by (apply N.eqb_neq; lia).
    split; unfold answered; simpl; rewrite ?Hn0, ?List.filter_app, ?app_length, ?insert_length; simpl; rewrite ?Hans.
    + lia.
    + rewrite I2. lia.
    + intros j id0 Hj. apply lookup_app_Some in Hj as [Hj|[Hge Hj]].
      * destruct (decide (j = i)) as [->|Hne]; [rewrite list_lookup_insert in Hj by (by eapply lookup_lt_Some); done|].
        rewrite list_lookup_insert_ne in Hj by done. specialize (I3 _ _ Hj). lia.
      * rewrite insert_length in *. destruct (j - length (l_pings l))%nat eqn:Ej; simpl in Hj; [lia|by rewrite lookup_nil in Hj].
    + intros id0 b0 [H0|H0]%elem_of_app.
      * apply elem_of_list_lookup in H0 as [j Hj]. destruct (decide (j = i)) as [->|Hne].
        -- rewrite list_lookup_insert in Hj by (by eapply lookup_lt_Some). injection Hj as <- <-.
           specialize (I4 _ _ (elem_of_list_lookup_2 _ _ _ Hi)). lia.
        -- rewrite list_lookup_insert_ne in Hj by done. specialize (I4 _ _ (elem_of_list_lookup_2 _ _ _ Hj)). lia.
      * apply elem_of_list_singleton in H0. injection H0 as -> ->. lia.
    + rewrite map_app, Hfst. simpl. apply NoDup_app. split; [done|]. split; [|apply NoDup_singleton].
      intros x Hx Hx'. apply elem_of_list_singleton in Hx' as ->.
      apply elem_of_list_In, in_map_iff in Hx as ([x' b0]&Heq&Hx). simpl in Heq. apply elem_of_list_In in Hx. specialize (I4 _ _ Hx). lia.
    + done.
  - right. apply N.ltb_ge in Egt. assert (Hi1 : l_iter l = 1) by (apply N.eqb_neq in Hit; lia).
    assert (Hn : N.of_nat (length (l_pings l)) = n).
    { rewrite I2. rewrite Hi1 in I1. lia. }
    eexists. split.
    { simpl. rewrite insert_length, Hfst, Hn. reflexivity. }
    simpl. split; [lia|]. split; [|split; [done|split; [done|]]].
    + replace (l_iter l - 1) with 0 by lia.
      split; unfold answered; simpl; rewrite ?insert_length, ?Hans; try done.
      * lia.
      * rewrite I2. lia.
      * intros j id0 Hj. destruct (decide (j = i)) as [->|Hne]; [rewrite list_lookup_insert in Hj by (by eapply lookup_lt_Some); done|].
        rewrite list_lookup_insert_ne in Hj by done. specialize (I3 _ _ Hj). lia.
      * intros id0 b0 H0. apply elem_of_list_lookup in H0 as [j Hj]. destruct (decide (j = i)) as [->|Hne].
        -- rewrite list_lookup_insert in Hj by (by eapply lookup_lt_Some). injection Hj as <- <-.
           apply (I4 _ _ (elem_of_list_lookup_2 _ _ _ Hi)).
        -- rewrite list_lookup_insert_ne in Hj by done. apply (I4 _ _ (elem_of_list_lookup_2 _ _ _ Hj)).
      * by rewrite Hfst.
    + unfold unanswered. simpl. destruct (List.filter (λ ib : N * bool, negb ib.2) (<[i := (id, true)]> (l_pings l))) as [|[x b0] r] eqn:Ef; [done|]. exfalso.
      assert (Hx : In (x, b0) (List.filter (λ ib : N * bool, negb ib.2) (<[i := (id, true)]> (l_pings l)))) by (rewrite Ef; by left).
      apply filter_In in Hx as [Hx Hb]. simpl in Hb. apply negb_true_iff in Hb. subst b0.
      apply elem_of_list_In, elem_of_list_lookup in Hx as [j Hj]. destruct (decide (j = i)) as [->|Hne].
      * rewrite list_lookup_insert in Hj by (by eapply lookup_lt_Some). done.
      * rewrite list_lookup_insert_ne in Hj by done. specialize (I3 _ _ Hj). lia.
Qed.

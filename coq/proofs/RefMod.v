(* proofs/RefMod.v — the refinement extended to the MODULE state and the ISSUED-ID sets: after every history the
   spec's action table (vikja) and asset table (odal) are the abstraction of the sessions' module maps, and the
   entity / asset-instance ids the spec has seen issued under a live incarnation are exactly 1 .. the session's
   counter.  Built on the membership refinement (Refine.v, Refine2.v), the entity refinement (Refine3.v), the
   ownership invariant (Own.v) and session well-formedness (WF.v). *)
From stdpp Require Import relations sorting.
From hagall Require Import Model Spec Obs Preds.
From hagall.proofs Require Import BaseLemmas Relay Inv Session Local Trans WF Mono Reach PC02 PC06 PC07 Own Refine Refine2 Refine3.
From Coq Require Import Lia.

(* ================= the abstraction relation ================= *)
Definition acts_at (st : state) (sid eid n : N) : option action := sessions st !! sid ≫= λ SS, s_actions SS !! (eid, n).
Definition assets_at (st : state) (sid eid : N) : option asset := sessions st !! sid ≫= λ SS, s_assets SS !! eid.

Record refines_mod (sp : spec) (st : state) : Prop := {
  (* vikja: the action stored under (entity, name) *)
  rd_acts : ∀ sid eid n, sp_acts sp !! (sid, eid, n) = acts_at st sid eid n;
  (* odal: the asset instance attached to an entity *)
  rd_assets : ∀ sid eid, sp_assets sp !! (sid, eid) = assets_at st sid eid;
  (* the entity ids issued under a live incarnation are exactly 1 .. its counter *)
  rd_eids : ∀ sid SS, sessions st !! sid = Some SS → ∀ e, e ∈ issued (sp_eids sp) (s_uuid SS) ↔ 1 ≤ e ≤ s_egen SS;
  (* likewise the asset-instance ids *)
  rd_iids : ∀ sid SS, sessions st !! sid = Some SS → ∀ i, i ∈ issued (sp_iids sp) (s_uuid SS) ↔ 1 ≤ i ≤ s_agen SS;
  (* nothing is issued under an incarnation that does not exist yet *)
  rd_efresh : ∀ u, next_uuid st < u → issued (sp_eids sp) u = ∅;
  rd_ifresh : ∀ u, next_uuid st < u → issued (sp_iids sp) u = ∅
}.

Lemma refines_mod_state0 : refines_mod spec0 state0.
Proof.
  split; unfold acts_at, assets_at; simpl; intros *; rewrite ?lookup_empty; try done.
Qed.

(* the relation reads these parts of the spec ... *)
Definition dproj (sp : spec) : gmap (N*N*N) action * gmap (N*N) asset * gmap N (gset N) * gmap N (gset N) :=
  (sp_acts sp, sp_assets sp, sp_eids sp, sp_iids sp).
(* ... and these parts of the model state *)
Definition modp (SS : session) : gmap (N*N) action * gmap N asset * N * N * N :=
  (s_actions SS, s_assets SS, s_egen SS, s_agen SS, s_uuid SS).
Definition same_mod (st st' : state) : Prop :=
  (∀ sid, modp <$> sessions st' !! sid = modp <$> sessions st !! sid) ∧ next_uuid st' = next_uuid st.

Lemma same_mod_refl st : same_mod st st.
Proof. done. Qed.
Lemma same_mod_trans a b c : same_mod a b → same_mod b c → same_mod a c.
Proof. intros [A1 A2] [B1 B2]. split; [intros sid; by rewrite B1|congruence]. Qed.
Lemma same_mod_sessions st st' : sessions st' = sessions st → next_uuid st' = next_uuid st → same_mod st st'.
Proof. intros H1 H2. split; [by rewrite H1|done]. Qed.

Lemma modp_lookup st st' sid SS' :
  (∀ sid, modp <$> sessions st' !! sid = modp <$> sessions st !! sid) → sessions st' !! sid = Some SS' →
  ∃ SS, sessions st !! sid = Some SS ∧ modp SS = modp SS'.
Proof.
  intros H HS. specialize (H sid). rewrite HS in H. destruct (sessions st !! sid) as [SS|]; [|done].
  exists SS. split; [done|]. cbn [fmap option_fmap option_map] in H. congruence.
Qed.

Lemma refines_mod_same sp sp' st st' :
  dproj sp' = dproj sp → same_mod st st' → refines_mod sp st → refines_mod sp' st'.
Proof.
  unfold dproj. intros [= D1 D2 D3 D4] [M1 M2] [R1 R2 R3 R4 R5 R6].
  assert (Ha : ∀ sid eid n, acts_at st' sid eid n = acts_at st sid eid n).
  { intros sid eid n. unfold acts_at. specialize (M1 sid).
    destruct (sessions st' !! sid) as [S'|], (sessions st !! sid) as [S0|]; simpl in *; try done.
    injection M1 as -> _ _ _ _. done. }
  assert (Hb : ∀ sid eid, assets_at st' sid eid = assets_at st sid eid).
  { intros sid eid. unfold assets_at. specialize (M1 sid).
    destruct (sessions st' !! sid) as [S'|], (sessions st !! sid) as [S0|]; simpl in *; try done.
    injection M1 as _ -> _ _ _. done. }
  split; rewrite ?D1, ?D2, ?D3, ?D4, ?M2; try done.
  - intros sid eid n. by rewrite Ha.
  - intros sid eid. by rewrite Hb.
  - intros sid SS' HS'. destruct (modp_lookup st st' sid SS' M1 HS') as (SS&HS&E). unfold modp in E.
    injection E as _ _ E1 _ E2. rewrite <- E1, <- E2. by apply (R3 sid).
  - intros sid SS' HS'. destruct (modp_lookup st st' sid SS' M1 HS') as (SS&HS&E). unfold modp in E.
    injection E as _ _ _ E1 E2. rewrite <- E1, <- E2. by apply (R4 sid).
Qed.

(* one registered session replaced by one with the same module projection *)
Lemma same_mod_put st sid SS S1 :
  sessions st !! sid = Some SS → modp S1 = modp SS → same_mod st (put_session st sid S1).
Proof.
  intros HS E. split; [|done]. intros s. simpl. destruct (decide (s = sid)) as [->|Hne].
  - rewrite lookup_insert, HS. simpl. by rewrite E.
  - by rewrite lookup_insert_ne.
Qed.
Lemma same_mod_upd_conn st c f : same_mod st (upd_conn c f st).
Proof. done. Qed.

(* ================= filters ================= *)
Lemma filter_lookup_bool `{Countable K} {A} (f : K * A → bool) (m : gmap K A) k :
  filter (λ kv, f kv) m !! k = match m !! k with Some v => if f (k, v) then Some v else None | None => None end.
Proof.
  destruct (m !! k) as [v|] eqn:E.
  - destruct (f (k, v)) eqn:Ef.
    + apply map_filter_lookup_Some. split; [done|]. by rewrite Ef.
    + apply map_filter_lookup_None. right. intros v' Hv'. simplify_eq. rewrite Ef. simpl. tauto.
  - apply map_filter_lookup_None. by left.
Qed.
Lemma filter_lookup_prop `{Countable K} {A} (P : K * A → Prop) `{∀ x, Decision (P x)} (m : gmap K A) k :
  filter P m !! k = match m !! k with Some v => if decide (P (k, v)) then Some v else None | None => None end.
Proof.
  destruct (m !! k) as [v|] eqn:E.
  - destruct (decide (P (k, v))) as [Hp|Hp].
    + apply map_filter_lookup_Some. done.
    + apply map_filter_lookup_None. right. intros v' Hv'. by simplify_eq.
  - apply map_filter_lookup_None. by left.
Qed.

(* ================= the spec side of a departure ================= *)
Lemma ids_remove_entities sid l sp :
  sp_eids (fold_right (sp_remove_entity sid) sp l) = sp_eids sp ∧ sp_iids (fold_right (sp_remove_entity sid) sp l) = sp_iids sp.
Proof. induction l as [|x l IH]; simpl; [done|]. exact IH. Qed.

Lemma acts_remove_entities sid l sp s e n :
  sp_acts (fold_right (sp_remove_entity sid) sp l) !! (s, e, n) =
  if bool_decide (s = sid ∧ e ∈ l) then None else sp_acts sp !! (s, e, n).
Proof.
  induction l as [|x l IH]; simpl.
  - rewrite bool_decide_eq_false_2; [done|]. intros [_ H]. by apply elem_of_nil in H.
  - set (q := fold_right (sp_remove_entity sid) sp l) in *.
    change (sp_acts (sp_remove_entity sid x q)) with
      (filter (λ kv : (N*N*N) * action, negb ((fst (fst (fst kv)) =? sid) && (snd (fst (fst kv)) =? x))) (sp_acts q)).
    rewrite filter_lookup_bool, IH. simpl.
    destruct (N.eqb_spec s sid) as [->|Hs]; simpl.
    2:{ rewrite !bool_decide_eq_false_2 by (by intros [? _]). by destruct (sp_acts sp !! (s, e, n)). }
    destruct (N.eqb_spec e x) as [->|He]; simpl.
    + rewrite (bool_decide_eq_true_2 (sid = sid ∧ x ∈ x :: l)) by (split; [done|by left]).
      by destruct (if bool_decide _ then _ else _).
    + assert (Hb : bool_decide (sid = sid ∧ e ∈ x :: l) = bool_decide (sid = sid ∧ e ∈ l)).
      { apply bool_decide_ext. rewrite elem_of_cons. naive_solver. }
      rewrite Hb. by destruct (if bool_decide _ then _ else _).
Qed.

Lemma assets_remove_entities sid l sp s e :
  sp_assets (fold_right (sp_remove_entity sid) sp l) !! (s, e) =
  if bool_decide (s = sid ∧ e ∈ l) then None else sp_assets sp !! (s, e).
Proof.
  induction l as [|x l IH]; simpl.
  - rewrite bool_decide_eq_false_2; [done|]. intros [_ H]. by apply elem_of_nil in H.
  - set (q := fold_right (sp_remove_entity sid) sp l) in *.
    change (sp_assets (sp_remove_entity sid x q)) with (delete (sid, x) (sp_assets q)).
    destruct (decide ((s, e) = (sid, x))) as [[= -> ->]|Hne].
    + rewrite lookup_delete. rewrite bool_decide_eq_true_2; [done|]. split; [done|by left].
    + rewrite lookup_delete_ne by done. rewrite IH.
      apply (f_equal (λ b : bool, if b then None else sp_assets sp !! (s, e))).
      apply bool_decide_ext. rewrite elem_of_cons. split; [naive_solver|]. intros [-> [->|?]]; done.
Qed.

Lemma depart_ids sp c : sp_eids (depart sp c) = sp_eids sp ∧ sp_iids (depart sp c) = sp_iids sp.
Proof.
  unfold depart. destruct (sp_mem sp !! c) as [[sid p]|]; [|done].
  destruct (ids_remove_entities sid (sp_gone sp sid p) sp) as [H1 H2].
  destruct (sp_live _ sid); simpl; by rewrite H1, H2.
Qed.

Lemma depart_acts sp c s e n :
  sp_acts (depart sp c) !! (s, e, n) =
  match sp_mem sp !! c with
  | None => sp_acts sp !! (s, e, n)
  | Some (sid, p) =>
      if sp_live (set_mem (delete c) sp) sid then
        if bool_decide (s = sid ∧ e ∈ sp_gone sp sid p) then None else sp_acts sp !! (s, e, n)
      else if bool_decide (s = sid) then None else sp_acts sp !! (s, e, n)
  end.
Proof.
  unfold depart. destruct (sp_mem sp !! c) as [[sid p]|] eqn:E; [|done].
  pose proof (mproj_remove_entities sid (sp_gone sp sid p) sp) as Hm.
  pose proof (acts_remove_entities sid (sp_gone sp sid p) sp) as He.
  remember (fold_right (sp_remove_entity sid) sp (sp_gone sp sid p)) as sp1 eqn:E1. clear E1.
  unfold mproj in Hm. injection Hm as H1 _ _ _.
  match goal with |- context [sp_live ?x sid] => rewrite (sp_live_mem x (set_mem (delete c) sp) sid) by (simpl; by rewrite H1) end.
  destruct (sp_live (set_mem (delete c) sp) sid); simpl; [apply He|].
  rewrite filter_lookup_bool, He. simpl.
  destruct (N.eqb_spec s sid) as [->|Hs]; simpl.
  - rewrite (bool_decide_eq_true_2 (sid = sid)) by done. by destruct (if bool_decide _ then _ else _).
  - rewrite !bool_decide_eq_false_2 by (try done; by intros [? _]). by destruct (sp_acts sp !! (s, e, n)).
Qed.

Lemma depart_assets sp c s e :
  sp_assets (depart sp c) !! (s, e) =
  match sp_mem sp !! c with
  | None => sp_assets sp !! (s, e)
  | Some (sid, p) =>
      if sp_live (set_mem (delete c) sp) sid then
        if bool_decide (s = sid ∧ e ∈ sp_gone sp sid p) then None else sp_assets sp !! (s, e)
      else if bool_decide (s = sid) then None else sp_assets sp !! (s, e)
  end.
Proof.
  unfold depart. destruct (sp_mem sp !! c) as [[sid p]|] eqn:E; [|done].
  pose proof (mproj_remove_entities sid (sp_gone sp sid p) sp) as Hm.
  pose proof (assets_remove_entities sid (sp_gone sp sid p) sp) as He.
  remember (fold_right (sp_remove_entity sid) sp (sp_gone sp sid p)) as sp1 eqn:E1. clear E1.
  unfold mproj in Hm. injection Hm as H1 _ _ _.
  match goal with |- context [sp_live ?x sid] => rewrite (sp_live_mem x (set_mem (delete c) sp) sid) by (simpl; by rewrite H1) end.
  destruct (sp_live (set_mem (delete c) sp) sid); simpl; [apply He|].
  rewrite filter_lookup_bool, He. simpl.
  destruct (N.eqb_spec s sid) as [->|Hs]; simpl.
  - rewrite (bool_decide_eq_true_2 (sid = sid)) by done. by destruct (if bool_decide _ then _ else _).
  - rewrite !bool_decide_eq_false_2 by (try done; by intros [? _]). by destruct (sp_assets sp !! (s, e)).
Qed.

(* ================= the model side of a departure ================= *)
(* what the modules drop when (c, p) leaves: everything attached to the leaver's removed entities *)
Lemma left_modules cfg k c p own SS :
  wf cfg k SS → (∀ e, e ∈ own ↔ ∃ ent, s_ents SS !! e = Some ent ∧ e_owner ent = p) →
  let L := left_session cfg c p own SS in
  (∀ e n, s_actions L !! (e, n) = if bool_decide (removed own SS e) then None else s_actions SS !! (e, n)) ∧
  (∀ e, s_assets L !! e = if bool_decide (removed own SS e) then None else s_assets SS !! e).
Proof.
  intros W Hown L. unfold L, left_session. cbv zeta.
  set (S1 := module_disconnect cfg own SS).
  set (S2 := set_store (store_set_subs (fmap (λ s : gset N, s ∖ {[p]}))) S1).
  pose proof (remove_doomed_spec cfg p (doomed S2 own) S2) as (_&_&_&_&_&_&R7&R8&_).
  simpl. rewrite R7, R8.
  set (gone := List.filter (λ eid, negb (keep_entity SS eid)) (elements own)).
  assert (Hg : ∀ e, memN e gone = bool_decide (removed own SS e)).
  { intros e. destruct (memN e gone) eqn:Em; symmetry.
    - apply bool_decide_eq_true. apply memN_elem in Em. unfold gone in Em.
      rewrite elem_of_list_In, filter_In, <- elem_of_list_In, elem_of_elements, negb_true_iff in Em.
      destruct Em as [Ho Hk]. split; [done|]. apply Hown in Ho as (ent&He&_). exists ent. split; [done|].
      unfold keep_entity in Hk. by rewrite He in Hk.
    - apply bool_decide_eq_false. intros [Ho (ent&He&Hp)]. apply memN_false in Em. apply Em. unfold gone.
      rewrite elem_of_list_In, filter_In, <- elem_of_list_In, elem_of_elements, negb_true_iff.
      split; [done|]. unfold keep_entity. by rewrite He. }
  split.
  - intros e n. destruct (cfg_vikja cfg) eqn:Ev.
    + replace (s_actions S2) with (filter (λ kv : N * N * action, negb (memN kv.1.1 gone)) (s_actions SS))
        by (unfold S2, S1, module_disconnect; fold gone; rewrite Ev; by destruct (cfg_odal cfg)).
      rewrite filter_lookup_bool. simpl. rewrite Hg.
      destruct (s_actions SS !! (e, n)); destruct (bool_decide (removed own SS e)); done.
    + replace (s_actions S2) with (s_actions SS)
        by (unfold S2, S1, module_disconnect; rewrite Ev; by destruct (cfg_odal cfg)).
      rewrite (wf_novikja _ _ _ W Ev), lookup_empty. by destruct (bool_decide _).
  - intros e. destruct (cfg_odal cfg) eqn:Eo.
    + replace (s_assets S2) with (filter (λ kv : N * asset, negb (memN kv.1 gone)) (s_assets SS))
        by (unfold S2, S1, module_disconnect; fold gone; rewrite Eo; by destruct (cfg_vikja cfg)).
      rewrite filter_lookup_bool. simpl. rewrite Hg.
      destruct (s_assets SS !! e); destruct (bool_decide (removed own SS e)); done.
    + replace (s_assets S2) with (s_assets SS)
        by (unfold S2, S1, module_disconnect; rewrite Eo; by destruct (cfg_vikja cfg)).
      rewrite (wf_noodal _ _ _ W Eo), lookup_empty. by destruct (bool_decide _).
Qed.

(* the spec's idea of what goes = the model's *)
Lemma gone_removed sp st c cn sid p SS :
  own_inv st → refines_ents sp st → conns st !! c = Some cn → c_cur cn = Some (sid, p) → sessions st !! sid = Some SS →
  ∀ e, e ∈ sp_gone sp sid p ↔ removed (c_own cn) SS e.
Proof.
  intros O E Hc Hcur HS e. pose proof (E sid e) as Ee. unfold ents_at in Ee. rewrite HS in Ee. simpl in Ee.
  rewrite elem_of_sp_gone, Ee. unfold removed. rewrite (O c cn sid p SS Hc Hcur HS e). split.
  - intros (ent&Hent&Ho). destruct (s_ents SS !! e) as [en|]; [|done]. simpl in Hent.
    injection Hent as <- Hpe. simpl in Ho. split; eauto.
  - intros [(en&Hen&Ho) (en'&Hen'&Hpe)]. simplify_eq. exists (ent_to_pb e en).
    rewrite Hen. simpl. unfold ent_abs. by rewrite Hpe.
Qed.


Lemma leave_refines_mod cfg k sp st c :
  inv st → own_inv st → swf cfg k st → refines_mem sp st → refines_ents sp st → refines_mod sp st →
  refines_mod (depart sp c) (leave cfg st c).1.
Proof.
  intros I O Wf R E D. pose proof (inv_leave cfg st c I) as I1. pose proof (leave_next_uuid cfg st c) as Hn.
  destruct (leave_sessions cfg st c I) as [(cn&sid&p&SS&Hc&Hcur&HS&Hp&Es)|[Hnone Es]].
  2:{ rewrite Es. rewrite depart_none; [done|]. by rewrite (rm_mem _ _ R). }
  assert (Hcur0 : cur_of st c = Some (sid, p)) by (unfold cur_of; by rewrite Hc).
  pose proof (lp_cur _ _ _ _ _ (leave_projections cfg st c sid p I Hcur0)) as L1.
  remember (leave cfg st c).1 as st1 eqn:Est1. clear Est1.
  assert (Hm1 : ∀ c', sp_mem (set_mem (delete c) sp) !! c' = cur_of st1 c').
  { intros c'. simpl. rewrite L1. destruct (decide (c' = c)) as [->|Hne];
      [by rewrite lookup_delete|by rewrite lookup_delete_ne, (rm_mem _ _ R)]. }
  pose proof (gone_removed sp st c cn sid p SS O E Hc Hcur HS) as Hgone.
  destruct (left_modules cfg k c p (c_own cn) SS (Wf sid SS HS) (O c cn sid p SS Hc Hcur HS)) as [LA LB].
  destruct (left_fields cfg c p (c_own cn) SS) as (_&_&_&_&_&_&_&_&LE&LG&LU).
  destruct (depart_ids sp c) as [DE DI].
  destruct D as [D1 D2 D3 D4 D5 D6].
  assert (Hlive : sp_live (set_mem (delete c) sp) sid = if decide (s_parts (left_session cfg c p (c_own cn) SS) = ∅) then false else true).
  { case_decide as Hd.
    - apply (live_false _ _ sid I1 Hm1). by rewrite Es, lookup_delete.
    - apply (live_iff _ _ sid I1 Hm1). rewrite Es, lookup_insert. eauto. }
  split.
  - intros s e n. rewrite depart_acts, (rm_mem _ _ R), Hcur0, Hlive. unfold acts_at. rewrite Es.
    case_decide as Hd.
    + case_bool_decide as Hs; [subst; by rewrite lookup_delete|]. rewrite lookup_delete_ne by done. apply D1.
    + destruct (decide (s = sid)) as [->|Hs].
      2:{ rewrite bool_decide_eq_false_2 by (by intros [? _]). rewrite lookup_insert_ne by done. apply D1. }
      rewrite lookup_insert. simpl. rewrite LA.
      assert (Hb : bool_decide (sid = sid ∧ e ∈ sp_gone sp sid p) = bool_decide (removed (c_own cn) SS e)).
      { apply bool_decide_ext. rewrite Hgone. naive_solver. }
      rewrite Hb. destruct (bool_decide (removed (c_own cn) SS e)); [done|].
      rewrite D1. unfold acts_at. by rewrite HS.
  - intros s e. rewrite depart_assets, (rm_mem _ _ R), Hcur0, Hlive. unfold assets_at. rewrite Es.
    case_decide as Hd.
    + case_bool_decide as Hs; [subst; by rewrite lookup_delete|]. rewrite lookup_delete_ne by done. apply D2.
    + destruct (decide (s = sid)) as [->|Hs].
      2:{ rewrite bool_decide_eq_false_2 by (by intros [? _]). rewrite lookup_insert_ne by done. apply D2. }
      rewrite lookup_insert. simpl. rewrite LB.
      assert (Hb : bool_decide (sid = sid ∧ e ∈ sp_gone sp sid p) = bool_decide (removed (c_own cn) SS e)).
      { apply bool_decide_ext. rewrite Hgone. naive_solver. }
      rewrite Hb. destruct (bool_decide (removed (c_own cn) SS e)); [done|].
      rewrite D2. unfold assets_at. by rewrite HS.
  - intros s S'. rewrite DE, Es. case_decide as Hd.
    + intros [_ H]%lookup_delete_Some. by apply (D3 s).
    + intros [[<- <-]|[_ H]]%lookup_insert_Some; [|by apply (D3 s)]. rewrite LE, LU. by apply (D3 sid).
  - intros s S'. rewrite DI, Es. case_decide as Hd.
    + intros [_ H]%lookup_delete_Some. by apply (D4 s).
    + intros [[<- <-]|[_ H]]%lookup_insert_Some; [|by apply (D4 s)]. rewrite LG, LU. by apply (D4 sid).
  - intros u. rewrite DE, Hn. apply D5.
  - intros u. rewrite DI, Hn. apply D6.
Qed.

Lemma disconnect_refines_mod cfg k sp st c :
  inv st → own_inv st → swf cfg k st → refines_mem sp st → refines_ents sp st → refines_mod sp st →
  refines_mod (depart sp c) (disconnect cfg st c).1.
Proof.
  intros I O Wf R E D. unfold disconnect. pose proof (leave_refines_mod cfg k sp st c I O Wf R E D) as D1.
  destruct (leave cfg st c) as [st1 o]. simpl in *.
  eapply refines_mod_same; [done| |exact D1]. apply same_mod_upd_conn.
Qed.

(* ================= join ================= *)
Lemma modp_entered SS c : modp (entered SS c) = modp SS.
Proof. done. Qed.

Lemma join_refines_mod cfg k st c cn rid s ots hint sp :
  inv st → nowrap st → own_inv st → swf cfg k st → refines_mem sp st → refines_ents sp st → refines_mod sp st →
  conns st !! c = Some cn →
  ∀ st' outs v, Model.join cfg st c rid s ots hint = (st', outs, v) →
  refines_mod (match join_resp c outs with
               | Some (_, sid, uuid, pid) => enter_spec (depart sp c) c sid uuid pid
               | None => if has_error c E_NOT_FOUND outs then depart sp c else sp
               end) st'.
Proof.
  intros I W O Wf R E D Hc st' outs v. unfold Model.join. rewrite Hc.
  destruct (already_joined cn s) eqn:Haj.
  - intros [= <- <- <-]. unfold already_joined in Haj.
    destruct (c_cur cn) as [[cur p0]|] eqn:Hcur; [|done]. destruct s as [|n|k0]; try done.
    set (mo := match sessions st !! cur with Some SS => module_join_msgs cfg c SS | None => [] end).
    assert (Hmo : plains mo). { unfold mo. destruct (sessions st !! cur); [apply plains_module_join|constructor]. }
    rewrite join_resp_cons_other by done. rewrite (join_resp_plain _ _ Hmo).
    replace (has_error c E_NOT_FOUND ((c, MError rid E_ALREADY_JOINED) :: mo)) with false; [done|].
    unfold has_error. simpl. rewrite N.eqb_refl. simpl. symmetry. by apply has_error_plain.
  - pose proof (leave_refines_mod cfg k sp st c I O Wf R E D) as D1. pose proof (inv_leave cfg st c I) as I1.
    pose proof (leave_nowrap cfg st c I W) as W1. pose proof (plains_leave cfg st c) as P1.
    destruct (leave cfg st c) as [st1 o1]. simpl in *.
    assert (Hnotfound : ∀ outs, outs = o1 ++ [(c, MError rid E_NOT_FOUND)] →
      join_resp c outs = None ∧ has_error c E_NOT_FOUND outs = true).
    { intros ? ->. split. { rewrite join_resp_app_plain by done. by rewrite join_resp_cons_other. }
      rewrite has_error_app. unfold has_error at 2. simpl. rewrite N.eqb_refl. simpl. apply orb_true_r. }
    destruct s as [|n|k0].
    + destruct (create_session hint st1) as [n st2] eqn:Hcr.
      destruct (create_session_proj _ _ _ _ I1 W1 Hcr) as (Hfresh&_).
      destruct (create_sessions _ _ _ _ Hcr) as [E2 _].
      destruct (c07_created_fresh _ _ _ _ Hcr) as [HS2 Hnu].
      assert (Hn1 : sessions st1 !! n = None). { unfold parts_of in Hfresh. by destruct (sessions st1 !! n). }
      pose proof (enter_sessions cfg st2 c rid n ots _ HS2) as E3.
      pose proof (enter_next_uuid cfg st2 c rid n ots) as EN.
      rewrite (enter_eq cfg st2 c rid n ots _ HS2). cbv zeta. intros [= <- <- <-].
      rewrite join_resp_app_plain by done. unfold join_resp at 1. erewrite first_to_hit by reflexivity.
      remember (enter cfg st2 c rid n ots).1.1 as st3 eqn:Est3. clear Est3.
      destruct D1 as [D1 D2 D3 D4 D5 D6]. split; simpl.
      * intros s e x. rewrite D1. unfold acts_at. rewrite E3, E2. destruct (decide (s = n)) as [->|Hs].
        -- rewrite lookup_insert, Hn1. simpl. by rewrite lookup_empty.
        -- by rewrite !lookup_insert_ne.
      * intros s e. rewrite D2. unfold assets_at. rewrite E3, E2. destruct (decide (s = n)) as [->|Hs].
        -- rewrite lookup_insert, Hn1. simpl. by rewrite lookup_empty.
        -- by rewrite !lookup_insert_ne.
      * intros s S'. rewrite E3, E2. intros [[<- <-]|[Hs H]]%lookup_insert_Some.
        -- simpl. intros e. rewrite D5 by lia. split; [set_solver|lia].
        -- rewrite lookup_insert_ne in H by done. by apply (D3 s).
      * intros s S'. rewrite E3, E2. intros [[<- <-]|[Hs H]]%lookup_insert_Some.
        -- simpl. intros e. rewrite D6 by lia. split; [set_solver|lia].
        -- rewrite lookup_insert_ne in H by done. by apply (D4 s).
      * intros u. rewrite EN, Hnu. intros Hu. apply D5. lia.
      * intros u. rewrite EN, Hnu. intros Hu. apply D6. lia.
    + destruct (sessions st1 !! n) as [SS|] eqn:HS.
      * pose proof (enter_sessions cfg st1 c rid n ots _ HS) as E3.
        pose proof (enter_next_uuid cfg st1 c rid n ots) as EN.
        rewrite (enter_eq cfg st1 c rid n ots SS HS). cbv zeta. intros [= <- <- <-].
        rewrite join_resp_app_plain by done. unfold join_resp at 1. erewrite first_to_hit by reflexivity.
        eapply (refines_mod_same (depart sp c)); [reflexivity| |exact D1]. split; [|done].
        intros s. rewrite E3. destruct (decide (s = n)) as [->|Hs].
        -- by rewrite lookup_insert, HS.
        -- by rewrite lookup_insert_ne.
      * intros [= <- <- <-]. destruct (Hnotfound _ eq_refl) as [-> ->]. exact D1.
    + intros [= <- <- <-]. destruct (Hnotfound _ eq_refl) as [-> ->]. exact D1.
Qed.

(* ================= requests other than join ================= *)
Definition is_mod_req (r : req) : bool :=
  match r with REntityAdd _ _ _ _ _ | REntityDelete _ _ _ | RAction _ _ _ | RAssetAdd _ _ _ _ => true | _ => false end.

Lemma spec_request_mod_other sp c sid p r outs :
  is_mod_req r = false → dproj (spec_request sp c sid p r outs) = dproj sp.
Proof. intros H. destruct r; try discriminate H; simpl; repeat case_match; reflexivity. Qed.

Lemma same_mod_put_upd st sid SS S1 c f :
  sessions st !! sid = Some SS → modp S1 = modp SS → same_mod st (upd_conn c f (put_session st sid S1)).
Proof. intros HS E. apply (same_mod_put st sid SS S1 HS E). Qed.

Lemma on_ping_same_mod st c cn rid : same_mod st (on_ping st c cn rid).1.1.
Proof. apply same_mod_sessions; [apply on_ping_sessions|apply on_ping_next_uuid]. Qed.

Lemma handle_joined_mod_other cfg st c cn sid p SS r hint st' o v :
  is_mod_req r = false → is_join r = false → sessions st !! sid = Some SS →
  handle_joined cfg st c cn sid p SS r hint = (st', o, v) → same_mod st st'.
Proof.
  intros He Hj HS H. destruct r; try discriminate He; try discriminate Hj; simpl in H.
  all: try (unfold send_ping in H; repeat case_match; simplify_eq; try apply same_mod_refl;
            first [by apply (same_mod_put st sid SS)|by apply (same_mod_put_upd st sid SS)|by apply same_mod_sessions]; fail).
  pose proof (on_ping_same_mod st c cn rid) as Hx. by rewrite H in Hx.
Qed.

Lemma refines_mod_update sp sp' st st' sid SS S1 :
  sessions st !! sid = Some SS → sessions st' = <[sid := S1]> (sessions st) → next_uuid st' = next_uuid st →
  reg st → s_uuid S1 = s_uuid SS → refines_mod sp st →
  (∀ s e n, s ≠ sid → sp_acts sp' !! (s, e, n) = sp_acts sp !! (s, e, n)) →
  (∀ e n, sp_acts sp' !! (sid, e, n) = s_actions S1 !! (e, n)) →
  (∀ s e, s ≠ sid → sp_assets sp' !! (s, e) = sp_assets sp !! (s, e)) →
  (∀ e, sp_assets sp' !! (sid, e) = s_assets S1 !! e) →
  (∀ u, u ≠ s_uuid SS → issued (sp_eids sp') u = issued (sp_eids sp) u) →
  (∀ e, e ∈ issued (sp_eids sp') (s_uuid SS) ↔ 1 ≤ e ≤ s_egen S1) →
  (∀ u, u ≠ s_uuid SS → issued (sp_iids sp') u = issued (sp_iids sp) u) →
  (∀ i, i ∈ issued (sp_iids sp') (s_uuid SS) ↔ 1 ≤ i ≤ s_agen S1) →
  refines_mod sp' st'.
Proof.
  intros HS Es En G Hu [D1 D2 D3 D4 D5 D6] A1 A2 B1 B2 E1 E2 F1 F2.
  assert (Hother : ∀ s S', s ≠ sid → sessions st !! s = Some S' → s_uuid S' ≠ s_uuid SS).
  { intros s S' Hs HS' Heq. apply Hs. by apply (reg_uuid_inj _ G s sid S' SS). }
  destruct (reg_uuid_le _ G sid SS HS) as [_ Hle].
  split.
  - intros s e n. unfold acts_at. rewrite Es. destruct (decide (s = sid)) as [->|Hs].
    + rewrite lookup_insert. simpl. apply A2.
    + rewrite lookup_insert_ne by done. rewrite A1 by done. apply D1.
  - intros s e. unfold assets_at. rewrite Es. destruct (decide (s = sid)) as [->|Hs].
    + rewrite lookup_insert. simpl. apply B2.
    + rewrite lookup_insert_ne by done. rewrite B1 by done. apply D2.
  - intros s S'. rewrite Es. intros [[<- <-]|[Hs H]]%lookup_insert_Some.
    + rewrite Hu. apply E2.
    + rewrite E1 by (by eapply Hother). by apply (D3 s).
  - intros s S'. rewrite Es. intros [[<- <-]|[Hs H]]%lookup_insert_Some.
    + rewrite Hu. apply F2.
    + rewrite F1 by (by eapply Hother). by apply (D4 s).
  - intros u. rewrite En. intros Hlt. rewrite E1 by lia. by apply D5.
  - intros u. rewrite En. intros Hlt. rewrite F1 by lia. by apply D6.
Qed.

Lemma pair3_ne_l (a a' b b' c c' : N) : a ≠ a' → (a, b, c) ≠ (a', b', c').
Proof. congruence. Qed.

Lemma handle_joined_mod_req cfg k st c cn sid p SS r hint st' o v sp :
  is_mod_req r = true → sessions st !! sid = Some SS → wf cfg k SS → k + 1 < two32 → reg st →
  uuid_of sp sid = s_uuid SS → refines_mod sp st →
  handle_joined cfg st c cn sid p SS r hint = (st', o, v) →
  refines_mod (spec_request sp c sid p r o) st'.
Proof.
  intros Hr HS W Hk G Hu D H.
  assert (Ea : ∀ e n, sp_acts sp !! (sid, e, n) = s_actions SS !! (e, n)).
  { intros e n. rewrite (rd_acts _ _ D). unfold acts_at. by rewrite HS. }
  assert (Eb : ∀ e, sp_assets sp !! (sid, e) = s_assets SS !! e).
  { intros e. rewrite (rd_assets _ _ D). unfold assets_at. by rewrite HS. }
  pose proof (rd_eids _ _ D sid SS HS) as Ee. pose proof (rd_iids _ _ D sid SS HS) as Ei.
  destruct (wf_cnt _ _ _ W) as (_&Hge&Hga&_).
  destruct r; try discriminate Hr; simpl in H.
  - (* entity add: the id is issued *)
    injection H as <- <- <-. unfold spec_request. erewrite first_to_hit by (by rewrite N.eqb_refl).
    eapply (refines_mod_update sp _ st _ sid SS); [exact HS|reflexivity|reflexivity|exact G| |exact D|..]; simpl; try done.
    + intros u Hne. rewrite Hu, issued_issue. by rewrite decide_False.
    + intros e. rewrite Hu, issued_issue, decide_True by done. rewrite elem_of_union, elem_of_singleton, Ee.
      rewrite u32_succ_small by lia. lia.
  - (* entity delete *)
    destruct (s_ents SS !! eid) as [ent|] eqn:Hent.
    + destruct (negb (e_owner ent =? p)) eqn:Ho.
      * injection H as <- <- <-. unfold spec_request, has_msg. simpl. rewrite andb_false_r. exact D.
      * injection H as <- <- <-. unfold spec_request, has_msg. cbn [existsb fst snd]. rewrite !N.eqb_refl. simpl.
        set (S1 := set_ents (delete eid) (set_store (store_delete_entity eid) SS)).
        assert (He1 : s_ents S1 !! eid = None) by (simpl; by rewrite lookup_delete).
        eapply (refines_mod_update sp _ st _ sid SS); [exact HS|reflexivity|reflexivity|exact G| |exact D|..].
        -- unfold cleanup_modules. rewrite He1. by destruct (cfg_vikja cfg), (cfg_odal cfg).
        -- intros s e n Hs.
           change (sp_acts (sp_remove_entity sid eid sp)) with
             (filter (λ kv : (N*N*N) * action, negb ((fst (fst (fst kv)) =? sid) && (snd (fst (fst kv)) =? eid))) (sp_acts sp)).
           rewrite filter_lookup_bool. simpl. rewrite (proj2 (N.eqb_neq s sid)) by done. simpl.
           by destruct (sp_acts sp !! (s, e, n)).
        -- intros e n.
           change (sp_acts (sp_remove_entity sid eid sp)) with
             (filter (λ kv : (N*N*N) * action, negb ((fst (fst (fst kv)) =? sid) && (snd (fst (fst kv)) =? eid))) (sp_acts sp)).
           rewrite filter_lookup_bool. simpl. rewrite N.eqb_refl, Ea. simpl.
           unfold cleanup_modules. rewrite He1. destruct (cfg_vikja cfg) eqn:Ev.
           ++ replace (s_actions (if cfg_odal cfg then _ else _)) with
                (filter (λ kv : N * N * action, kv.1.1 ≠ eid) (s_actions SS)) by (by destruct (cfg_odal cfg)).
              rewrite filter_lookup_prop. simpl. destruct (s_actions SS !! (e, n)) as [a|]; [|done].
              destruct (N.eqb_spec e eid) as [->|Hne]; simpl; [by rewrite decide_False by (by intros ?)|by rewrite decide_True].
           ++ replace (s_actions (if cfg_odal cfg then _ else _)) with (s_actions SS) by (by destruct (cfg_odal cfg)).
              rewrite (wf_novikja _ _ _ W Ev), lookup_empty. done.
        -- intros s e Hs. change (sp_assets (sp_remove_entity sid eid sp)) with (delete (sid, eid) (sp_assets sp)).
           by rewrite lookup_delete_ne by (by apply pair_ne_l; congruence).
        -- intros e. change (sp_assets (sp_remove_entity sid eid sp)) with (delete (sid, eid) (sp_assets sp)).
           unfold cleanup_modules. rewrite He1. destruct (cfg_odal cfg) eqn:Eo.
           ++ replace (s_assets (set_assets (delete eid) _)) with (delete eid (s_assets SS)) by (by destruct (cfg_vikja cfg)).
              destruct (decide (e = eid)) as [->|Hne]; [by rewrite !lookup_delete|].
              rewrite lookup_delete_ne by (by apply pair_ne_r). rewrite lookup_delete_ne by done. apply Eb.
           ++ replace (s_assets (if cfg_vikja cfg then _ else _)) with (s_assets SS) by (by destruct (cfg_vikja cfg)).
              rewrite (wf_noodal _ _ _ W Eo), lookup_empty.
              destruct (decide (e = eid)) as [->|Hne]; [by rewrite lookup_delete|].
              rewrite lookup_delete_ne by (by apply pair_ne_r). rewrite Eb, (wf_noodal _ _ _ W Eo). by rewrite lookup_empty.
        -- done.
        -- intros e. replace (s_egen (cleanup_modules cfg eid S1)) with (s_egen SS); [exact (Ee e)|].
           unfold cleanup_modules. rewrite He1. by destruct (cfg_vikja cfg), (cfg_odal cfg).
        -- done.
        -- intros i. replace (s_agen (cleanup_modules cfg eid S1)) with (s_agen SS); [exact (Ei i)|].
           unfold cleanup_modules. rewrite He1. by destruct (cfg_vikja cfg), (cfg_odal cfg).
    + (* refused: the modules' cleanup finds nothing (everything stored is attached to an existing entity) *)
      injection H as <- <- <-. unfold spec_request, has_msg. simpl. rewrite andb_false_r.
      eapply refines_mod_same; [reflexivity| |exact D]. apply (same_mod_put st sid SS _ HS).
      unfold cleanup_modules. rewrite Hent.
      assert (HA : filter (λ kv : N * N * action, kv.1.1 ≠ eid) (s_actions SS) = s_actions SS).
      { apply map_eq. intros [e n]. rewrite filter_lookup_prop. destruct (s_actions SS !! (e, n)) as [a|] eqn:Ha; [|done].
        simpl. rewrite decide_True; [done|]. intros ->. destruct (wf_acts _ _ _ W _ _ _ Ha) as (_&_&_&_&[x Hx]). congruence. }
      assert (HB : delete eid (s_assets SS) = s_assets SS).
      { apply delete_notin. destruct (s_assets SS !! eid) as [a|] eqn:Ha; [|done].
        destruct (wf_assets _ _ _ W _ _ Ha) as (_&_&x&Hx&_). congruence. }
      unfold modp. destruct (cfg_vikja cfg), (cfg_odal cfg); simpl; rewrite ?HA, ?HB; done.
  - (* action *)
    destruct (cfg_vikja cfg) eqn:Ev; simpl in H.
    2:{ injection H as <- <- <-. destruct a; exact D. }
    destruct a as [a|]; [|injection H as <- <- <-; exact D].
    assert (Hrefuse : ∀ rid', spec_request sp c sid p (RAction rid (Some a) ots) [(c, MError rid' E_BAD_REQUEST)] = sp).
    { intros rid'. unfold spec_request, has_msg. simpl. by rewrite andb_false_r. }
    destruct ((a_name a =? 0) || negb (is_Some_b (a_ts a))); [injection H as <- <- <-; rewrite Hrefuse; exact D|].
    destruct (s_ents SS !! a_eid a) as [ent|]; [|injection H as <- <- <-; rewrite Hrefuse; exact D].
    destruct (match s_actions SS !! (a_eid a, a_name a) with Some o0 => ts_before (a_ts a) (a_ts o0) | None => false end);
      [injection H as <- <- <-; rewrite Hrefuse; exact D|].
    injection H as <- <- <-. unfold spec_request, has_msg. cbn [existsb fst snd]. rewrite !N.eqb_refl. simpl.
    eapply (refines_mod_update sp _ st _ sid SS); [exact HS|reflexivity|reflexivity|exact G| |exact D|..]; simpl; try done.
    + intros s e n Hs. by rewrite lookup_insert_ne by (by apply pair3_ne_l; congruence).
    + intros e n. destruct (decide ((e, n) = (a_eid a, a_name a))) as [[= -> ->]|Hne].
      * by rewrite !lookup_insert.
      * rewrite !lookup_insert_ne by congruence. apply Ea.
  - (* asset add *)
    destruct (cfg_odal cfg) eqn:Eo; simpl in H.
    2:{ injection H as <- <- <-. exact D. }
    assert (Hrefuse : ∀ rid' k', spec_request sp c sid p (RAssetAdd rid eid asset ots) [(c, MError rid' k')] = sp).
    { intros rid' k'. unfold spec_request, first_to. simpl. by rewrite N.eqb_refl. }
    destruct (asset =? 0); [injection H as <- <- <-; rewrite Hrefuse; exact D|].
    destruct (s_ents SS !! eid) as [ent|]; [|injection H as <- <- <-; rewrite Hrefuse; exact D].
    destruct (negb (e_owner ent =? p)); [injection H as <- <- <-; rewrite Hrefuse; exact D|].
    injection H as <- <- <-. unfold spec_request. erewrite first_to_hit by (by rewrite N.eqb_refl).
    eapply (refines_mod_update sp _ st _ sid SS); [exact HS|reflexivity|reflexivity|exact G| |exact D|..]; simpl; try done.
    + intros s e Hs. by rewrite lookup_insert_ne by (by apply pair_ne_l; congruence).
    + intros e. destruct (decide (e = eid)) as [->|Hne].
      * by rewrite !lookup_insert.
      * rewrite lookup_insert_ne by (by apply pair_ne_r). rewrite lookup_insert_ne by done. apply Eb.
    + intros u Hne. rewrite Hu, issued_issue. by rewrite decide_False.
    + intros i. rewrite Hu, issued_issue, decide_True by done. rewrite elem_of_union, elem_of_singleton, Ei.
      rewrite u32_succ_small by lia. lia.
Qed.

(* ================= one step of the model ================= *)
Lemma swf_sessions cfg k st st' : sessions st' = sessions st → swf cfg k st → swf cfg k st'.
Proof. unfold swf. by intros ->. Qed.

Lemma uuid_of_refines sp st sid SS : refines_mem sp st → sessions st !! sid = Some SS → uuid_of sp sid = s_uuid SS.
Proof. intros R HS. unfold uuid_of. rewrite (rm_uuid _ _ R sid). unfold uuid_at. by rewrite HS. Qed.

Lemma step_sim_mod cfg st o kb k sp :
  inv st → bounded kb st → kb + 1 < two32 → swf cfg k st → k + 1 < two32 → reg st → own_inv st →
  refines_mem sp st → refines_ents sp st → refines_mod sp st →
  refines_mod (spec_step sp (ev_of st o (step cfg st o))) (step cfg st o).1.1.
Proof.
  intros I B Hkb Wf Hk G O R E D. pose proof (bounded_nowrap _ _ B Hkb) as W.
  destruct o as [c|c r|c hint|sid|c|]; unfold ev_of; cbn [step consumed].
  - (* connect *)
    destruct (conns st !! c) as [cn|] eqn:Hc; [by rewrite spec_step_skip|].
    eapply (refines_mod_same sp); [reflexivity| |exact D]. by apply same_mod_sessions.
  - (* send *)
    unfold dispatch. destruct (conns st !! c) as [cn|] eqn:Hc; [|by rewrite spec_step_skip].
    destruct (c_open cn) eqn:Ho; [|by rewrite spec_step_skip]. cbn [negb].
    assert (Hq : ∀ st', sessions st' = sessions st → next_uuid st' = next_uuid st →
      refines_mod (spec_step sp {| ev_op := OSend c r; ev_req := None; ev_outs := []; ev_verdict := VOk |}) st').
    { intros st' H1 H2. eapply (refines_mod_same sp); [reflexivity| |exact D]. by apply same_mod_sessions. }
    destruct r; try (by apply Hq).
    cbn match. destruct (ty =? 14); [|by apply Hq].
    pose proof (disconnect_refines_mod cfg k sp st c I O Wf R E D) as D1.
    destruct (disconnect cfg st c) as [st1 o1]. exact D1.
  - (* step *)
    destruct (conns st !! c) as [cn|] eqn:Hc; [|by rewrite spec_step_skip].
    destruct (c_open cn) eqn:Ho; [|by rewrite spec_step_skip]. cbn [negb].
    destruct (c_queue cn) as [|r q] eqn:Hq; [by rewrite spec_step_skip|]. cbn [head].
    set (st0 := upd_conn c (set_queue q) st).
    assert (Hs0 : same_mem st st0) by (apply same_mem_upd_conn; by intros []).
    assert (I0 : inv st0) by by eapply inv_same_mem.
    assert (B0 : bounded kb st0) by by eapply bounded_same_mem.
    assert (W0 : nowrap st0) by by eapply bounded_nowrap.
    assert (G0 : reg st0) by (eapply reg_same_reg; [|exact G]; done).
    assert (Wf0 : swf cfg k st0) by exact Wf.
    assert (R0 : refines_mem sp st0) by (eapply refines_same; [apply same_all_upd_conn; by intros []|exact R]).
    assert (E0 : refines_ents sp st0) by exact E.
    assert (D0 : refines_mod sp st0) by (eapply (refines_mod_same sp); [reflexivity| |exact D]; by apply same_mod_sessions).
    assert (O0 : own_inv st0).
    { eapply own_inv_ext; [| |exact O]; [done|]. intros c'. apply mem_of_upd_conn; by intros []. }
    assert (Hc0 : conns st0 !! c = Some (set_queue q cn)).
    { unfold st0, upd_conn. simpl. rewrite Hc. by rewrite lookup_insert. }
    assert (Ho0 : open_of st0 c = Some true) by (unfold open_of; rewrite Hc0; simpl; by rewrite Ho).
    destruct (is_join r) eqn:Hj.
    + destruct r; try discriminate Hj.
      assert (Hh : handle cfg st0 c (RJoin rid sid ots) hint = Model.join cfg st0 c rid sid ots hint).
      { unfold handle. rewrite Hc0. destruct (c_cur (set_queue q cn)) as [[s p]|] eqn:Hcur; [|done].
        assert (Hcur0 : cur_of st0 c = Some (s, p)) by (unfold cur_of; by rewrite Hc0).
        destruct (live_session _ _ (inv_live _ I0 _ _ _ Hcur0)) as [SS HS]. by rewrite HS. }
      rewrite Hh. destruct (Model.join cfg st0 c rid sid ots hint) as [[st1 o1] v] eqn:Ej.
      pose proof (join_verdict cfg st0 c _ rid sid ots hint Hc0) as Hv. rewrite Ej in Hv. simpl in Hv. subst v.
      cbn [fst snd]. rewrite spec_step_join.
      exact (join_refines_mod cfg k st0 c _ rid sid ots hint sp I0 W0 O0 Wf0 R0 E0 D0 Hc0 _ _ _ Ej).
    + destruct (handle cfg st0 c r hint) as [[st1 o1] v] eqn:Eh.
      destruct (handle_nonjoin cfg st0 c _ r hint _ _ _ I0 Hc0 Hj Eh) as (S1&N1&V1&V2).
      assert (R1 : refines_mem sp st1) by (by eapply refines_same).
      assert (I1 : inv st1).
      { pose proof (handle_inv cfg st0 c r hint kb I0 B0 Hkb Ho0) as [I1 _]. by rewrite Eh in I1. }
      destruct v; try done.
      * (* answered *)
        cbn [fst snd]. unfold spec_step. cbn [ev_op ev_verdict ev_req ev_outs].
        assert (Hgen : refines_mod (match sp_mem sp !! c with
                                    | Some (s, p) => spec_request sp c s p r o1 | None => sp end) st1).
        { rewrite (rm_mem _ _ R0). unfold cur_of. rewrite Hc0. simpl.
          unfold handle in Eh. rewrite Hc0 in Eh. change (c_cur (set_queue q cn)) with (c_cur cn) in Eh.
          destruct (c_cur cn) as [[s p]|] eqn:Hcur.
          - assert (Hcur0 : cur_of st0 c = Some (s, p)) by (unfold cur_of; rewrite Hc0; exact Hcur).
            destruct (live_session _ _ (inv_live _ I0 _ _ _ Hcur0)) as [SS HS]. rewrite HS in Eh.
            destruct (is_mod_req r) eqn:Her.
            + eapply (handle_joined_mod_req cfg k); try done; [exact (Wf0 s SS HS)|exact (uuid_of_refines sp st0 s SS R0 HS)].
            + eapply refines_mod_same; [by apply spec_request_mod_other| |exact D0].
              by eapply handle_joined_mod_other.
          - eapply refines_mod_same; [reflexivity| |exact D0]. destruct S1 as (_&_&_&_&Hnu).
            apply same_mod_sessions; [|done].
            pose proof (handle_unjoined_other cfg st0 c (set_queue q cn) r hint Hj) as Hx. by rewrite Eh in Hx. }
        destruct r; try exact Hgen. discriminate Hj.
      * (* handler error *)
        destruct (handle_err_same cfg st0 c r hint _ _ Hj Eh) as [Hs1 Hc1].
        assert (E1 : refines_ents sp st1) by (eapply refines_ents_same; [reflexivity|by apply ents_at_sessions|exact E0]).
        assert (D1 : refines_mod sp st1).
        { eapply refines_mod_same; [reflexivity| |exact D0]. destruct S1 as (_&_&_&_&Hnu). by apply same_mod_sessions. }
        assert (O1 : own_inv st1) by (by eapply own_inv_conns).
        assert (Wf1 : swf cfg k st1) by (by eapply swf_sessions).
        pose proof (disconnect_refines_mod cfg k sp st1 c I1 O1 Wf1 R1 E1 D1) as D2.
        destruct (disconnect cfg st1 c) as [st2 o2]. exact D2.
  - (* tick *)
    cbn [fst snd]. eapply refines_mod_same; [reflexivity| |exact D].
    apply same_mod_sessions; [apply tick_sessions|apply tick_next_uuid].
  - (* disconnect *)
    assert (Hnone : cur_of st c = None →
      refines_mod (spec_step sp {| ev_op := ODisconnect c; ev_req := None; ev_outs := []; ev_verdict := VSkip |}) st).
    { intros Hcur. unfold spec_step. cbn [ev_op]. rewrite depart_none; [done|]. by rewrite (rm_mem _ _ R). }
    destruct (conns st !! c) as [cn|] eqn:Hc; [|apply Hnone; unfold cur_of; by rewrite Hc].
    destruct (c_open cn) eqn:Ho; cbn [negb].
    2:{ apply Hnone. apply (inv_open _ I). unfold open_of. rewrite Hc. simpl. by rewrite Ho. }
    pose proof (disconnect_refines_mod cfg k sp st c I O Wf R E D) as D1.
    destruct (disconnect cfg st c) as [st1 o1]. exact D1.
  - (* snapshot *)
    exact D.
Qed.

(* ================= every history ================= *)
(* Deliverable 1: after every history the module tables and the issued-id sets of the trace-determined spec are
   the abstraction of the model state *)
Theorem refinement_mod cfg h : short h → refines_mod (spec_after (run cfg h)) (final cfg h).
Proof.
  induction h as [|o h IH] using rev_ind; intros Hs; [apply refines_mod_state0|].
  apply short_snoc in Hs as [Hs Hb]. rewrite spec_after_snoc, final_snoc.
  destruct (reachable_inv cfg h state0 0 inv_state0 bounded_state0) as [I B]; [unfold short in Hs; lia|].
  assert (Hlen : N.of_nat (length h) < two32) by (unfold short in Hs; lia).
  destruct (reachable_reg cfg h Hlen) as [G _].
  apply (step_sim_mod cfg (final cfg h) o (0 + N.of_nat (length h)) (4 * N.of_nat (length h))); try done.
  - lia.
  - intros sid SS. by apply reachable_wf.
  - lia.
  - by apply reachable_own.
  - by apply refinement_mem.
  - by apply refinement_ents.
  - by apply IH.
Qed.

(* the four invariants every consumer needs, together *)
Record good (cfg : config) (k : N) (sp : spec) (st : state) : Prop := {
  g_inv : inv st; g_reg : reg st; g_own : own_inv st; g_wf : swf cfg k st;
  g_mem : refines_mem sp st; g_ents : refines_ents sp st; g_mod : refines_mod sp st
}.
Lemma reachable_good cfg h : short h → good cfg (4 * N.of_nat (length h)) (spec_after (run cfg h)) (final cfg h).
Proof.
  intros Hs. assert (Hlen : N.of_nat (length h) < two32) by (unfold short in Hs; lia).
  destruct (reachable_reg cfg h Hlen) as [G I]. split; try done.
  - by apply reachable_own.
  - intros sid SS. by apply reachable_wf.
  - by apply refinement_mem.
  - by apply refinement_ents.
  - by apply refinement_mod.
Qed.

(* proofs/Purge4.v — noninterference experiment of C03 (Purge.v), part 4: one request consumed by a connection
   of the group ([handle]), a connection ending ([disconnect]) and a frame ([tick]), executed in both runs
   from related states. *)
From stdpp Require Import relations sorting.
From hagall Require Import Model Spec Obs Preds Purge.
From hagall.proofs Require Import BaseLemmas Relay Inv Session Local Trans WF Mono Reach PC03 PC06 PC07
  Refine Refine2 Refine3 Refine5 RefSched RefSched2 Purge1 Purge2 Purge3.
From Coq Require Import Lia.

(* ================= requests that read nothing of the state ================= *)
Definition hu_res (cfg : config) (c : N) (r : req) : list delivery * verdict :=
  let res := handle_unjoined cfg state0 c conn0 r 0 in (res.1.2, res.2).
Lemma handle_unjoined_pure cfg st c cn r hint :
  is_join r = false → global_req r = false →
  handle_unjoined cfg st c cn r hint = (st, (hu_res cfg c r).1, (hu_res cfg c r).2).
Proof.
  intros Hj Hg. unfold hu_res. destruct r; try discriminate Hj; try discriminate Hg; simpl.
  all: repeat case_match; reflexivity.
Qed.
Lemma hu_res_njrs cfg c r : is_join r = false → njrs (hu_res cfg c r).1.
Proof.
  intros Hj. unfold hu_res. destruct r; try discriminate Hj; simpl.
  all: repeat case_match; simpl; repeat constructor.
Qed.

Definition hj_res (cfg : config) (c : N) (r : req) : list delivery * verdict :=
  let res := handle_joined cfg state0 c conn0 0 0 (session0 0) r 0 in (res.1.2, res.2).
Lemma handle_joined_pure cfg st c cn sid p SS r hint :
  is_join r = false → global_req r = false → session_local r = false →
  handle_joined cfg st c cn sid p SS r hint = (st, (hj_res cfg c r).1, (hj_res cfg c r).2).
Proof.
  intros Hj Hg Hl. unfold hj_res. destruct r; try discriminate Hj; try discriminate Hg; try discriminate Hl; simpl.
  all: repeat case_match; reflexivity.
Qed.
Lemma hj_res_njrs cfg c r :
  is_join r = false → global_req r = false → session_local r = false → njrs (hj_res cfg c r).1.
Proof.
  intros Hj Hg Hl. unfold hj_res. destruct r; try discriminate Hj; try discriminate Hg; try discriminate Hl; simpl.
  all: repeat case_match; simpl; repeat constructor.
Qed.

Ltac nj := repeat first
  [ apply Forall_nil_2
  | apply Forall_cons_2; [reflexivity|]
  | apply njrs_app
  | apply njrs_broadcast; reflexivity
  | apply njrs_broadcast_to; reflexivity ].

Lemma sstep_njrs cfg c p own SS r : njrs (sstep cfg c p own SS r).2.
Proof.
  destruct r; simpl; try (by constructor).
  all: repeat case_match; simpl; unfold njrs; nj.
Qed.

Lemma handle_join_eq cfg st c rid s ots hint :
  inv st → is_Some (conns st !! c) →
  handle cfg st c (RJoin rid s ots) hint = Model.join cfg st c rid s ots hint.
Proof.
  intros I [cn Hc]. unfold handle. rewrite Hc. destruct (c_cur cn) as [[sid p]|] eqn:Hcur; [|done].
  assert (Hcur0 : cur_of st c = Some (sid, p)) by (unfold cur_of; by rewrite Hc).
  destruct (inv_cur_session _ _ _ _ I Hcur0) as (SS&HS&_). by rewrite HS.
Qed.

Lemma qrel_nonjoin r1 r2 : qrel r1 r2 → is_join r1 = false → r2 = r1.
Proof. intros [->|(rid&n&n'&ots&->&->)]; [done|done]. Qed.
Lemma qrel_join r1 r2 rid sd1 ots :
  qrel r1 r2 → r1 = RJoin rid sd1 ots → ∃ sd2, r2 = RJoin rid sd2 ots.
Proof. intros [->|(rid'&n&n'&ots'&->&->)]; [eauto|]. intros [= -> <- ->]. eauto. Qed.

(* ================= one request ================= *)
Lemma handle_sim cfg A uu st1 st2 c r1 r2 hint :
  sim A st1 st2 → uuc A uu st1 st2 → uub uu st1 st2 → inv st1 → inv st2 → nowrap st1 → nowrap st2 →
  grp A c = true → is_Some (conns st1 !! c) → qrel r1 r2 → global_req r1 = false →
  (∀ rid sd1 sd2 ots, r1 = RJoin rid sd1 ots → r2 = RJoin rid sd2 ots → sidrel A st1 st2 sd1 sd2) →
  let h1 := handle cfg st1 c r1 hint in
  let h2 := handle cfg st2 c r2 hint in
  h1.2 = h2.2 ∧ step_ok A uu h1.1.1 h2.1.1 h1.1.2 h2.1.2 ∧ (h1.2 = VErr → orl false 0 0 h1.1.2 h2.1.2).
Proof.
  intros S U B I1 I2 W1 W2 Hc Hc1' Hq Hg Hsd h1 h2.
  pose proof Hc1' as [cn1 Hc1].
  pose proof (sim_conn _ _ _ S c Hc) as X. rewrite Hc1 in X.
  inversion X as [? cn2 CR Hx Hc2|]; subst. symmetry in Hc2. clear X.
  destruct (is_join r1) eqn:Hj.
  { destruct r1 as [| | |rid sd1 ots| | | | | | | | | | | | | | | | | | | |]; try discriminate Hj.
    destruct (qrel_join _ _ rid sd1 ots Hq eq_refl) as [sd2 ->].
    unfold h1, h2. rewrite !handle_join_eq by eauto.
    destruct (join_sim cfg A uu st1 st2 c rid sd1 sd2 ots hint S U B I1 I2 W1 W2 Hc Hc1' ltac:(by eapply Hsd)) as [Q1 Q2].
    split; [done|]. split; [done|]. by rewrite (join_verdict cfg st1 c cn1 rid sd1 ots hint Hc1). }
  pose proof (qrel_nonjoin _ _ Hq Hj) as ->. rename r1 into r.
  pose proof (cur_of_conn _ _ _ Hc1) as K1. pose proof (cur_of_conn _ _ _ Hc2) as K2.
  unfold h1, h2, handle. rewrite Hc1, Hc2.
  destruct (c_cur cn1) as [[s1 p]|] eqn:C1.
  2:{ rewrite <- K2, (sim_cur_None _ _ _ c S Hc K1).
      rewrite !handle_unjoined_pure by done. cbn [fst snd]. split; [done|].
      split; [apply step_ok_plain; [done|done|by apply hu_res_njrs]|]. intros _. by apply orl_refl, hu_res_njrs. }
  destruct (sim_cur_Some _ _ _ c s1 p S Hc K1) as [s2 K2']. rewrite K2' in K2. rewrite <- K2.
  destruct (sim_sess _ _ _ S c s1 p s2 p Hc K1 K2') as (S1&S2&E1&E2&R). rewrite E1, E2.
  destruct (session_local r) eqn:Hl.
  2:{ rewrite !handle_joined_pure by done. cbn [fst snd]. split; [done|].
      split; [apply step_ok_plain; [done|done|by apply hj_res_njrs]|]. intros _. by apply orl_refl, hj_res_njrs. }
  rewrite !handle_joined_sstep by done. unfold apply_sstep. cbn [fst snd]. split; [done|].
  rewrite <- (cr_own _ _ CR).
  assert (∃ u2, S2 = set_uuid u2 S1) as [u2 ->] by (by exists (s_uuid S2)).
  rewrite !sstep_set_uuid. cbn [fst snd].
  set (res := sstep cfg c p (c_own cn1) S1 r).
  destruct (sim_put_session A uu st1 st2 c s1 p s2 p S1 (set_uuid u2 S1) res.1.1 (set_uuid u2 res.1.1) S U Hc K1 K2' E1 E2)
    as [SP UP]; [apply srel_set_uuid|apply sstep_uuid|done|].
  destruct (sim_upd_conn A uu _ _ c (set_own (λ _, res.1.2)) (set_own (λ _, res.1.2)) SP UP Hc) as [SU UU].
  - intros a b _ _ [H1 H2 H3 H4 H5 H6 H7 H8]. split; simpl; done.
  - done.
  - done.
  - split; [apply step_ok_plain; [done|done|apply sstep_njrs]|]. intros _. apply orl_refl, sstep_njrs.
Qed.

(* ================= a connection ends ================= *)
Lemma disconnect_eq cfg st c :
  disconnect cfg st c =
  (upd_conn c (λ cn, set_queue [] (set_open false cn)) (leave cfg st c).1, (leave cfg st c).2).
Proof. unfold disconnect. by destruct (leave cfg st c). Qed.

Lemma disconnect_sim cfg A uu st1 st2 c :
  sim A st1 st2 → uuc A uu st1 st2 → inv st1 → inv st2 → grp A c = true →
  sim A (disconnect cfg st1 c).1 (disconnect cfg st2 c).1 ∧ uuc A uu (disconnect cfg st1 c).1 (disconnect cfg st2 c).1 ∧
  (disconnect cfg st1 c).2 = (disconnect cfg st2 c).2 ∧ njrs (disconnect cfg st1 c).2.
Proof.
  intros S U I1 I2 Hc. rewrite !disconnect_eq. cbn [fst snd].
  destruct (leave_sim cfg A uu st1 st2 c S U I1 I2 Hc) as (SL&UL&EO). rewrite <- EO.
  destruct (sim_upd_conn A uu _ _ c (λ cn, set_queue [] (set_open false cn)) (λ cn, set_queue [] (set_open false cn)) SL UL Hc)
    as [SU UU].
  - intros a b _ _ [H1 H2 H3 H4 H5 H6 H7 H8]. split; simpl; try done; constructor.
  - done.
  - done.
  - split; [done|]. split; [done|]. split; [done|]. apply plains_njr, plains_leave.
Qed.

(* ================= a frame ================= *)
Lemma crel_flush cn1 cn2 : crel cn1 cn2 → crel (flush cn1) (flush cn2).
Proof.
  intros [H1 H2 H3 H4 H5 H6 H7 H8]. split; simpl; try done.
  rewrite H5, H6. apply Forall2_app; [done|]. apply Forall2_qrel_refl.
Qed.

Lemma tick_cur st s d : cur_of (tick st s) d = cur_of st d.
Proof.
  destruct (sessions st !! s) as [SS|] eqn:E; [|by rewrite tick_conns_none].
  unfold cur_of. rewrite (tick_conns st s SS d E). destruct (conns st !! d) as [cn|]; simpl; [|done].
  by case_decide.
Qed.

Lemma tick_sim A uu st1 st2 c0 s p s' p' :
  sim A st1 st2 → uuc A uu st1 st2 → grp A c0 = true →
  cur_of st1 c0 = Some (s, p) → cur_of st2 c0 = Some (s', p') →
  sim A (tick st1 s) (tick st2 s') ∧ uuc A uu (tick st1 s) (tick st2 s').
Proof.
  intros S U Hc C1 C2. destruct (sim_sess _ _ _ S c0 s p s' p' Hc C1 C2) as (S1&S2&E1&E2&R).
  apply (sim_frame A uu st1 st2); try done.
  - intros d _. apply tick_cur.
  - intros d _. apply tick_cur.
  - intros d Hd. rewrite (tick_conns st1 s S1 d E1), (tick_conns st2 s' S2 d E2), (srel_frames _ _ R).
    pose proof (sim_conn _ _ _ S d Hd) as X. destruct X as [cn1 cn2 X|]; simpl; constructor.
    case_decide; [by apply crel_flush|done].
  - intros d Hd. rewrite (tick_conns st2 s' S2 d E2), (sim_only _ _ _ S d Hd). done.
  - intros d t q t' q' T1 T2 _ _ _ F1 F2 RT. rewrite !tick_sessions. eauto 10.
Qed.

(* proofs/WF.v — the well-formedness invariant of one session record, preserved by every
   per-session transition, hence true of every session of every reachable state. *)
From stdpp Require Import relations.
From hagall Require Import Model.
From hagall.proofs Require Import BaseLemmas Relay Inv Session Trans.
From Coq Require Import Lia.

Record wf (cfg : config) (k : N) (SS : session) : Prop := {
  wf_cnt : s_pgen SS ≤ k ∧ s_egen SS ≤ k ∧ s_agen SS ≤ k ∧ st_gen (s_store SS) ≤ k;
  wf_parts : ∀ p c, s_parts SS !! p = Some c → 1 ≤ p ≤ s_pgen SS;
  wf_ents : ∀ e ent, s_ents SS !! e = Some ent → 1 ≤ e ≤ s_egen SS ∧ 1 ≤ e_owner ent ≤ s_pgen SS;
  wf_comps : ∀ t e d, st_comps (s_store SS) !! (t, e) = Some d →
      is_Some (s_ents SS !! e) ∧ is_Some (st_names (s_store SS) !! t);
  wf_types : ∀ t n, st_names (s_store SS) !! t = Some n ↔ st_ids (s_store SS) !! n = Some t;
  wf_type_ids : ∀ t n, st_names (s_store SS) !! t = Some n → 1 ≤ t ≤ st_gen (s_store SS) ∧ n ≠ 0;
  wf_subs : ∀ t S p, st_subs (s_store SS) !! t = Some S → p ∈ S →
      is_Some (s_parts SS !! p) ∧ is_Some (st_names (s_store SS) !! t);
  wf_acts : ∀ e n a, s_actions SS !! (e, n) = Some a →
      a_eid a = e ∧ a_name a = n ∧ n ≠ 0 ∧ is_Some (a_ts a) ∧ is_Some (s_ents SS !! e);
  wf_assets : ∀ e a, s_assets SS !! e = Some a →
      as_eid a = e ∧ 1 ≤ as_id a ≤ s_agen SS ∧ ∃ ent, s_ents SS !! e = Some ent ∧ e_owner ent = as_pid a;
  wf_asset_inj : ∀ e1 e2 a1 a2, s_assets SS !! e1 = Some a1 → s_assets SS !! e2 = Some a2 →
      as_id a1 = as_id a2 → e1 = e2;
  wf_novikja : cfg_vikja cfg = false → s_actions SS = ∅;
  wf_noodal : cfg_odal cfg = false → s_assets SS = ∅
}.

Lemma store_delete_entity_lookup' eid s t e :
  st_comps (store_delete_entity eid s) !! (t, e) = if decide (e = eid) then None else st_comps s !! (t, e).
Proof.
  unfold store_delete_entity. simpl. destruct (decide (e = eid)) as [->|Hne].
  - apply map_filter_lookup_None. right. intros d _ H. by apply H.
  - destruct (st_comps s !! (t, e)) as [d|] eqn:E.
    + apply map_filter_lookup_Some. done.
    + apply map_filter_lookup_None. by left.
Qed.

Lemma filter_entity_lookup (m : gmap (N * N) N) x t e :
  filter (λ kv : N * N * N, kv.1.2 ≠ x) m !! (t, e) = if decide (e = x) then None else m !! (t, e).
Proof.
  destruct (decide (e = x)) as [->|Hne].
  - apply map_filter_lookup_None. right. intros d _ H. by apply H.
  - destruct (m !! (t, e)) as [d|] eqn:E.
    + apply map_filter_lookup_Some. done.
    + apply map_filter_lookup_None. by left.
Qed.

Lemma wf_mono cfg k k' SS : k ≤ k' → wf cfg k SS → wf cfg k' SS.
Proof. intros Hk [W1 W2 W3 W4 W5 W6 W7 W8 W9 W10 W11 W12]. split; try done. lia. Qed.

Lemma wf_session0 cfg uuid : wf cfg 0 (session0 uuid).
Proof.
  split; simpl; try done; try (intros *; rewrite ?lookup_empty; done).
Qed.

(* ---------- entering ---------- *)
Lemma wf_entered cfg k SS c : k + 1 < two32 → wf cfg k SS → wf cfg (k + 1) (entered SS c).
Proof.
  intros Hk [W1 W2 W3 W4 W5 W6 W7 W8 W9 W10 W11 W12]. unfold entered.
  assert (Hs : u32_succ (s_pgen SS) = s_pgen SS + 1) by (apply u32_succ_small; lia).
  split; simpl; try done.
  - rewrite Hs. lia.
  - intros p c0. rewrite Hs. intros [[<- <-]|[Hne H]]%lookup_insert_Some; [lia|]. specialize (W2 _ _ H). lia.
  - intros e ent H. rewrite Hs. specialize (W3 _ _ H). lia.
  - intros t S p H Hp. destruct (W7 _ _ _ H Hp) as [[c0 Hc0] ?]. split; [|done].
    destruct (decide (p = u32_succ (s_pgen SS))) as [->|Hne]; [rewrite lookup_insert; eauto|].
    rewrite lookup_insert_ne by done. eauto.
Qed.

(* ---------- leaving ---------- *)
Lemma remove_doomed_spec cfg p l SS :
  let S' := (remove_doomed cfg p l SS).1 in
  (∀ e, s_ents S' !! e = if bool_decide (e ∈ l) then None else s_ents SS !! e) ∧
  (∀ t e, st_comps (s_store S') !! (t, e) = if bool_decide (e ∈ l) then None else st_comps (s_store SS) !! (t, e)) ∧
  st_names (s_store S') = st_names (s_store SS) ∧ st_ids (s_store S') = st_ids (s_store SS) ∧
  st_subs (s_store S') = st_subs (s_store SS) ∧ st_gen (s_store S') = st_gen (s_store SS) ∧
  s_actions S' = s_actions SS ∧ s_assets S' = s_assets SS ∧ s_egen S' = s_egen SS ∧ s_agen S' = s_agen SS ∧
  s_uuid S' = s_uuid SS.
Proof.
  revert SS. induction l as [|x l IH]; intros SS; simpl.
  - repeat split; intros; by rewrite bool_decide_eq_false_2 by (inversion 1).
  - specialize (IH (set_ents (delete x) (set_store (store_delete_entity x) SS))).
    destruct (remove_doomed cfg p l _) as [S2 o2]. simpl in *.
    destruct IH as (H1&H2&H3&H4&H5&H6&H7&H8&H9&H10&H11). repeat split; try done.
    + intros e. rewrite H1. simpl. destruct (decide (e = x)) as [->|Hne].
      * rewrite (bool_decide_eq_true_2 (x ∈ x :: l)) by (by left). rewrite lookup_delete. by case_bool_decide.
      * rewrite lookup_delete_ne by done. destruct (bool_decide (e ∈ l)) eqn:E.
        -- apply bool_decide_eq_true in E. by rewrite bool_decide_eq_true_2 by (by right).
        -- apply bool_decide_eq_false in E. rewrite bool_decide_eq_false_2; [done|]. intros H. inversion H; subst; done.
    + intros t e. rewrite H2. rewrite filter_entity_lookup. destruct (decide (e = x)) as [->|Hne].
      * rewrite (bool_decide_eq_true_2 (x ∈ x :: l)) by (by left). by case_bool_decide.
      * destruct (bool_decide (e ∈ l)) eqn:E.
        -- apply bool_decide_eq_true in E. by rewrite bool_decide_eq_true_2 by (by right).
        -- apply bool_decide_eq_false in E. rewrite bool_decide_eq_false_2; [done|]. intros H. inversion H; subst; done.
Qed.

Lemma doomed_spec SS own e :
  e ∈ doomed SS own ↔ e ∈ own ∧ ∃ ent, s_ents SS !! e = Some ent ∧ e_persist ent = false.
Proof.
  unfold doomed. rewrite elem_of_list_In, filter_In, <- elem_of_list_In, elem_of_set_to_sorted. unfold doomedb.
  destruct (s_ents SS !! e) as [ent|]; split; try (intros [? ?]; try done).
  - split; [done|]. exists ent. split; [done|]. by apply negb_true_iff.
  - destruct H0 as (ent'&[= <-]&H0). split; [done|]. by apply negb_true_iff.
  - by destruct H0 as (?&?&_).
Qed.

Lemma wf_left cfg k SS c p own : wf cfg k SS → wf cfg k (left_session cfg c p own SS).
Proof.
  intros [W1 W2 W3 W4 W5 W6 W7 W8 W9 W10 W11 W12]. unfold left_session. cbv zeta.
  set (S1 := module_disconnect cfg own SS).
  set (S2 := set_store (store_set_subs (fmap (λ s : gset N, s ∖ {[p]}))) S1).
  pose proof (remove_doomed_spec cfg p (doomed S2 own) S2) as (R1&R2&R3&R4&R5&R6&R7&R8&R9&R10&_).
  pose proof (remove_doomed_parts cfg p (doomed S2 own) S2) as (P1&P2&_).
  set (S3 := (remove_doomed cfg p (doomed S2 own) S2).1) in *.
  assert (E1 : s_ents S2 = s_ents SS) by (unfold S2, S1, module_disconnect; by repeat case_match).
  assert (E2 : st_comps (s_store S2) = st_comps (s_store SS)) by (unfold S2, S1, module_disconnect; by repeat case_match).
  assert (E3 : st_names (s_store S2) = st_names (s_store SS)) by (unfold S2, S1, module_disconnect; by repeat case_match).
  assert (E4 : st_ids (s_store S2) = st_ids (s_store SS)) by (unfold S2, S1, module_disconnect; by repeat case_match).
  assert (E5 : st_gen (s_store S2) = st_gen (s_store SS)) by (unfold S2, S1, module_disconnect; by repeat case_match).
  assert (E6 : s_egen S2 = s_egen SS ∧ s_agen S2 = s_agen SS ∧ s_pgen S2 = s_pgen SS ∧ s_parts S2 = s_parts SS)
    by (unfold S2, S1, module_disconnect; by repeat case_match).
  assert (E7 : st_subs (s_store S2) = (λ s : gset N, s ∖ {[p]}) <$> st_subs (s_store SS))
    by (unfold S2, S1, module_disconnect; by repeat case_match).
  destruct E6 as (E6a&E6b&E6c&E6d).
  (* entities that survive *)
  assert (Hent : ∀ e ent, s_ents S3 !! e = Some ent → s_ents SS !! e = Some ent ∧ e ∉ doomed S2 own).
  { intros e ent. rewrite R1, E1. case_bool_decide; [done|]. done. }
  (* what the modules keep refers to surviving entities *)
  set (gone := List.filter (λ eid, negb (keep_entity SS eid)) (elements own)).
  assert (Hg : ∀ e, memN e gone = true ↔ e ∈ own ∧ keep_entity SS e = false).
  { intros e. rewrite memN_elem. unfold gone. rewrite elem_of_list_In, filter_In, <- elem_of_list_In, elem_of_elements.
    by rewrite negb_true_iff. }
  assert (Hdg : ∀ e, e ∈ doomed S2 own → memN e gone = true).
  { intros e [Ho (ent&He&Hp)]%doomed_spec. apply Hg. split; [done|]. rewrite E1 in He. unfold keep_entity. by rewrite He. }
  assert (EA : s_actions S2 = if cfg_vikja cfg then filter (λ kv : N * N * action, negb (memN kv.1.1 gone)) (s_actions SS)
                               else s_actions SS).
  { unfold S2, S1, module_disconnect. fold gone. by repeat case_match. }
  assert (EB : s_assets S2 = if cfg_odal cfg then filter (λ kv : N * asset, negb (memN kv.1 gone)) (s_assets SS)
                              else s_assets SS).
  { unfold S2, S1, module_disconnect. fold gone. by repeat case_match. }
  assert (Hacts : ∀ e n a, s_actions S2 !! (e, n) = Some a → s_actions SS !! (e, n) = Some a ∧ e ∉ doomed S2 own).
  { intros e n a. rewrite EA. destruct (cfg_vikja cfg) eqn:Ev.
    - intros [H1 H2]%map_filter_lookup_Some. simpl in H2. split; [done|]. intros Hd. apply Hdg in Hd. by rewrite Hd in H2.
    - by rewrite (W11 eq_refl), lookup_empty. }
  assert (Hassets : ∀ e a, s_assets S2 !! e = Some a → s_assets SS !! e = Some a ∧ e ∉ doomed S2 own).
  { intros e a. rewrite EB. destruct (cfg_odal cfg) eqn:Eo.
    - intros [H1 H2]%map_filter_lookup_Some. simpl in H2. split; [done|]. intros Hd. apply Hdg in Hd. by rewrite Hd in H2.
    - by rewrite (W12 eq_refl), lookup_empty. }
  split; simpl.
  - rewrite P2, R9, R10, R6, E6c, E6a, E6b, E5. done.
  - intros q c0. rewrite P1, P2, E6c, E6d. intros [_ H]%lookup_delete_Some. by eapply W2.
  - intros e ent H. apply Hent in H as [H _]. rewrite P2, R9, E6c, E6a. by apply W3.
  - intros t e d. rewrite R2, R3, E2, E3, R1, E1. case_bool_decide; [done|]. apply W4.
  - intros t n. rewrite R3, R4, E3, E4. apply W5.
  - intros t n. rewrite R3, R6, E3, E5. apply W6.
  - intros t S q. rewrite R5, E7, R3, E3, P1, E6d. rewrite lookup_fmap.
    destruct (st_subs (s_store SS) !! t) as [S0|] eqn:ES; simpl; [|done]. intros [= <-] [Hq Hne]%elem_of_difference.
    destruct (W7 _ _ _ ES Hq) as [[c0 Hc0] Hn]. split; [|done]. exists c0. rewrite lookup_delete_ne; [done|set_solver].
  - intros e n a. rewrite R7. intros H. apply Hacts in H as [H Hd]. destruct (W8 _ _ _ H) as (A1&A2&A3&A4&[ent A5]).
    do 4 (split; [done|]). exists ent. rewrite R1, E1. by rewrite bool_decide_eq_false_2.
  - intros e a. rewrite R8. intros H. apply Hassets in H as [H Hd]. destruct (W9 _ _ H) as (A1&A2&ent&A3&A4).
    rewrite R10, E6b. split; [done|]. split; [done|]. exists ent. rewrite R1, E1. by rewrite bool_decide_eq_false_2.
  - intros e1 e2 a1 a2. rewrite R8. intros H1 H2. apply Hassets in H1 as [H1 _]. apply Hassets in H2 as [H2 _]. by eapply W10.
  - intros Hv. rewrite R7, EA, Hv. by apply W11.
  - intros Ho. rewrite R8, EB, Ho. by apply W12.
Qed.

(* ---------- session-local requests ---------- *)
(* shrinking: fewer entities / components / actions / assets, everything kept still attached to a kept entity *)
Lemma wf_shrink cfg k SS S' :
  wf cfg k SS →
  s_pgen S' = s_pgen SS → s_egen S' = s_egen SS → s_agen S' = s_agen SS → s_parts S' = s_parts SS →
  st_gen (s_store S') = st_gen (s_store SS) → st_names (s_store S') = st_names (s_store SS) →
  st_ids (s_store S') = st_ids (s_store SS) → st_subs (s_store S') = st_subs (s_store SS) →
  s_ents S' ⊆ s_ents SS → st_comps (s_store S') ⊆ st_comps (s_store SS) →
  s_actions S' ⊆ s_actions SS → s_assets S' ⊆ s_assets SS →
  (∀ t e d, st_comps (s_store S') !! (t, e) = Some d → is_Some (s_ents S' !! e)) →
  (∀ e n a, s_actions S' !! (e, n) = Some a → is_Some (s_ents S' !! e)) →
  (∀ e a, s_assets S' !! e = Some a → is_Some (s_ents S' !! e)) →
  wf cfg k S'.
Proof.
  intros [W1 W2 W3 W4 W5 W6 W7 W8 W9 W10 W11 W12] E1 E2 E3 E4 E5 E6 E7 E8 Hents Hcomps Hacts Hassets C1 C2 C3.
  assert (Le : ∀ e ent, s_ents S' !! e = Some ent → s_ents SS !! e = Some ent) by (intros e ent H; eapply lookup_weaken; [exact H|done]).
  assert (Lc : ∀ x d, st_comps (s_store S') !! x = Some d → st_comps (s_store SS) !! x = Some d) by (intros x d H; eapply lookup_weaken; [exact H|done]).
  assert (La : ∀ x a, s_actions S' !! x = Some a → s_actions SS !! x = Some a) by (intros x a H; eapply lookup_weaken; [exact H|done]).
  assert (Lb : ∀ x a, s_assets S' !! x = Some a → s_assets SS !! x = Some a) by (intros x a H; eapply lookup_weaken; [exact H|done]).
  split.
  - rewrite E1, E2, E3, E5. done.
  - rewrite E1, E4. done.
  - intros e ent H. rewrite E1, E2. by apply W3, Le.
  - intros t e d H. split; [by eapply C1|]. rewrite E6. by eapply W4, Lc.
  - rewrite E6, E7. done.
  - rewrite E6, E5. done.
  - rewrite E8, E4, E6. done.
  - intros e n a H. destruct (W8 _ _ _ (La _ _ H)) as (?&?&?&?&_). do 4 (split; [done|]). by eapply C2.
  - intros e a H. destruct (W9 _ _ (Lb _ _ H)) as (?&?&ent&He&?). rewrite E3. do 2 (split; [done|]).
    destruct (C3 _ _ H) as [ent' He']. exists ent'. split; [done|]. apply Le in He'. congruence.
  - intros e1 e2 a1 a2 H1 H2. eapply W10; by apply Lb.
  - intros Hv. apply map_empty. intros x. destruct (s_actions S' !! x) as [a|] eqn:E; [|done].
    apply La in E. by rewrite (W11 Hv), lookup_empty in E.
  - intros Ho. apply map_empty. intros x. destruct (s_assets S' !! x) as [a|] eqn:E; [|done].
    apply Lb in E. by rewrite (W12 Ho), lookup_empty in E.
Qed.

Lemma cleanup_modules_fields cfg eid SS :
  let S' := cleanup_modules cfg eid SS in
  s_pgen S' = s_pgen SS ∧ s_egen S' = s_egen SS ∧ s_agen S' = s_agen SS ∧ s_parts S' = s_parts SS ∧
  s_store S' = s_store SS ∧ s_ents S' = s_ents SS ∧ s_actions S' ⊆ s_actions SS ∧ s_assets S' ⊆ s_assets SS ∧
  (s_ents SS !! eid = None → cfg_vikja cfg = true → ∀ n a, s_actions S' !! (eid, n) = Some a → False) ∧
  (s_ents SS !! eid = None → cfg_odal cfg = true → ∀ a, s_assets S' !! eid = Some a → False).
Proof.
  unfold cleanup_modules. destruct (s_ents SS !! eid) eqn:He; [by repeat split|].
  destruct (cfg_vikja cfg), (cfg_odal cfg); simpl; repeat split; try done;
    try apply map_filter_subseteq; try apply delete_subseteq.
  all: try (intros _ _ n a [_ H]%map_filter_lookup_Some; by apply H).
  all: try (intros _ _ a H; by rewrite lookup_delete in H).
Qed.

Lemma wf_sstep cfg k c p own SS r :
  k + 1 < two32 → s_parts SS !! p = Some c → wf cfg k SS → wf cfg (k + 1) (sstep cfg c p own SS r).1.1.
Proof.
  intros Hk Hp W. assert (Wm : wf cfg (k + 1) SS) by (eapply wf_mono; [|done]; lia).
  pose proof W as [W1 W2 W3 W4 W5 W6 W7 W8 W9 W10 W11 W12].
  destruct (W2 _ _ Hp) as [Hp1 Hp2].
  destruct r; simpl; try exact Wm.
  - (* entity add *)
    assert (Hs : u32_succ (s_egen SS) = s_egen SS + 1) by (apply u32_succ_small; lia).
    split; simpl; try done.
    + rewrite Hs. lia.
    + intros e ent. rewrite Hs. intros [[<- <-]|[Hne H]]%lookup_insert_Some; simpl; [lia|]. specialize (W3 _ _ H). lia.
    + intros t e d H. destruct (W4 _ _ _ H) as [[ent He] ?]. split; [|done].
      destruct (decide (e = u32_succ (s_egen SS))) as [->|Hne]; [rewrite lookup_insert; eauto|]. rewrite lookup_insert_ne by done. eauto.
    + intros e n a H. destruct (W8 _ _ _ H) as (?&?&?&?&[ent He]). do 4 (split; [done|]).
      destruct (decide (e = u32_succ (s_egen SS))) as [->|Hne]; [rewrite lookup_insert; eauto|]. rewrite lookup_insert_ne by done. eauto.
    + intros e a H. destruct (W9 _ _ H) as (?&?&ent&He&?). do 2 (split; [done|]).
      destruct (decide (e = u32_succ (s_egen SS))) as [->|Hne].
      * exfalso. specialize (W3 _ _ He). rewrite Hs in W3. lia.
      * exists ent. rewrite lookup_insert_ne by done. done.
  - (* entity delete *)
    destruct (s_ents SS !! eid) as [e|] eqn:He.
    + destruct (negb (e_owner e =? p)); [exact Wm|]. simpl.
      set (S1 := set_ents (delete eid) (set_store (store_delete_entity eid) SS)).
      pose proof (cleanup_modules_fields cfg eid S1) as (F1&F2&F3&F4&F5&F6&F7&F8&F9&F10).
      assert (He1 : s_ents S1 !! eid = None) by (simpl; by rewrite lookup_delete).
      eapply (wf_shrink cfg (k + 1) SS); try done; try (by rewrite ?F1, ?F2, ?F3, ?F4, ?F5).
      * rewrite F6. simpl. apply delete_subseteq.
      * rewrite F5. simpl. apply map_filter_subseteq.
      * rewrite F5, F6. simpl. intros t e0 d [H1 H2]%map_filter_lookup_Some. simpl in H2.
        destruct (W4 _ _ _ H1) as [[ent Hent] _]. exists ent. by rewrite lookup_delete_ne.
      * rewrite F6. intros e0 n a H. pose proof (lookup_weaken _ _ _ _ H F7) as H'. simpl in H'.
        destruct (W8 _ _ _ H') as (_&_&_&_&[ent Hent]). destruct (decide (e0 = eid)) as [->|Hne].
        -- exfalso. destruct (cfg_vikja cfg) eqn:Ev; [by eapply F9|]. by rewrite (W11 eq_refl), lookup_empty in H'.
        -- exists ent. simpl. by rewrite lookup_delete_ne.
      * rewrite F6. intros e0 a H. pose proof (lookup_weaken _ _ _ _ H F8) as H'. simpl in H'.
        destruct (W9 _ _ H') as (_&_&ent&Hent&_). destruct (decide (e0 = eid)) as [->|Hne].
        -- exfalso. destruct (cfg_odal cfg) eqn:Ev; [by eapply F10|]. by rewrite (W12 eq_refl), lookup_empty in H'.
        -- exists ent. simpl. by rewrite lookup_delete_ne.
    + simpl. pose proof (cleanup_modules_fields cfg eid SS) as (F1&F2&F3&F4&F5&F6&F7&F8&F9&F10).
      eapply (wf_shrink cfg (k + 1) SS); try done; try (by rewrite ?F1, ?F2, ?F3, ?F4, ?F5, ?F6).
      * rewrite F5, F6. intros t e0 d H. by destruct (W4 _ _ _ H).
      * rewrite F6. intros e0 n a H. pose proof (lookup_weaken _ _ _ _ H F7) as H'. by destruct (W8 _ _ _ H') as (_&_&_&_&?).
      * rewrite F6. intros e0 a H. pose proof (lookup_weaken _ _ _ _ H F8) as H'. destruct (W9 _ _ H') as (_&_&ent&?&_). eauto.
  - (* pose *)
    destruct (s_ents SS !! eid) as [e|] eqn:He; [|exact Wm]. destruct p0 as [ps|]; [|exact Wm].
    destruct (negb (e_owner e =? p)); [exact Wm|]. simpl.
    split; simpl; try done; try (destruct Wm; done).
    + intros e0 ent. intros [[<- <-]|[Hne H]]%lookup_insert_Some; simpl; [by apply (W3 _ _ He)|by apply W3].
    + intros t e0 d H. destruct (W4 _ _ _ H) as [[ent Hent] ?]. split; [|done].
      destruct (decide (e0 = eid)) as [->|Hne]; [rewrite lookup_insert; eauto|]. rewrite lookup_insert_ne by done. eauto.
    + intros e0 n a H. destruct (W8 _ _ _ H) as (?&?&?&?&[ent Hent]). do 4 (split; [done|]).
      destruct (decide (e0 = eid)) as [->|Hne]; [rewrite lookup_insert; eauto|]. rewrite lookup_insert_ne by done. eauto.
    + intros e0 a H. destruct (W9 _ _ H) as (?&?&ent&Hent&?). do 2 (split; [done|]).
      destruct (decide (e0 = eid)) as [->|Hne].
      * rewrite lookup_insert. eexists. split; [done|]. simpl. congruence.
      * exists ent. by rewrite lookup_insert_ne.
  - (* custom *) repeat case_match; exact Wm.
  - (* type add *)
    destruct (name =? 0) eqn:En; [exact Wm|]. apply N.eqb_neq in En.
    unfold store_add_type. destruct (st_ids (s_store SS) !! name) as [tid|] eqn:Eid; simpl.
    { destruct Wm; split; done. }
    assert (Hs : u32_succ (st_gen (s_store SS)) = st_gen (s_store SS) + 1) by (apply u32_succ_small; lia).
    assert (Hfresh : st_names (s_store SS) !! u32_succ (st_gen (s_store SS)) = None).
    { destruct (st_names (s_store SS) !! _) as [n|] eqn:E; [|done]. destruct (W6 _ _ E). lia. }
    split; simpl; try done.
    + rewrite Hs. lia.
    + intros t e d H. destruct (W4 _ _ _ H) as [? [n Hn]]. split; [done|].
      destruct (decide (t = u32_succ (st_gen (s_store SS)))) as [->|Hne]; [rewrite lookup_insert; eauto|]. rewrite lookup_insert_ne by done. eauto.
    + intros t n. rewrite !lookup_insert_Some. split.
      * intros [[<- <-]|[Hne H]]; [by left|]. right. split; [|by apply W5]. intros <-. apply W5 in H. congruence.
      * intros [[<- <-]|[Hne H]]; [by left|]. right. split; [|by apply W5]. intros <-. apply W5 in H. congruence.
    + intros t n. rewrite Hs. intros [[<- <-]|[Hne H]]%lookup_insert_Some; [split; [lia|done]|]. destruct (W6 _ _ H). split; [lia|done].
    + intros t S q H Hq. destruct (W7 _ _ _ H Hq) as [? [n Hn]]. split; [done|].
      destruct (decide (t = u32_succ (st_gen (s_store SS)))) as [->|Hne]; [rewrite lookup_insert; eauto|]. rewrite lookup_insert_ne by done. eauto.
  - (* get name *) repeat case_match; exact Wm.
  - (* get id *) repeat case_match; exact Wm.
  - (* component add *)
    repeat case_match; try exact Wm; simpl.
    all: split; simpl; try done; try (destruct Wm; done).
    all: intros t9 e9 d9; intros [[[= <- <-] <-]|[Hne HH]]%lookup_insert_Some; [split; eauto|by apply (W4 _ _ _ HH)].
  - (* component delete *)
    repeat case_match; try exact Wm; simpl.
    all: split; simpl; try done; try (destruct Wm; done).
    all: intros t9 e9 d9; intros [_ HH]%lookup_delete_Some; by apply (W4 _ _ _ HH).
  - (* component update *)
    repeat case_match; try exact Wm; simpl.
    all: split; simpl; try done; try (destruct Wm; done).
    all: intros t9 e9 d9; intros [[[= <- <-] <-]|[Hne HH]]%lookup_insert_Some; [|by apply (W4 _ _ _ HH)].
    all: match goal with H : st_comps _ !! _ = Some _ |- _ => by apply W4 in H end.
  - (* list *) repeat case_match; exact Wm.
  - (* subscribe *)
    repeat case_match; try exact Wm; simpl.
    all: split; simpl; try done; try (destruct Wm; done).
    all: intros t9 S9 q9; intros [[<- <-]|[Hne HH]]%lookup_insert_Some; [|by apply (W7 _ _ _ HH)].
    all: intros [Hq|Hq]%elem_of_union;
      [unfold subs_of in Hq; destruct (st_subs (s_store SS) !! tid) as [S1|] eqn:E; simpl in Hq; [by apply (W7 _ _ _ E)|set_solver]
      |apply elem_of_singleton in Hq as ->; split; eauto].
  - (* unsubscribe *)
    destruct (tid =? 0); [exact Wm|]. simpl.
    split; simpl; try done; try (destruct Wm; done).
    intros t9 S9 q9. destruct (st_subs (s_store SS) !! tid) as [S1|] eqn:E.
    + intros [[<- <-]|[Hne HH]]%lookup_insert_Some; [|by apply (W7 _ _ _ HH)].
      intros [Hq _]%elem_of_difference. by apply (W7 _ _ _ E).
    + apply W7.
  - (* action *)
    repeat case_match; try exact Wm; simpl.
    all: split; simpl; try done; try (destruct Wm; done).
    all: try (intros Hv; exfalso; repeat match goal with H : negb _ = false |- _ => apply negb_false_iff in H end; congruence).
    all: intros e9 n9 a9; intros [[[= <- <-] <-]|[Hne HH]]%lookup_insert_Some; [|by apply (W8 _ _ _ HH)].
    all: do 2 (split; [done|]).
    all: match goal with H : orb _ _ = false |- _ => apply orb_false_iff in H as [Hn1 Hn2] end.
    all: apply N.eqb_neq in Hn1; apply negb_false_iff in Hn2; split; [done|]; split; [by destruct (a_ts _)|eauto].
  - (* asset add *)
    repeat case_match; try exact Wm. simpl.
    assert (Hs : u32_succ (s_agen SS) = s_agen SS + 1) by (apply u32_succ_small; lia).
    split; simpl; try done; try (destruct Wm; done).
    + rewrite Hs. lia.
    + intros e0 a. rewrite Hs. intros [[<- <-]|[Hne HH]]%lookup_insert_Some; simpl.
      * split; [done|]. split; [lia|]. eexists. split; [done|].
        match goal with H : negb (_ =? p) = false |- _ => apply negb_false_iff, N.eqb_eq in H; done end.
      * destruct (W9 _ _ HH) as (?&?&?). split; [done|]. split; [lia|done].
    + intros e1 e2 a1 a2. rewrite !lookup_insert_Some. intros [[<- <-]|[Hne1 HH1]] [[<- <-]|[Hne2 HH2]]; simpl; try done.
      * intros E. exfalso. destruct (W9 _ _ HH2) as (_&?&_). rewrite Hs in E. lia.
      * intros E. exfalso. destruct (W9 _ _ HH1) as (_&?&_). rewrite Hs in E. lia.
      * by apply (W10 _ _ _ _ HH1 HH2).
    + intros Ho. exfalso. repeat match goal with H : negb _ = false |- _ => apply negb_false_iff in H end. congruence.
Qed.

(* every per-session transition preserves well-formedness, the budget growing by one *)
Theorem wf_trans cfg k a b SS SS' :
  a = Some SS → b = Some SS' → sess_trans cfg a b → k + 1 < two32 → wf cfg k SS → wf cfg (k + 1) SS'.
Proof.
  intros -> -> H Hk W. inversion H; subst.
  - by eapply wf_sstep.
  - eapply wf_mono; [|by apply wf_left]. lia.
  - by apply wf_entered.
Qed.

(* every session of every reachable state is well-formed *)
Theorem reachable_wf cfg h sid SS :
  4 * N.of_nat (length h) < two32 → sessions (final cfg h) !! sid = Some SS → wf cfg (4 * N.of_nat (length h)) SS.
Proof.
  intros Hb. apply (reachable_sessions cfg (wf cfg)); [|apply wf_session0|apply wf_trans|done].
  intros k k' S0 Hk. by apply wf_mono.
Qed.

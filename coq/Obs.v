(* Obs.v — canonical form of observations, projections, and the engine that
   compares an implementation trace with the model's trace of the same ops. *)
From hagall Require Export Model Codec Spec.

(* ---------- canonical form of the outputs of one op ---------- *)
Definition is_leave_delete (c : N) (d : delivery) : option N :=
  match d with
  | (c', MEntityDeleteB 0 e) => if c' =? c then Some e else None
  | _ => None
  end.

Fixpoint span_deletes (c : N) (l : list delivery) : list N * list delivery :=
  match l with
  | d :: r => match is_leave_delete c d with
              | Some e => let '(es, rest) := span_deletes c r in (e :: es, rest)
              | None => ([], l)
              end
  | [] => ([], [])
  end.

Fixpoint canon_runs (fuel : nat) (l : list delivery) : list delivery :=
  match fuel with
  | O => l
  | S fuel' =>
    match l with
    | [] => []
    | (c, MEntityDeleteB 0 e) :: _ =>
        let '(es, rest) := span_deletes c l in
        map (λ e, (c, MEntityDeleteB 0 e)) (sortN es) ++ canon_runs fuel' rest
    | d :: r => d :: canon_runs fuel' r
    end
  end.

(* group by recipient (stable), sort each departure's delete run, sort the lists inside messages *)
Definition canon_outs (outs : list delivery) : list delivery :=
  let l := isort (λ a b : delivery, fst a <=? fst b) (map (λ d, (fst d, canon_msg (snd d))) outs) in
  canon_runs (length l) l.

Definition enc_delivery (d : delivery) : list Z := zn (fst d) :: enc_msg (snd d).

(* ---------- projections ---------- *)
(* A projection keeps, per event, what a property's predicate depends on. *)
Definition proj := event → event.
Definition filter_outs (f : delivery → option delivery) : proj :=
  λ e, {| ev_op := ev_op e; ev_req := ev_req e; ev_outs := omap f (ev_outs e);
          ev_verdict := ev_verdict e |}.
Definition pi_full : proj := λ e, e.

(* ---------- comparison ---------- *)
Definition enc_event (e : event) : list (list Z) :=
  [enc_verdict (ev_verdict e)] :: eO enc_req (ev_req e) :: map enc_delivery (canon_outs (ev_outs e)).

Record mismatch := { mm_index : nat; mm_impl : list (list Z); mm_model : list (list Z) }.

Fixpoint diff_events (π : proj) (i : nat) (impl model : trace) : list mismatch :=
  match impl, model with
  | a :: impl', b :: model' =>
      let ea := enc_event (π a) in
      let eb := enc_event (π b) in
      (if bool_decide (ea = eb) then [] else [{| mm_index := i; mm_impl := ea; mm_model := eb |}])
      ++ diff_events π (S i) impl' model'
  | _, _ => []
  end.

Definition diff_trace (cfg : config) (π : proj) (impl : trace) : list mismatch :=
  diff_events π 0 impl (run cfg (map ev_op impl)).

(* ---------- property predicates: the shape of a reported violation ---------- *)
Record violation := { v_index : nat; v_code : Z; v_info : list Z }.
Definition pred := config → trace → list violation.
Definition P_none : pred := λ _ _, [].

(* ---------- the membership observer ----------
   Who is in which session under which participant id, recomputed from the
   trace alone: join responses, refused joins, departures. *)
Definition members := gmap N (N * N).      (* connection -> (session id, participant id) *)

Definition find_join_resp (c : N) (outs : list delivery) : option (N * N) :=
  head (omap (λ d, match d with
                   | (c', MJoinResp _ s _ p) => if c' =? c then Some (s, p) else None
                   | _ => None end) outs).

Definition obs_step (m : members) (e : event) : members :=
  match ev_op e with
  | OStep c _ =>
      match ev_verdict e with
      | VErr => delete c m
      | _ =>
        match ev_req e with
        | Some (RJoin _ _ _) =>
            match find_join_resp c (ev_outs e) with
            | Some sp => <[c := sp]> m
            | None => if has_error c E_NOT_FOUND (ev_outs e) then delete c m else m
            end
        | _ => m
        end
      end
  | OSend c _ => match ev_verdict e with VErr => delete c m | _ => m end
  | ODisconnect c => delete c m
  | _ => m
  end.

(* participants of session [sid] according to the observer: (pid, conn), ascending pid *)
Definition members_of (m : members) (sid : N) : list (N * N) :=
  sort_by (λ pc, [zn (fst pc)])
          (omap (λ kv, if fst (snd kv) =? sid then Some (snd (snd kv), fst kv) else None) (map_to_list m)).

(* fold a per-event checker along the trace, threading the observer (state before the event) *)
Fixpoint scan {A} (f : nat → members → event → list A) (i : nat) (m : members) (t : trace) : list A :=
  match t with
  | [] => []
  | e :: t' => f i m e ++ scan f (S i) (obs_step m e) t'
  end.

Definition blank (e : event) : event :=
  {| ev_op := OSnap; ev_req := None; ev_outs := []; ev_verdict := VOk |}.
Definition proj_by (keep_ev : event → bool) (keep_msg : msg → bool) : proj :=
  λ e, if keep_ev e
       then {| ev_op := ev_op e; ev_req := ev_req e;
               ev_outs := List.filter (λ d, keep_msg (snd d)) (ev_outs e); ev_verdict := ev_verdict e |}
       else blank e.

Definition sort_lines (l : list (list Z)) : list (list Z) := isort lex_leb l.

(* ================= C14: custom messages ================= *)
Definition is_custom_req (e : event) : bool :=
  match ev_req e with Some (RCustom _ _ _) => true | _ => false end.
Definition is_custom_msg (m : msg) : bool :=
  match m with MCustomB _ _ _ => true | MError _ _ => true | _ => false end.
Definition pi_C14 : proj := proj_by is_custom_req is_custom_msg.

Definition viol (i : nat) (code : Z) (info : list Z) : violation :=
  {| v_index := i; v_code := code; v_info := info |}.

(* expected deliveries of a custom message sent by (c, p) in session sid *)
Definition c14_expected (m : members) (sid p : N) (rcpts body : list N) (ots : N) : list (list Z) :=
  let mem := members_of m sid in
  let targets := match rcpts with
                 | [] => List.filter (λ pc, negb (fst pc =? p)) mem
                 | _ => List.filter (λ pc, negb (fst pc =? p) && memN (fst pc) rcpts) mem
                 end in
  sort_lines (map (λ pc, enc_delivery (snd pc, MCustomB ots p body)) targets).

Definition P_C14_event (cfg : config) (i : nat) (m : members) (e : event) : list violation :=
  match ev_op e, ev_req e with
  | OStep c _, Some (RCustom rcpts body ots) =>
    let got := sort_lines (map enc_delivery (List.filter (λ d, match snd d with MCustomB _ _ _ => true | _ => false end) (ev_outs e))) in
    match m !! c with
    | None =>
        (* not in a session: never executed *)
        if bool_decide (got = []) then [] else [viol i 1401 [zn c]]
    | Some (sid, p) =>
        if custom_max <? N.of_nat (length body) then
          (if bool_decide (got = []) then [] else [viol i 1402 [zn c; Z.of_nat (length body)]]) ++
          (if has_error c E_TOO_LARGE (ev_outs e) then [] else [viol i 1403 [zn c; Z.of_nat (length body)]])
        else if flag_on cfg F_CUSTOM_B then []
        else
          (if bool_decide (got = c14_expected m sid p rcpts body ots) then []
           else [viol i 1404 [zn c; zn p; Z.of_nat (length body); Z.of_nat (length got)]]) ++
          (if has_error c E_TOO_LARGE (ev_outs e) then [viol i 1405 [zn c; Z.of_nat (length body)]] else [])
    end
  | _, _ => []
  end.
Definition P_C14 : pred := λ cfg t, scan (P_C14_event cfg) 0 ∅ t.

(* Obs.v — canonical form of observations, projections, and the engine that
   compares an implementation trace with the model's trace of the same ops. *)
From hagall Require Export Model Codec.

(* ---------- canonical form of the outputs of one op ---------- *)
Definition is_leave_delete (c : N) (d : delivery) : option N :=
  match d with
  | (c', MEntityDeleteB 0 e) => if c' =? c then Some e else None
  | _ => None
  end.

Fixpoint span_deletes (c : N) (l : list delivery) : list N * list delivery :=
  match l with
  | d :: r => match is_leave_delete c d with
              | Some e => let '(es, rest) := span_deletes c r in (e :: es, rest)
              | None => ([], l)
              end
  | [] => ([], [])
  end.

Fixpoint canon_runs (fuel : nat) (l : list delivery) : list delivery :=
  match fuel with
  | O => l
  | S fuel' =>
    match l with
    | [] => []
    | (c, MEntityDeleteB 0 e) :: _ =>
        let '(es, rest) := span_deletes c l in
        map (λ e, (c, MEntityDeleteB 0 e)) (sortN es) ++ canon_runs fuel' rest
    | d :: r => d :: canon_runs fuel' r
    end
  end.

(* group by recipient (stable), sort each departure's delete run, sort the lists inside messages *)
Definition canon_outs (outs : list delivery) : list delivery :=
  let l := isort (λ a b : delivery, fst a <=? fst b) (map (λ d, (fst d, canon_msg (snd d))) outs) in
  canon_runs (length l) l.

Definition enc_delivery (d : delivery) : list Z := zn (fst d) :: enc_msg (snd d).

(* ---------- projections ---------- *)
(* A projection keeps, per event, what a property's predicate depends on. *)
Definition proj := event → event.
Definition filter_outs (f : delivery → option delivery) : proj :=
  λ e, {| ev_op := ev_op e; ev_req := ev_req e; ev_outs := omap f (ev_outs e);
          ev_verdict := ev_verdict e |}.
Definition pi_full : proj := λ e, e.

(* ---------- comparison ---------- *)
Definition enc_event (e : event) : list (list Z) :=
  [enc_verdict (ev_verdict e)] :: eO enc_req (ev_req e) :: map enc_delivery (canon_outs (ev_outs e)).

Record mismatch := { mm_index : nat; mm_impl : list (list Z); mm_model : list (list Z) }.

Fixpoint diff_events (π : proj) (i : nat) (impl model : trace) : list mismatch :=
  match impl, model with
  | a :: impl', b :: model' =>
      let ea := enc_event (π a) in
      let eb := enc_event (π b) in
      (if bool_decide (ea = eb) then [] else [{| mm_index := i; mm_impl := ea; mm_model := eb |}])
      ++ diff_events π (S i) impl' model'
  | _, _ => []
  end.

Definition diff_trace (cfg : config) (π : proj) (impl : trace) : list mismatch :=
  diff_events π 0 impl (run cfg (map ev_op impl)).

(* ---------- property predicates: the shape of a reported violation ---------- *)
Record violation := { v_index : nat; v_code : Z; v_info : list Z }.
Definition pred := config → trace → list violation.
Definition P_none : pred := λ _ _, [].

(* Model.v — the sequential state machine of the relay (models/, websocket/realtime.go,
   websocket/handler.go handleMessage, modules/vikja, modules/odal, the
   hagall-common scheduler).  Executable, total, no proofs in this file. *)
From hagall Require Export Msg.

(* ---------- id generator (models/id.go) ---------- *)
Record idgen := { g_cur : N; g_reuse : gset N }.
Definition gen0 : idgen := {| g_cur := 0; g_reuse := ∅ |}.
(* [hint] resolves Go's map-iteration choice among reusable ids. *)
Definition gen_new (hint : N) (g : idgen) : N * idgen :=
  if decide (g_reuse g = ∅) then
    let id := u32_succ (g_cur g) in (id, {| g_cur := id; g_reuse := g_reuse g |})
  else
    let id := if decide (hint ∈ g_reuse g) then hint
              else default 0 (min_of (elements (g_reuse g))) in
    (id, {| g_cur := g_cur g; g_reuse := g_reuse g ∖ {[id]} |}).
Definition gen_reuse (id : N) (g : idgen) : idgen :=
  {| g_cur := g_cur g; g_reuse := g_reuse g ∪ {[id]} |}.

(* ---------- entity component store (models/entity.go) ---------- *)
Record store := {
  st_gen : N;                         (* ids.currentID; never reused *)
  st_names : gmap N N;                (* type id -> name *)
  st_ids : gmap N N;                  (* name -> type id *)
  st_comps : gmap (N * N) N;          (* (type id, entity id) -> data *)
  st_subs : gmap N (gset N)           (* type id -> subscribed participant ids *)
}.
Definition store0 : store :=
  {| st_gen := 0; st_names := ∅; st_ids := ∅; st_comps := ∅; st_subs := ∅ |}.

Definition store_add_type (name : N) (s : store) : N * store :=
  match st_ids s !! name with
  | Some id => (id, s)
  | None =>
      let id := u32_succ (st_gen s) in
      (id, {| st_gen := id; st_names := <[id := name]> (st_names s);
              st_ids := <[name := id]> (st_ids s);
              st_comps := st_comps s; st_subs := st_subs s |})
  end.
Definition store_set_comps (f : gmap (N*N) N → gmap (N*N) N) (s : store) : store :=
  {| st_gen := st_gen s; st_names := st_names s; st_ids := st_ids s;
     st_comps := f (st_comps s); st_subs := st_subs s |}.
Definition store_set_subs (f : gmap N (gset N) → gmap N (gset N)) (s : store) : store :=
  {| st_gen := st_gen s; st_names := st_names s; st_ids := st_ids s;
     st_comps := st_comps s; st_subs := f (st_subs s) |}.
Definition store_delete_entity (eid : N) (s : store) : store :=
  store_set_comps (filter (λ kv, snd (fst kv) ≠ eid)) s.
Definition subs_of (s : store) (tid : N) : gset N := default ∅ (st_subs s !! tid).
Definition comp_list (l : list ((N*N) * N)) : list comp_pb :=
  map (λ kv, {| cp_tid := fst (fst kv); cp_eid := snd (fst kv); cp_data := snd kv |}) l.
Definition store_list_all (s : store) : list comp_pb := comp_list (map_to_list (st_comps s)).
Definition store_list (tid : N) (s : store) : list comp_pb :=
  comp_list (map_to_list (filter (λ kv, fst (fst kv) = tid) (st_comps s))).

(* ---------- session ---------- *)
Record entity := { e_owner : N; e_persist : bool; e_flag : N; e_pose : pose }.

Record session := {
  s_uuid : N;
  s_pgen : N;                         (* participantIDs.currentID *)
  s_egen : N;                         (* entityIDs.currentID *)
  s_parts : gmap N N;                 (* participant id -> connection *)
  s_ents : gmap N entity;
  s_store : store;
  s_actions : gmap (N * N) action;    (* vikja: (entity id, name) -> action *)
  s_agen : N;                         (* odal: assetInstanceIDs.currentID *)
  s_assets : gmap N asset;            (* odal: entity id -> asset instance *)
  s_frames : gset N                   (* connections with a registered frame handler *)
}.

Definition session0 (uuid : N) : session :=
  {| s_uuid := uuid; s_pgen := 0; s_egen := 0; s_parts := ∅; s_ents := ∅; s_store := store0;
     s_actions := ∅; s_agen := 0; s_assets := ∅; s_frames := ∅ |}.

Definition set_parts (f : gmap N N → gmap N N) (SS : session) : session :=
  {| s_uuid := s_uuid SS; s_pgen := s_pgen SS; s_egen := s_egen SS; s_parts := f (s_parts SS);
     s_ents := s_ents SS; s_store := s_store SS; s_actions := s_actions SS; s_agen := s_agen SS;
     s_assets := s_assets SS; s_frames := s_frames SS |}.
Definition set_pgen (n : N) (SS : session) : session :=
  {| s_uuid := s_uuid SS; s_pgen := n; s_egen := s_egen SS; s_parts := s_parts SS;
     s_ents := s_ents SS; s_store := s_store SS; s_actions := s_actions SS; s_agen := s_agen SS;
     s_assets := s_assets SS; s_frames := s_frames SS |}.
Definition set_egen (n : N) (SS : session) : session :=
  {| s_uuid := s_uuid SS; s_pgen := s_pgen SS; s_egen := n; s_parts := s_parts SS;
     s_ents := s_ents SS; s_store := s_store SS; s_actions := s_actions SS; s_agen := s_agen SS;
     s_assets := s_assets SS; s_frames := s_frames SS |}.
Definition set_ents (f : gmap N entity → gmap N entity) (SS : session) : session :=
  {| s_uuid := s_uuid SS; s_pgen := s_pgen SS; s_egen := s_egen SS; s_parts := s_parts SS;
     s_ents := f (s_ents SS); s_store := s_store SS; s_actions := s_actions SS; s_agen := s_agen SS;
     s_assets := s_assets SS; s_frames := s_frames SS |}.
Definition set_store (f : store → store) (SS : session) : session :=
  {| s_uuid := s_uuid SS; s_pgen := s_pgen SS; s_egen := s_egen SS; s_parts := s_parts SS;
     s_ents := s_ents SS; s_store := f (s_store SS); s_actions := s_actions SS; s_agen := s_agen SS;
     s_assets := s_assets SS; s_frames := s_frames SS |}.
Definition set_actions (f : gmap (N*N) action → gmap (N*N) action) (SS : session) : session :=
  {| s_uuid := s_uuid SS; s_pgen := s_pgen SS; s_egen := s_egen SS; s_parts := s_parts SS;
     s_ents := s_ents SS; s_store := s_store SS; s_actions := f (s_actions SS); s_agen := s_agen SS;
     s_assets := s_assets SS; s_frames := s_frames SS |}.
Definition set_agen (n : N) (SS : session) : session :=
  {| s_uuid := s_uuid SS; s_pgen := s_pgen SS; s_egen := s_egen SS; s_parts := s_parts SS;
     s_ents := s_ents SS; s_store := s_store SS; s_actions := s_actions SS; s_agen := n;
     s_assets := s_assets SS; s_frames := s_frames SS |}.
Definition set_assets (f : gmap N asset → gmap N asset) (SS : session) : session :=
  {| s_uuid := s_uuid SS; s_pgen := s_pgen SS; s_egen := s_egen SS; s_parts := s_parts SS;
     s_ents := s_ents SS; s_store := s_store SS; s_actions := s_actions SS; s_agen := s_agen SS;
     s_assets := f (s_assets SS); s_frames := s_frames SS |}.
Definition set_frames (f : gset N → gset N) (SS : session) : session :=
  {| s_uuid := s_uuid SS; s_pgen := s_pgen SS; s_egen := s_egen SS; s_parts := s_parts SS;
     s_ents := s_ents SS; s_store := s_store SS; s_actions := s_actions SS; s_agen := s_agen SS;
     s_assets := s_assets SS; s_frames := f (s_frames SS) |}.

(* Session.Broadcast: every participant except the sender, ascending pid. *)
Definition others (SS : session) (p : N) : list (N * N) :=
  filter (λ qc, fst qc ≠ p) (sort_by (λ qc, [zn (fst qc)]) (map_to_list (s_parts SS))).
Definition broadcast (SS : session) (p : N) (m : msg) : list delivery :=
  map (λ qc, (snd qc, m)) (others SS p).
(* Session.BroadcastTo: named members, in the order named, sender skipped, de-duplicated. *)
Definition broadcast_to (SS : session) (p : N) (ids : list N) (m : msg) : list delivery :=
  omap (λ q, if q =? p then None else (λ c, (c, m)) <$> (s_parts SS !! q)) (dedupN ids []).

Definition ent_to_pb (id : N) (e : entity) : ent_pb :=
  {| ep_id := id; ep_owner := e_owner e; ep_pose := e_pose e; ep_flag := e_flag e |}.
Definition ents_pb (SS : session) : list ent_pb :=
  map (λ kv, ent_to_pb (fst kv) (snd kv)) (map_to_list (s_ents SS)).

(* ---------- signed latency (models/signed_latency.go) ---------- *)
Record latency := {
  l_rid : N; l_iter : N; l_pings : list (N * bool);   (* id, answered *)
  l_uuid : N; l_client : N; l_wallet : N
}.

(* ---------- connection ---------- *)
Record conn := {
  c_open : bool;
  c_cur : option (N * N);             (* numeric session id, participant id *)
  c_own : gset N;                     (* Participant.entityIDs *)
  c_queue : list req;                 (* scheduler queue *)
  c_pposes : gmap N req;              (* scheduler.poseUpdates *)
  c_pcomps : gmap (N * N) req;        (* scheduler.entityComponentUpdates *)
  c_lat : option latency
}.
Definition conn0 : conn :=
  {| c_open := true; c_cur := None; c_own := ∅; c_queue := []; c_pposes := ∅; c_pcomps := ∅;
     c_lat := None |}.
Definition set_cur (v : option (N*N)) (c : conn) : conn :=
  {| c_open := c_open c; c_cur := v; c_own := c_own c; c_queue := c_queue c;
     c_pposes := c_pposes c; c_pcomps := c_pcomps c; c_lat := c_lat c |}.
Definition set_own (f : gset N → gset N) (c : conn) : conn :=
  {| c_open := c_open c; c_cur := c_cur c; c_own := f (c_own c); c_queue := c_queue c;
     c_pposes := c_pposes c; c_pcomps := c_pcomps c; c_lat := c_lat c |}.
Definition set_queue (q : list req) (c : conn) : conn :=
  {| c_open := c_open c; c_cur := c_cur c; c_own := c_own c; c_queue := q;
     c_pposes := c_pposes c; c_pcomps := c_pcomps c; c_lat := c_lat c |}.
Definition set_pending (pp : gmap N req) (pc : gmap (N*N) req) (c : conn) : conn :=
  {| c_open := c_open c; c_cur := c_cur c; c_own := c_own c; c_queue := c_queue c;
     c_pposes := pp; c_pcomps := pc; c_lat := c_lat c |}.
Definition set_lat (l : option latency) (c : conn) : conn :=
  {| c_open := c_open c; c_cur := c_cur c; c_own := c_own c; c_queue := c_queue c;
     c_pposes := c_pposes c; c_pcomps := c_pcomps c; c_lat := l |}.
Definition set_open (b : bool) (c : conn) : conn :=
  {| c_open := b; c_cur := c_cur c; c_own := c_own c; c_queue := c_queue c;
     c_pposes := c_pposes c; c_pcomps := c_pcomps c; c_lat := c_lat c |}.

(* ---------- global state ---------- *)
Record state := {
  sessions : gmap N session;          (* SessionStore.sessions, by numeric id *)
  sids : idgen;                       (* SessionStore.ids *)
  next_uuid : N;                      (* UUIDs, renamed to first-occurrence indices *)
  next_ping : N;                      (* ping ids, renamed likewise *)
  conns : gmap N conn;
  receipts : list (N * N * N);        (* ReceiptChan contents *)
  gauge : Z                           (* session_count gauge *)
}.
Definition state0 : state :=
  {| sessions := ∅; sids := gen0; next_uuid := 0; next_ping := 0; conns := ∅; receipts := [];
     gauge := 0 |}.

Definition set_sessions (f : gmap N session → gmap N session) (st : state) : state :=
  {| sessions := f (sessions st); sids := sids st; next_uuid := next_uuid st;
     next_ping := next_ping st; conns := conns st; receipts := receipts st; gauge := gauge st |}.
Definition set_conns (f : gmap N conn → gmap N conn) (st : state) : state :=
  {| sessions := sessions st; sids := sids st; next_uuid := next_uuid st;
     next_ping := next_ping st; conns := f (conns st); receipts := receipts st; gauge := gauge st |}.
Definition upd_session (sid : N) (f : session → session) (st : state) : state :=
  set_sessions (λ m, match m !! sid with Some SS => <[sid := f SS]> m | None => m end) st.
Definition upd_conn (c : N) (f : conn → conn) (st : state) : state :=
  set_conns (λ m, match m !! c with Some cn => <[c := f cn]> m | None => m end) st.

Definition receipt_cap : N := 128.        (* cmd/main.go; re-checked against Gen.v *)
Definition custom_max : N := 10240.       (* websocket/realtime.go; re-checked against Gen.v *)
Definition lat_min : N := 3.
Definition lat_max : N := 50.

Definition hres : Type := state * list delivery * verdict.

(* ---------- leaveSession ---------- *)
Definition keep_entity (SS : session) (eid : N) : bool :=
  match s_ents SS !! eid with Some e => e_persist e | None => false end.

(* the leaver's own entities that are still present and not persistent, ascending *)
Definition doomedb (SS : session) (eid : N) : bool :=
  match s_ents SS !! eid with Some e => negb (e_persist e) | None => false end.
Definition doomed (SS : session) (own : gset N) : list N :=
  List.filter (doomedb SS) (set_to_sorted own).

Definition module_disconnect (cfg : config) (own : gset N) (SS : session) : session :=
  let gone := List.filter (λ eid, negb (keep_entity SS eid)) (elements own) in
  let S1 := if cfg_vikja cfg
            then set_actions (filter (λ kv, negb (memN (fst (fst kv)) gone))) SS else SS in
  if cfg_odal cfg then set_assets (filter (λ kv, negb (memN (fst kv) gone))) S1 else S1.

Fixpoint remove_doomed (cfg : config) (p : N) (l : list N) (SS : session) : session * list delivery :=
  match l with
  | [] => (SS, [])
  | eid :: l' =>
      let S1 := set_ents (delete eid) (set_store (store_delete_entity eid) SS) in
      let o := if flag_on cfg F_ENTITY_DELETE_B then [] else broadcast S1 p (MEntityDeleteB 0 eid) in
      let '(S2, o2) := remove_doomed cfg p l' S1 in
      (S2, o ++ o2)
  end.

Definition leave (cfg : config) (st : state) (c : N) : state * list delivery :=
  match conns st !! c with
  | None => (st, [])
  | Some cn =>
    match c_cur cn with
    | None => (st, [])
    | Some (sid, p) =>
      match sessions st !! sid with
      | None => (upd_conn c (set_cur None) st, [])
      | Some SS =>
        let S1 := module_disconnect cfg (c_own cn) SS in
        let S2 := set_store (store_set_subs (fmap (λ s : gset N, s ∖ {[p]}))) S1 in
        let '(S3, o1) := remove_doomed cfg p (doomed S2 (c_own cn)) S2 in
        let S4 := set_parts (delete p) (set_frames (λ f, f ∖ {[c]}) S3) in
        let o2 := if flag_on cfg F_LEAVE_B then [] else broadcast S4 p (MLeaveB p) in
        let st1 := upd_conn c (λ cn, set_own (λ _, ∅) (set_cur None cn)) st in
        let st2 :=
          if decide (s_parts S4 = ∅) then
            {| sessions := delete sid (sessions st1); sids := gen_reuse sid (sids st1);
               next_uuid := next_uuid st1; next_ping := next_ping st1; conns := conns st1;
               receipts := receipts st1; gauge := (gauge st1 - 1)%Z |}
          else set_sessions (<[sid := S4]>) st1 in
        (st2, o1 ++ o2)
      end
    end
  end.

(* ---------- join ---------- *)
Definition session_state_msg (SS : session) : msg :=
  MSessionState (map fst (map_to_list (s_parts SS))) (ents_pb SS) (store_list_all (s_store SS)).

Definition module_join_msgs (cfg : config) (c : N) (SS : session) : list delivery :=
  (if cfg_vikja cfg then [(c, MVikjaState (map snd (map_to_list (s_actions SS))))] else []) ++
  (if cfg_odal cfg then [(c, MOdalState (map snd (map_to_list (s_assets SS))))] else []).

(* a fresh session under a new (or recycled) numeric id *)
Definition create_session (hint : N) (st : state) : N * state :=
  let '(n, g) := gen_new hint (sids st) in
  let uuid := next_uuid st + 1 in
  (n, {| sessions := <[n := session0 uuid]> (sessions st); sids := g;
         next_uuid := uuid; next_ping := next_ping st; conns := conns st;
         receipts := receipts st; gauge := (gauge st + 1)%Z |}).

(* connection [c] (in no session) becomes a participant of the registered session [n] *)
Definition enter (cfg : config) (st : state) (c rid n ots : N) : hres :=
  match sessions st !! n with
  | None => (st, [], VSkip) (* unreachable *)
  | Some SS =>
    let p := u32_succ (s_pgen SS) in
    let S1 := set_frames (λ f, f ∪ {[c]}) (set_parts (<[p := c]>) (set_pgen p SS)) in
    let oj := [(c, MJoinResp rid n (s_uuid S1) p)] in
    let os := if flag_on cfg F_SESSION_STATE then [] else [(c, session_state_msg S1)] in
    let ob := if flag_on cfg F_JOIN_B then [] else broadcast S1 p (MJoinB ots p) in
    let st3 := set_sessions (<[n := S1]>) st in
    let st4 := upd_conn c (λ cn, set_lat None (set_own (λ _, ∅) (set_cur (Some (n, p)) cn))) st3 in
    (st4, oj ++ os ++ ob ++ module_join_msgs cfg c S1, VOk)
  end.

Definition already_joined (cn : conn) (sid : sidspec) : bool :=
  match c_cur cn, sid with
  | Some (cur, _), SId n => bool_decide (cur = n)
  | _, _ => false
  end.

Definition join (cfg : config) (st : state) (c : N) (rid : N) (sid : sidspec) (ots hint : N) : hres :=
  match conns st !! c with
  | None => (st, [], VSkip)
  | Some cn =>
    if already_joined cn sid then
      (* still joined: the modules then answer the join message again *)
      let mo := match c_cur cn with
                | Some (cur, _) => match sessions st !! cur with
                                   | Some SS => module_join_msgs cfg c SS | None => [] end
                | None => [] end in
      (st, (c, MError rid E_ALREADY_JOINED) :: mo, VOk)
    else
      let '(st1, o1) := leave cfg st c in
      match sid with
      | SJunk _ => (st1, o1 ++ [(c, MError rid E_NOT_FOUND)], VOk)
      | SId n =>
          match sessions st1 !! n with
          | None => (st1, o1 ++ [(c, MError rid E_NOT_FOUND)], VOk)
          | Some _ => let '(st2, o2, v) := enter cfg st1 c rid n ots in (st2, o1 ++ o2, v)
          end
      | SNew =>
          let '(n, st2) := create_session hint st1 in
          let '(st3, o2, v) := enter cfg st2 c rid n ots in (st3, o1 ++ o2, v)
      end
  end.

(* ---------- signed latency ---------- *)
Definition send_ping (st : state) (c : N) (l : latency) : state * latency * list delivery :=
  let id := next_ping st + 1 in
  ({| sessions := sessions st; sids := sids st; next_uuid := next_uuid st; next_ping := id;
      conns := conns st; receipts := receipts st; gauge := gauge st |},
   {| l_rid := l_rid l; l_iter := l_iter l; l_pings := l_pings l ++ [(id, false)];
      l_uuid := l_uuid l; l_client := l_client l; l_wallet := l_wallet l |},
   [(c, MPingReq id)]).

Definition on_ping (st : state) (c : N) (cn : conn) (rid : N) : hres :=
  match c_lat cn with
  | None => (st, [(c, MError rid E_INTERNAL)], VOk)
  | Some l =>
    match list_find (λ ib, fst ib = rid) (l_pings l) with
    | None => (st, [(c, MError rid E_INTERNAL)], VOk)
    | Some (_, (_, true)) => (st, [(c, MError rid E_INTERNAL)], VOk)      (* already answered *)
    | Some (i, (_, false)) =>
      let it := u32_pred (l_iter l) in
      let l1 := {| l_rid := l_rid l; l_iter := it; l_pings := <[i := (rid, true)]> (l_pings l);
                   l_uuid := l_uuid l; l_client := l_client l; l_wallet := l_wallet l |} in
      if 0 <? it then
        let '(st1, l2, o) := send_ping st c l1 in
        (upd_conn c (set_lat (Some l2)) st1, o, VOk)
      else
        (upd_conn c (set_lat (Some l1)) st,
         [(c, MSignedLatencyResp (l_rid l1) (N.of_nat (length (l_pings l1))) (map fst (l_pings l1))
                                 (l_uuid l1) (l_client l1) (l_wallet l1) true true)], VOk)
    end
  end.

(* ---------- request handling for a connection that is in a session ---------- *)
Definition put_session (st : state) (sid : N) (SS : session) : state := set_sessions (<[sid := SS]>) st.

Definition cleanup_modules (cfg : config) (eid : N) (SS : session) : session :=
  (* vikja/odal handleEntityDelete: runs after the core handler, also after a refusal *)
  match s_ents SS !! eid with
  | Some _ => SS
  | None =>
    let S1 := if cfg_vikja cfg then set_actions (filter (λ kv, fst (fst kv) ≠ eid)) SS else SS in
    if cfg_odal cfg then set_assets (delete eid) S1 else S1
  end.

Definition is_Some_b {A} (o : option A) : bool := match o with Some _ => true | None => false end.
Definition ts_before (a b : option Z) : bool :=
  match a, b with Some x, Some y => (x <? y)%Z | _, _ => false end.

Definition handle_joined (cfg : config) (st : state) (c : N) (cn : conn) (sid p : N) (SS : session)
    (r : req) (hint : N) : hres :=
  match r with
  | RPing rid => (st, [(c, MPingResp rid)], VOk)
  | RPingResp rid => on_ping st c cn rid
  | RSignedLatency rid n wallet =>
      if (n <? lat_min) || (lat_max <? n) then (st, [(c, MError rid E_BAD_REQUEST)], VOk)
      else if wallet =? 0 then (st, [(c, MError rid E_BAD_REQUEST)], VOk)
      else
        let l := {| l_rid := rid; l_iter := n; l_pings := []; l_uuid := s_uuid SS; l_client := c;
                    l_wallet := wallet |} in
        let '(st1, l1, o) := send_ping st c l in
        (upd_conn c (set_lat (Some l1)) st1, o, VOk)
  | RJoin rid s ots => join cfg st c rid s ots hint
  | REntityAdd rid persist flag po ots =>
      let eid := u32_succ (s_egen SS) in
      let e := {| e_owner := p; e_persist := persist; e_flag := flag;
                  e_pose := default zero_pose po |} in
      let S1 := set_ents (<[eid := e]>) (set_egen eid SS) in
      let ob := if flag_on cfg F_ENTITY_ADD_B then []
                else broadcast S1 p (MEntityAddB ots (ent_to_pb eid e)) in
      (upd_conn c (set_own (λ o, o ∪ {[eid]})) (put_session st sid S1),
       (c, MEntityAddResp rid eid) :: ob, VOk)
  | REntityDelete rid eid ots =>
      match s_ents SS !! eid with
      | None =>
          (put_session st sid (cleanup_modules cfg eid SS), [(c, MError rid E_NOT_FOUND)], VOk)
      | Some e =>
          if negb (e_owner e =? p) then (st, [(c, MError rid E_UNAUTHORIZED)], VOk)
          else
            let S1 := set_ents (delete eid) (set_store (store_delete_entity eid) SS) in
            let ob := if flag_on cfg F_ENTITY_DELETE_B then []
                      else broadcast S1 p (MEntityDeleteB ots eid) in
            (upd_conn c (set_own (λ o, o ∖ {[eid]})) (put_session st sid (cleanup_modules cfg eid S1)),
             (c, MEntityDeleteResp rid) :: ob, VOk)
      end
  | RPose eid po ots =>
      match s_ents SS !! eid, po with
      | Some e, Some ps =>
          if negb (e_owner e =? p) then (st, [], VOk)
          else
            let e1 := {| e_owner := e_owner e; e_persist := e_persist e; e_flag := e_flag e;
                         e_pose := ps |} in
            let S1 := set_ents (<[eid := e1]>) SS in
            let ob := if flag_on cfg F_POSE_B then [] else broadcast S1 p (MPoseB ots eid ps) in
            (put_session st sid S1, ob, VOk)
      | _, _ => (st, [], VOk)
      end
  | RCustom rcpts body ots =>
      if custom_max <? N.of_nat (length body) then (st, [(c, MError 0 E_TOO_LARGE)], VOk)
      else if flag_on cfg F_CUSTOM_B then (st, [], VOk)
      else
        let m := MCustomB ots p body in
        (st, match rcpts with [] => broadcast SS p m | _ => broadcast_to SS p rcpts m end, VOk)
  | RTypeAdd rid name =>
      if name =? 0 then (st, [(c, MError rid E_BAD_REQUEST)], VOk)
      else
        let '(tid, s1) := store_add_type name (s_store SS) in
        (put_session st sid (set_store (λ _, s1) SS), [(c, MTypeAddResp rid tid)], VOk)
  | RGetName rid tid =>
      if tid =? 0 then (st, [(c, MError rid E_BAD_REQUEST)], VOk)
      else match st_names (s_store SS) !! tid with
           | Some name => (st, [(c, MGetNameResp rid name)], VOk)
           | None => (st, [(c, MError rid E_NOT_FOUND)], VOk)
           end
  | RGetId rid name =>
      if name =? 0 then (st, [(c, MError rid E_BAD_REQUEST)], VOk)
      else match st_ids (s_store SS) !! name with
           | Some tid => (st, [(c, MGetIdResp rid tid)], VOk)
           | None => (st, [(c, MError rid E_NOT_FOUND)], VOk)
           end
  | RCompAdd rid tid eid data ots =>
      if (tid =? 0) || (eid =? 0) then (st, [(c, MError rid E_BAD_REQUEST)], VOk)
      else match s_ents SS !! eid with
      | None => (st, [(c, MError rid E_NOT_FOUND)], VOk)
      | Some _ =>
        match st_names (s_store SS) !! tid with
        | None => (st, [(c, MError rid E_NOT_FOUND)], VOk)
        | Some _ =>
          match st_comps (s_store SS) !! (tid, eid) with
          | Some _ => (st, [(c, MError rid E_CONFLICT)], VOk)
          | None =>
            let S1 := set_store (store_set_comps (<[(tid, eid) := data]>)) SS in
            let ob := if flag_on cfg F_COMP_ADD_B then []
                      else if decide (subs_of (s_store SS) tid = ∅) then []
                      else broadcast S1 p (MCompAddB ots {| cp_tid := tid; cp_eid := eid; cp_data := data |}) in
            (put_session st sid S1, (c, MCompAddResp rid) :: ob, VOk)
          end
        end
      end
  | RCompDelete rid tid eid ots =>
      if (tid =? 0) || (eid =? 0) then (st, [(c, MError rid E_BAD_REQUEST)], VOk)
      else match s_ents SS !! eid with
      | None => (st, [(c, MError rid E_NOT_FOUND)], VOk)
      | Some _ =>
        match st_comps (s_store SS) !! (tid, eid) with
        | None => (st, [(c, MError rid E_NOT_FOUND)], VOk)
        | Some _ =>
          let S1 := set_store (store_set_comps (delete (tid, eid))) SS in
          let ob := if flag_on cfg F_COMP_DELETE_B then []
                    else if decide (subs_of (s_store SS) tid = ∅) then []
                    else broadcast S1 p (MCompDeleteB ots tid eid) in
          (put_session st sid S1, ob ++ [(c, MCompDeleteResp rid)], VOk)
        end
      end
  | RCompUpdate tid eid data ots =>
      if (tid =? 0) || (eid =? 0) then (st, [], VOk)
      else match s_ents SS !! eid, st_comps (s_store SS) !! (tid, eid) with
      | Some _, Some _ =>
          let S1 := set_store (store_set_comps (<[(tid, eid) := data]>)) SS in
          let ob := if flag_on cfg F_COMP_UPDATE_B then []
                    else if decide (subs_of (s_store SS) tid = ∅) then []
                    else broadcast_to S1 p (set_to_sorted (subs_of (s_store SS) tid))
                           (MCompUpdateB ots {| cp_tid := tid; cp_eid := eid; cp_data := data |}) in
          (put_session st sid S1, ob, VOk)
      | _, _ => (st, [], VOk)
      end
  | RCompList rid tid =>
      if tid =? 0 then (st, [(c, MError rid E_BAD_REQUEST)], VOk)
      else (st, [(c, MCompListResp rid (store_list tid (s_store SS)))], VOk)
  | RSubscribe rid tid =>
      if tid =? 0 then (st, [(c, MError rid E_BAD_REQUEST)], VOk)
      else match st_names (s_store SS) !! tid with
      | None => (st, [(c, MError rid E_NOT_FOUND)], VOk)
      | Some _ =>
          let S1 := set_store (store_set_subs (λ m, <[tid := subs_of (s_store SS) tid ∪ {[p]}]> m)) SS in
          (put_session st sid S1, [(c, MSubResp rid)], VOk)
      end
  | RUnsubscribe rid tid =>
      if tid =? 0 then (st, [(c, MError rid E_BAD_REQUEST)], VOk)
      else
        let S1 := set_store (store_set_subs (λ m, match m !! tid with
                                                  | Some s => <[tid := s ∖ {[p]}]> m
                                                  | None => m end)) SS in
        (put_session st sid S1, [(c, MUnsubResp rid)], VOk)
  | RReceipt rid rc hs sg =>
      if (rc =? 0) || (hs =? 0) || (sg =? 0) then (st, [(c, MError rid E_BAD_REQUEST)], VErr)
      else if N.of_nat (length (receipts st)) <? receipt_cap then
        ({| sessions := sessions st; sids := sids st; next_uuid := next_uuid st;
            next_ping := next_ping st; conns := conns st;
            receipts := receipts st ++ [(rc, hs, sg)]; gauge := gauge st |},
         [(c, MReceiptResp rid)], VOk)
      else (st, [(c, MError rid E_TOO_BUSY)], VErr)
  | RAction rid ao ots =>
      if negb (cfg_vikja cfg) then (st, [], VOk)
      else match ao with
      | None => (st, [(c, MError rid E_BAD_REQUEST)], VOk)
      | Some a =>
        if (a_name a =? 0) || negb (is_Some_b (a_ts a)) then (st, [(c, MError rid E_BAD_REQUEST)], VOk)
        else match s_ents SS !! a_eid a with
        | None => (st, [(c, MError rid E_BAD_REQUEST)], VOk)
        | Some _ =>
          let old := s_actions SS !! (a_eid a, a_name a) in
          if match old with Some o => ts_before (a_ts a) (a_ts o) | None => false end
          then (st, [(c, MError rid E_BAD_REQUEST)], VOk)
          else
            let S1 := set_actions (<[(a_eid a, a_name a) := a]>) SS in
            (put_session st sid S1, (c, MActionResp rid) :: broadcast S1 p (MActionB ots a), VOk)
        end
      end
  | RAssetAdd rid eid asset_id ots =>
      if negb (cfg_odal cfg) then (st, [], VOk)
      else if asset_id =? 0 then (st, [(c, MError rid E_BAD_REQUEST)], VOk)
      else match s_ents SS !! eid with
      | None => (st, [(c, MError rid E_NOT_FOUND)], VOk)
      | Some e =>
        if negb (e_owner e =? p) then (st, [(c, MError rid E_UNAUTHORIZED)], VOk)
        else
          let iid := u32_succ (s_agen SS) in
          let a := {| as_id := iid; as_asset := asset_id; as_pid := p; as_eid := eid |} in
          let S1 := set_assets (<[eid := a]>) (set_agen iid SS) in
          (put_session st sid S1, (c, MAssetAddResp rid iid) :: broadcast S1 p (MAssetAddB ots a), VOk)
      end
  | RDagazSample _ => (st, [], VOk)
  | RDagazQuery kind rid =>
      if cfg_dagaz cfg then (st, [(c, MDagazResp (kind + 1) rid)], VOk) else (st, [], VOk)
  | RUndecodable ty =>
      if memN ty [3; 8; 16; 18; 22; 40; 42] then (st, [], VErr)
      else if (ty =? 101) && cfg_vikja cfg then (st, [], VErr)
      else if (ty =? 201) && cfg_odal cfg then (st, [], VErr)
      else if memN ty [300; 301; 303] && cfg_dagaz cfg then (st, [], VErr)
      else (st, [], VOk)
  | RUnknown _ => (st, [], VOk)
  end.

(* ---------- request handling for a connection that is in no session ---------- *)
Definition handle_unjoined (cfg : config) (st : state) (c : N) (cn : conn) (r : req) (hint : N) : hres :=
  match r with
  | RPing rid => (st, [(c, MPingResp rid)], VOk)
  | RPingResp rid => (st, [(c, MError rid E_UNAUTHORIZED)], VOk)
  | RSignedLatency rid _ _ => (st, [(c, MError rid E_UNAUTHORIZED)], VOk)
  | RJoin rid s ots => join cfg st c rid s ots hint
  | REntityAdd _ _ _ _ _ | REntityDelete _ _ _ | RPose _ _ _ | RCustom _ _ _ => (st, [], VErr)
  | RTypeAdd rid name =>
      if name =? 0 then (st, [(c, MError rid E_BAD_REQUEST)], VOk) else (st, [], VErr)
  | RGetName rid tid =>
      if tid =? 0 then (st, [(c, MError rid E_BAD_REQUEST)], VOk) else (st, [], VErr)
  | RGetId rid name =>
      if name =? 0 then (st, [(c, MError rid E_BAD_REQUEST)], VOk) else (st, [], VErr)
  | RCompAdd rid tid eid _ _ | RCompDelete rid tid eid _ =>
      if (tid =? 0) || (eid =? 0) then (st, [(c, MError rid E_BAD_REQUEST)], VOk) else (st, [], VErr)
  | RCompUpdate tid eid _ _ =>
      if (tid =? 0) || (eid =? 0) then (st, [], VOk) else (st, [], VErr)
  | RCompList rid tid | RSubscribe rid tid | RUnsubscribe rid tid =>
      if tid =? 0 then (st, [(c, MError rid E_BAD_REQUEST)], VOk) else (st, [], VErr)
  | RReceipt rid rc hs sg =>
      if (rc =? 0) || (hs =? 0) || (sg =? 0) then (st, [(c, MError rid E_BAD_REQUEST)], VErr)
      else if N.of_nat (length (receipts st)) <? receipt_cap then
        ({| sessions := sessions st; sids := sids st; next_uuid := next_uuid st;
            next_ping := next_ping st; conns := conns st;
            receipts := receipts st ++ [(rc, hs, sg)]; gauge := gauge st |},
         [(c, MReceiptResp rid)], VOk)
      else (st, [(c, MError rid E_TOO_BUSY)], VErr)
  (* module requests from an unjoined connection are never offered to a module *)
  | RAction _ _ _ | RAssetAdd _ _ _ _ | RDagazSample _ | RDagazQuery _ _ => (st, [], VOk)
  | RUndecodable ty => if memN ty [3; 8; 16; 18; 22; 40; 42] then (st, [], VErr) else (st, [], VOk)
  | RUnknown _ => (st, [], VOk)
  end.

(* handleMessage for connection [c] (open, present) *)
Definition handle (cfg : config) (st : state) (c : N) (r : req) (hint : N) : hres :=
  match conns st !! c with
  | None => (st, [], VSkip)
  | Some cn =>
    match c_cur cn with
    | Some (sid, p) =>
      match sessions st !! sid with
      | Some SS => handle_joined cfg st c cn sid p SS r hint
      | None => (st, [], VSkip) (* unreachable: a joined connection's session is registered *)
      end
    | None => handle_unjoined cfg st c cn r hint
    end
  end.

(* the connection ends: leave the session if in one, close *)
Definition disconnect (cfg : config) (st : state) (c : N) : state * list delivery :=
  let '(st1, o) := leave cfg st c in
  (upd_conn c (λ cn, set_queue [] (set_open false cn)) st1, o).

(* scheduler.Dispatch *)
Definition dispatch (cfg : config) (st : state) (c : N) (r : req) : hres :=
  match conns st !! c with
  | None => (st, [], VSkip)
  | Some cn =>
    if negb (c_open cn) then (st, [], VSkip)
    else match r with
    | RPose eid _ _ => (upd_conn c (λ cn, set_pending (<[eid := r]> (c_pposes cn)) (c_pcomps cn) cn) st, [], VOk)
    | RCompUpdate tid eid _ _ =>
        (upd_conn c (λ cn, set_pending (c_pposes cn) (<[(tid, eid) := r]> (c_pcomps cn)) cn) st, [], VOk)
    | _ =>
        if match r with RUndecodable ty => ty =? 14 | _ => false end then
          (* decoding fails in the receiver goroutine: the connection is ended *)
          let '(st1, o) := disconnect cfg st c in (st1, o, VErr)
        else (upd_conn c (λ cn, set_queue (c_queue cn ++ [r]) cn) st, [], VOk)
    end
  end.

(* scheduler.HandleFrame for one connection: pending poses (ascending entity id),
   then pending component updates (ascending key), appended to the queue *)
Definition flush (cn : conn) : conn :=
  let ps := map snd (sort_by (λ kv, [zn (fst kv)]) (map_to_list (c_pposes cn))) in
  let cs := map snd (sort_by (λ kv, [zn (fst (fst kv)); zn (snd (fst kv))]) (map_to_list (c_pcomps cn))) in
  set_pending ∅ ∅ (set_queue (c_queue cn ++ ps ++ cs) cn).

Definition tick (st : state) (sid : N) : state :=
  match sessions st !! sid with
  | None => st
  | Some SS => set_conns (λ m, set_fold (λ c m, match m !! c with
                                                | Some cn => <[c := flush cn]> m
                                                | None => m end) m (s_frames SS)) st
  end.

(* ---------- snapshot ---------- *)
Definition dump_session (sid : N) (SS : session) : sdump :=
  {| d_sid := sid; d_uuid := s_uuid SS;
     d_parts := map fst (map_to_list (s_parts SS));
     d_ents := map (λ kv, (ent_to_pb (fst kv) (snd kv), e_persist (snd kv))) (map_to_list (s_ents SS));
     d_types := map_to_list (st_names (s_store SS));
     d_comps := store_list_all (s_store SS);
     d_subs := flat_map (λ ts, map (λ p, (fst ts, p)) (elements (snd ts))) (map_to_list (st_subs (s_store SS)));
     d_actions := map snd (map_to_list (s_actions SS));
     d_assets := map snd (map_to_list (s_assets SS));
     d_frames := N.of_nat (size (s_frames SS)) |}.

Definition snapshot (st : state) : msg :=
  MSnap (map (λ kv, dump_session (fst kv) (snd kv)) (map_to_list (sessions st)))
        (gauge st)
        (omap (λ kv, if c_open (snd kv)
                     then Some (fst kv, N.of_nat (length (c_queue (snd kv)))) else None)
              (map_to_list (conns st))).

(* ---------- the step function ---------- *)
Definition step (cfg : config) (st : state) (o : op) : hres :=
  match o with
  | OConnect c =>
      match conns st !! c with
      | Some _ => (st, [], VSkip)
      | None => (set_conns (<[c := conn0]>) st, [], VOk)
      end
  | OSend c r => dispatch cfg st c r
  | OStep c hint =>
      match conns st !! c with
      | None => (st, [], VSkip)
      | Some cn =>
        if negb (c_open cn) then (st, [], VSkip)
        else match c_queue cn with
        | [] => (st, [], VSkip)
        | r :: q =>
          let st0 := upd_conn c (set_queue q) st in
          let '(st1, o1, v) := handle cfg st0 c r hint in
          match v with
          | VErr => let '(st2, o2) := disconnect cfg st1 c in (st2, o1 ++ o2, VErr)
          | _ => (st1, o1, v)
          end
        end
      end
  | OTick sid => (tick st sid, [], VOk)
  | ODisconnect c =>
      match conns st !! c with
      | None => (st, [], VSkip)
      | Some cn =>
        if negb (c_open cn) then (st, [], VSkip)
        else let '(st1, o) := disconnect cfg st c in (st1, o, VOk)
      end
  | OSnap => (st, [(0, snapshot st)], VOk)
  end.

(* the request an [OStep] consumes in state [st] *)
Definition consumed (st : state) (o : op) : option req :=
  match o with
  | OStep c _ => match conns st !! c with
                 | Some cn => if c_open cn then head (c_queue cn) else None
                 | None => None end
  | _ => None
  end.

Fixpoint run_from (cfg : config) (st : state) (h : list op) : trace * state :=
  match h with
  | [] => ([], st)
  | o :: h' =>
      let '(st1, outs, v) := step cfg st o in
      let '(t, st2) := run_from cfg st1 h' in
      ({| ev_op := o; ev_req := consumed st o; ev_outs := outs; ev_verdict := v |} :: t, st2)
  end.
Definition run (cfg : config) (h : list op) : trace := fst (run_from cfg state0 h).
Definition final (cfg : config) (h : list op) : state := snd (run_from cfg state0 h).

(* ConcView.v — the concurrent clause of C01 (replicated views) and C02 (every accepted change relayed exactly once).
   Executable definitions only, no proofs.

   Part 1 (the judge of real executions, extracted to oracle/concview).  harness/l3v runs the real handlers under a
   controlled schedule and reports, for every connection, the ordered stream of what it was sent and of its own
   requests, and a hook snapshot of every session when the race starts and at quiescence.  A connection's VIEW is
   the fold of its stream with the SAME functions P_C01 uses in a sequential history (Preds2.v): [view_init] for the
   join answer and the states handed on joining, [view_recv] for a broadcast, [view_own] for what the requester
   learns from the answer to its own request.  At quiescence the view is compared with the snapshot of its
   session exactly as P_C01 does at an OSnap (codes 101 participants, 102 entities, 103 components of synced types,
   104 entity actions, 107 asset instances).

   Two client disciplines are judged:
     strict  (the letter of C01: "the state handed to it on joining, updated by every broadcast it has received
              SINCE"): a broadcast that arrives before the SessionState / VikjaState / OdalState is overwritten by it;
     lenient (the most forgiving client we can think of): what arrives between the join RESPONSE and the states
              handed on joining is buffered and applied after them, what arrives between the join request and the
              join response is ignored ([hoist]), and a broadcast that cannot be applied
              when it arrives and would create or change something (an action of an unknown entity, an update of an
              unknown component, ...) is dropped instead of being applied anyway; removals are idempotent.
   A finding that survives the lenient discipline cannot be blamed on the client.

   Part 2 (the small interleaving model of the racing micro-programs) is at the end of the file. *)
From hagall Require Export Preds2.

Inductive item :=
| IRecv (m : msg)      (* the connection was sent m *)
| IOwn (r : req)       (* its own request: issued (request with an answer) / applied by the server (fire and forget) *)
| ILeft                (* it disconnected *)
| IRace.               (* the race starts here *)

Record cst := {
  c_view : option view;
  c_uuid : N;
  c_pend : option req;          (* own request not yet answered *)
  c_inappl : list msg;          (* broadcasts that could not be applied *)
  c_raced : bool;
  c_at_race : option view;      (* the view when the race started *)
  c_uuid_race : N;
  c_race_req : option req;      (* the request issued in the race *)
  c_race_left : bool;           (* it disconnected in the race *)
  c_after : list msg            (* what it was sent since the race started *)
}.
Definition cst0 : cst :=
  {| c_view := None; c_uuid := 0; c_pend := None; c_inappl := []; c_raced := false; c_at_race := None; c_uuid_race := 0;
     c_race_req := None; c_race_left := false; c_after := [] |}.
Definition cset_view (f : option view → option view) (s : cst) : cst :=
  {| c_view := f (c_view s); c_uuid := c_uuid s; c_pend := c_pend s; c_inappl := c_inappl s; c_raced := c_raced s;
     c_at_race := c_at_race s; c_uuid_race := c_uuid_race s; c_race_req := c_race_req s; c_race_left := c_race_left s;
     c_after := c_after s |}.
Definition cset_pend (p : option req) (s : cst) : cst :=
  {| c_view := c_view s; c_uuid := c_uuid s; c_pend := p; c_inappl := c_inappl s; c_raced := c_raced s;
     c_at_race := c_at_race s; c_uuid_race := c_uuid_race s; c_race_req := c_race_req s; c_race_left := c_race_left s;
     c_after := c_after s |}.
Definition cset_uuid (u : N) (s : cst) : cst :=
  {| c_view := c_view s; c_uuid := u; c_pend := c_pend s; c_inappl := c_inappl s; c_raced := c_raced s;
     c_at_race := c_at_race s; c_uuid_race := c_uuid_race s; c_race_req := c_race_req s; c_race_left := c_race_left s;
     c_after := c_after s |}.
Definition cadd_inappl (m : msg) (s : cst) : cst :=
  {| c_view := c_view s; c_uuid := c_uuid s; c_pend := c_pend s; c_inappl := c_inappl s ++ [m]; c_raced := c_raced s;
     c_at_race := c_at_race s; c_uuid_race := c_uuid_race s; c_race_req := c_race_req s; c_race_left := c_race_left s;
     c_after := c_after s |}.
Definition cadd_after (m : msg) (s : cst) : cst :=
  {| c_view := c_view s; c_uuid := c_uuid s; c_pend := c_pend s; c_inappl := c_inappl s; c_raced := c_raced s;
     c_at_race := c_at_race s; c_uuid_race := c_uuid_race s; c_race_req := c_race_req s; c_race_left := c_race_left s;
     c_after := c_after s ++ [m] |}.
Definition cset_race (raced : bool) (at_race : option view) (u : N) (rr : option req) (left : bool) (s : cst) : cst :=
  {| c_view := c_view s; c_uuid := c_uuid s; c_pend := c_pend s; c_inappl := c_inappl s; c_raced := raced;
     c_at_race := at_race; c_uuid_race := u; c_race_req := rr; c_race_left := left; c_after := c_after s |}.

Definition is_state_msg (m : msg) : bool :=
  match m with MSessionState _ _ _ | MVikjaState _ | MOdalState _ => true | _ => false end.

(* a state handed on joining replaces the part of the view it describes; computed by [view_init] *)
Definition view_state (v : view) (m : msg) : view :=
  let vi := view_init (v_sid v) (v_pid v) [m] in
  match m with
  | MSessionState _ _ _ => vset_comps (λ _, v_comps vi) (vset_ents (λ _, v_ents vi) (vset_parts (λ _, v_parts vi) v))
  | MVikjaState _ => vset_acts (λ _, v_acts vi) v
  | MOdalState _ => vset_assets (λ _, v_assets vi) v
  | _ => v
  end.

Definition is_removal (m : msg) : bool :=
  match m with MLeaveB _ | MEntityDeleteB _ _ | MCompDeleteB _ _ _ => true | _ => false end.

(* the pending own request this message answers *)
Definition answered (p : option req) (m : msg) : option req :=
  match p, msg_rid m with
  | Some r, Some rid => if bool_decide (req_rid r = Some rid) then Some r else None
  | _, _ => None
  end.

Definition recv (lenient : bool) (s : cst) (m : msg) : cst :=
  let s := if c_raced s then cadd_after m s else s in
  match m with
  | MJoinResp _ sid uuid pid => cset_pend None (cset_uuid uuid (cset_view (λ _, Some (view_init sid pid [])) s))
  | _ =>
      match c_view s with
      | None => match answered (c_pend s) m with Some _ => cset_pend None s | None => s end
      | Some v =>
          if is_state_msg m then cset_view (λ _, Some (view_state v m)) s
          else match answered (c_pend s) m with
               | Some r => cset_pend None (cset_view (λ _, Some (view_own v r [m])) s)
               | None => let '(ok, v') := view_recv v m in
                         if ok then cset_view (λ _, Some v') s
                         else cadd_inappl m (if lenient && negb (is_removal m) then s else cset_view (λ _, Some v') s)
               end
      end
  end.

Definition own (s : cst) (r : req) : cst :=
  let s := if c_raced s && negb (is_Some_b (c_race_req s)) && negb (c_race_left s)
           then cset_race true (c_at_race s) (c_uuid_race s) (Some r) false s else s in
  match r with
  | RCompUpdate _ _ _ _ | RPose _ _ _ => cset_view (option_map (λ v, view_own v r [])) s
  | RSubscribe _ tid =>
      (* whether the view's copy of this type is current is not known to the connection alone: a subscription
         counts as synced only after a list (the conservative reading of DESIGN.md §4 item 3) *)
      cset_pend (Some r) (cset_view (option_map (λ v, vset_sync (v_subd v) (v_synced v) (v_dirty v ∪ {[tid]}) v)) s)
  | _ => cset_pend (Some r) s
  end.

Definition step_item (lenient : bool) (s : cst) (i : item) : cst :=
  match i with
  | IRecv m => recv lenient s m
  | IOwn r => own s r
  | ILeft =>
      let s := cset_pend None (cset_view (λ _, None) s) in
      if c_raced s && negb (is_Some_b (c_race_req s))
      then cset_race true (c_at_race s) (c_uuid_race s) None true s else s
  | IRace => cset_race true (c_view s) (c_uuid s) None false s
  end.

(* the lenient client: per join episode, the answers that hand state come first *)
Definition is_join_own (i : item) : bool := match i with IOwn (RJoin _ _ _) | ILeft => true | _ => false end.
Definition is_init_item (i : item) : bool :=
  match i with IRecv (MJoinResp _ _ _ _) => true | IRecv m => is_state_msg m | _ => false end.
Definition is_join_resp (i : item) : bool := match i with IRecv (MJoinResp _ _ _ _) => true | _ => false end.
(* [seen]: the join response of the episode has arrived.  What the connection is sent between its join request and
   the join response is dropped: for a connection that moves from one session to another those are broadcasts of the
   session it is leaving (broadcasts carry no session id); for a first join they are changes the server made before it
   computed the states it hands over next, which therefore already contain them *)
Fixpoint hoist_go (seen : bool) (l pre states others : list item) : list item :=
  match l with
  | [] => pre ++ states ++ others
  | i :: l' =>
      if is_join_own i then hoist_go false l' (pre ++ states ++ others ++ [i]) [] []
      else if is_init_item i then hoist_go (seen || is_join_resp i) l' pre (states ++ [i]) others
      else match i with
           | IRecv _ => if seen then hoist_go seen l' pre states (others ++ [i]) else hoist_go seen l' pre states others
           | _ => hoist_go seen l' pre states (others ++ [i])
           end
  end.
Definition hoist (l : list item) : list item := hoist_go true l [] [] [].

Definition run_conn (lenient : bool) (its : list item) : cst :=
  fold_left (step_item lenient) (if lenient then hoist its else its) cst0.

(* ---------- clause 1 (C01): at quiescence every view equals the server's state ---------- *)
Definition find_dump (sid uuid : N) (ds : list sdump) : option sdump :=
  head (List.filter (λ d, (d_sid d =? sid) && (d_uuid d =? uuid)) ds).

(* the comparison of P_C01_event item 4, verbatim *)
Definition cmp_view (vik od : bool) (c : N) (v : view) (dd : sdump) : list violation :=
  okv 0 (bool_decide (sortN (elements (v_parts v)) = d_parts dd)) 101 [zn c; zn (d_sid dd)] ++
  okv 0 (bool_decide (sort_by eEnt (map snd (map_to_list (v_ents v))) = map fst (d_ents dd))) 102 [zn c; zn (d_sid dd)] ++
  okv 0 (bool_decide (sort_by eComp (omap (λ kv : (N*N) * N, if bool_decide (fst (fst kv) ∈ v_synced v)
             then Some {| cp_tid := fst (fst kv); cp_eid := snd (fst kv); cp_data := snd kv |} else None) (map_to_list (v_comps v)))
           = List.filter (λ x, bool_decide (cp_tid x ∈ v_synced v)) (d_comps dd))) 103 [zn c; zn (d_sid dd)] ++
  (if vik then okv 0 (bool_decide (sort_by eAction (map snd (map_to_list (v_acts v))) = d_actions dd)) 104 [zn c; zn (d_sid dd)] else []) ++
  (if od then okv 0 (bool_decide (sort_by eAsset (map snd (map_to_list (v_assets v))) = d_assets dd)) 107 [zn c; zn (d_sid dd)] else []).

Definition conn_states (lenient : bool) (streams : list (N * list item)) : list (N * cst) :=
  map (λ cs : N * list item, (fst cs, run_conn lenient (snd cs))) streams.

Definition views_of (sts : list (N * cst)) (post : list sdump) : list violation :=
  (* every connection that holds a view: its session exists and the view equals it *)
  flat_map (λ cs : N * cst,
    match c_view (snd cs) with
    | None => []
    | Some v =>
        match find_dump (v_sid v) (c_uuid (snd cs)) post with
        | None => [viol 0 100 [zn (fst cs); zn (v_sid v)]]
        | Some d => cmp_view true true (fst cs) v (canon_dump d)
        end
    end) sts ++
  (* every participant of a session is a connection that holds a view of it *)
  flat_map (λ d : sdump,
    flat_map (λ p : N,
      if existsb (λ cs : N * cst, match c_view (snd cs) with
                                  | Some v => (v_sid v =? d_sid d) && (c_uuid (snd cs) =? d_uuid d) && (v_pid v =? p)
                                  | None => false end) sts
      then [] else [viol 0 111 [zn (d_sid d); zn p]]) (d_parts d)) post.

Definition views_at_quiescence (lenient : bool) (streams : list (N * list item)) (post : list sdump) : list violation :=
  views_of (conn_states lenient streams) post.

(* broadcasts that could not be applied when they arrived (a violation only in a sequential history) *)
Definition inapplicable (lenient : bool) (streams : list (N * list item)) : list violation :=
  flat_map (λ cs : N * cst, map (λ m, viol 0 106 [zn (fst cs); hd 0%Z (enc_msg m)]) (c_inappl (snd cs)))
           (conn_states lenient streams).

(* ---------- clause 2 (C02): every accepted change of the race is relayed exactly once ---------- *)
Definition has_comp (tid eid : N) (d : sdump) : bool := existsb (λ x, (cp_tid x =? tid) && (cp_eid x =? eid)) (d_comps d).
Definition owns_ent (eid pid : N) (d : sdump) : bool :=
  existsb (λ eb : ent_pb * bool, (ep_id (fst eb) =? eid) && (ep_owner (fst eb) =? pid)) (d_ents d).

(* the relay of request r, given its answers: (is this message the relay?, component type it concerns,
   is the request known to be accepted?) *)
Definition relay_of (pre post : option sdump) (pid : N) (r : req) (ans : list msg) : option ((msg → bool) * option N * bool) :=
  let both (f : sdump → bool) := match pre, post with Some a, Some b => f a && f b | _, _ => false end in
  match r with
  | REntityAdd rid _ _ _ _ =>
      match head (omap (λ m, match m with MEntityAddResp r' x => if r' =? rid then Some x else None | _ => None end) ans) with
      | Some eid => Some ((λ m, match m with MEntityAddB _ e => ep_id e =? eid | _ => false end), None, true)
      | None => None end
  | REntityDelete rid eid _ =>
      if existsb (λ m, match m with MEntityDeleteResp r' => r' =? rid | _ => false end) ans
      then Some ((λ m, match m with MEntityDeleteB _ e => e =? eid | _ => false end), None, true) else None
  | RCompAdd rid tid eid _ _ =>
      if existsb (λ m, match m with MCompAddResp r' => r' =? rid | _ => false end) ans
      then Some ((λ m, match m with MCompAddB _ x => (cp_tid x =? tid) && (cp_eid x =? eid) | _ => false end), Some tid, true) else None
  | RCompDelete rid tid eid _ =>
      if existsb (λ m, match m with MCompDeleteResp r' => r' =? rid | _ => false end) ans
      then Some ((λ m, match m with MCompDeleteB _ t e => (t =? tid) && (e =? eid) | _ => false end), Some tid, true) else None
  | RCompUpdate tid eid data _ =>
      Some ((λ m, match m with MCompUpdateB _ x => (cp_tid x =? tid) && (cp_eid x =? eid) && (cp_data x =? data) | _ => false end),
            Some tid, both (has_comp tid eid))
  | RPose eid (Some ps) ots =>
      Some ((λ m, match m with MPoseB o e _ => (e =? eid) && (o =? ots) | _ => false end), None, both (owns_ent eid pid))
  | RAction rid (Some a) _ =>
      if existsb (λ m, match m with MActionResp r' => r' =? rid | _ => false end) ans
      then Some ((λ m, match m with MActionB _ a' => bool_decide (a' = a) | _ => false end), None, true) else None
  | RAssetAdd rid _ _ _ =>
      match head (omap (λ m, match m with MAssetAddResp r' x => if r' =? rid then Some x else None | _ => None end) ans) with
      | Some iid => Some ((λ m, match m with MAssetAddB _ a => as_id a =? iid | _ => false end), None, true)
      | None => None end
  | _ => None
  end.

Definition touches_sub (tid : N) (r : option req) : bool :=
  match r with Some (RSubscribe _ t) | Some (RUnsubscribe _ t) => t =? tid | _ => false end.
Definition is_join_req (r : option req) : bool := match r with Some (RJoin _ _ _) => true | _ => false end.
Definition req_code (r : req) : Z := hd 0%Z (enc_req r).

Definition relayed_once (streams : list (N * list item)) (pre post : list sdump) : list violation :=
  let sts := conn_states false streams in
  flat_map (λ cs : N * cst,
    let '(c, s) := cs in
    match c_at_race s, c_race_req s with
    | Some vc, Some r =>
        let sid := v_sid vc in let uu := c_uuid_race s in
        match relay_of (find_dump sid uu pre) (find_dump sid uu post) (v_pid vc) r (c_after s) with
        | None => []
        | Some (is_relay, otid, sure) =>
            flat_map (λ ds : N * cst,
              let '(d, t) := ds in
              if d =? c then [] else
              let n := length (List.filter is_relay (c_after t)) in
              (* the members the relay is owed to: in the session when the race started, still there, and - for a
                 component change - synced on its type and not changing their subscription in the race *)
              let owed :=
                match c_at_race t, c_view t with
                | Some vd, Some _ =>
                    (v_sid vd =? sid) && (c_uuid_race t =? uu) && negb (c_race_left t) && negb (is_join_req (c_race_req t)) && sure &&
                    match otid with
                    | None => true
                    | Some tid => bool_decide (tid ∈ v_synced vd) && negb (touches_sub tid (c_race_req t))
                    end
                | _, _ => false
                end in
              (if owed && (n =? 0)%nat then [viol 0 201 [zn c; zn d; req_code r]] else []) ++
              (if (1 <? n)%nat then [viol 0 202 [zn c; zn d; req_code r; Z.of_nat n]] else [])) sts
        end
    | _, _ => []
    end) sts.

(* information only: the server's own state holds something attached to an entity that does not exist *)
Definition orphans (post : list sdump) : list violation :=
  flat_map (λ d : sdump,
    let has (e : N) := existsb (λ eb : ent_pb * bool, ep_id (fst eb) =? e) (d_ents d) in
    flat_map (λ x : comp_pb, if has (cp_eid x) then [] else [viol 0 120 [zn (d_sid d); 1%Z; zn (cp_eid x)]]) (d_comps d) ++
    flat_map (λ a : action, if has (a_eid a) then [] else [viol 0 120 [zn (d_sid d); 2%Z; zn (a_eid a)]]) (d_actions d) ++
    flat_map (λ a : asset, if has (as_eid a) then [] else [viol 0 120 [zn (d_sid d); 3%Z; zn (as_eid a)]]) (d_assets d)) post.

(* what the oracle prints for one execution: violations under the strict and under the lenient client, the relay
   clause, and (information only) the inapplicable broadcasts and the orphans of the server's state *)
Definition conc_judge (streams : list (N * list item)) (pre post : list sdump)
  : list violation * list violation * list violation * list violation :=
  (views_at_quiescence false streams post, views_at_quiescence true streams post, relayed_once streams pre post,
   inapplicable false streams ++ orphans post).

Definition dec_dump : list Z → option sdump := dec_all pDump.

(* ================= Part 2: a small interleaving model of the racing micro-programs =================

   One instruction = one critical section of the Go source (one lock acquisition of models / modules, as
   instrumented by tools/instrument) together with the lock-free code that follows it, exactly the atomic step of
   harness/l3v; the instruction lists below follow the acquisitions of the real handlers one to one (the check
   compares, for every stored witness, the model's instruction trace, the streams it produces and its final state
   with the real execution under the same schedule: [model_tie]).  One session (id 1), modules vikja and odal
   loaded, no feature flag.

     HandleParticipantJoin      JStart JGet JNewPID JAddP JFrame JFrameID(join answer) JParts JEnts JProto* JListAll(SessionState)
                                JBcast JModV JModO JVState(VikjaState) JOState(OdalState)
     HandleEntityDelete         DStart DFind DComps DRemove(answer) DBcast   then the modules: DVFind [DVRemove] DOFind [DORemove]
     HandleEntityAdd            AStart ANewID ASetPose AAdd(answer) AProto ABcast
     HandleEntityComponentUpdate UStart UFind UUpdate UNotify UBcast
     vikja handleSetEntityAction VStart VFind VGet VSet(answer) VBcast
     HandleEntityComponentAdd   CStart CFind CAdd(answer) CNotify CBcast                                              *)
Record locals := { l_pid : N; l_eid : N; l_parts : list N; l_ents : list ent_pb; l_subs : list N }.
Definition loc0 (pid : N) : locals := {| l_pid := pid; l_eid := 0; l_parts := []; l_ents := []; l_subs := [] |}.

Inductive instr :=
| JStart (rid ots : N) | JGet | JNewPID | JAddP | JFrame | JFrameID (rid : N) | JParts | JEnts | JProto (eid : N)
| JListAll | JBcast (ots : N) | JModV | JModO | JVState | JOState
| DStart (rid eid ots : N) | DFind (eid : N) | DComps (eid : N) | DRemove (rid eid : N) | DBcast (ots eid : N)
| DVFind (eid : N) | DVRemove (eid : N) | DOFind (eid : N) | DORemove (eid : N)
| AStart (rid flag : N) (p : pose) (ots : N) | ANewID | ASetPose | AAdd (rid flag : N) (p : pose) | AProto | ABcast (ots : N)
| UStart | UFind (r : req) (eid : N) | UUpdate (r : req) (tid eid data : N) | UNotify (tid : N) | UBcast (ots tid eid data : N)
| VStart (rid : N) (a : action) (ots : N) | VFind (rid eid : N) | VGet (rid : N) (a : action) | VSet (rid : N) (a : action) | VBcast (ots : N) (a : action)
| CStart (rid tid eid data ots : N) | CFind (rid eid : N) | CAdd (rid tid eid data : N) | CNotify (tid : N) | CBcast (ots tid eid data : N).

(* the Go function whose acquisition the instruction is (numbering: checks/c01conc.py LABELS) *)
Definition label (i : instr) : N :=
  match i with
  | JStart _ _ | DStart _ _ _ | AStart _ _ _ _ | UStart | VStart _ _ _ | CStart _ _ _ _ _ => 0
  | JGet => 1 | JNewPID | JFrameID _ | ANewID => 2 | JAddP => 3 | JFrame => 4 | JParts => 5 | JEnts => 6 | JProto _ | AProto => 7
  | JListAll => 8 | JBcast _ | DBcast _ _ | ABcast _ | VBcast _ _ | CBcast _ _ _ _ => 9 | JModV | JModO => 10 | JVState => 11 | JOState => 12
  | DFind _ | DVFind _ | DOFind _ | UFind _ _ | VFind _ _ | CFind _ _ => 13 | DComps _ => 14 | DRemove _ _ => 15 | DVRemove _ => 16 | DORemove _ => 17
  | ASetPose => 18 | AAdd _ _ _ => 19 | UUpdate _ _ _ _ => 20 | UNotify _ | CNotify _ => 21 | UBcast _ _ _ _ => 22
  | VGet _ _ => 23 | VSet _ _ => 24 | CAdd _ _ _ _ => 25
  end.

Record thread := { t_conn : N; t_loc : locals; t_prog : list instr }.

Record mstate := {
  m_parts : list (N * N);          (* Session.participants: participant id, its connection *)
  m_pgen : N;                      (* participantIDs *)
  m_egen : N;                      (* entityIDs *)
  m_eobj : gmap N ent_pb;          (* entity objects: a handler may still hold one that has left the map *)
  m_ents : list N;                 (* keys of Session.entities *)
  m_types : list (N * N);
  m_comps : gmap (N * N) N;
  m_subs : list (N * N);           (* component type, subscribed participant *)
  m_acts : gmap (N * N) action;
  m_assets : gmap N asset;
  m_out : list (N * list item);    (* per connection: what it was sent and did since the race started *)
  m_thr : list thread
}.
Definition mset_parts v (s : mstate) := {| m_parts := v; m_pgen := m_pgen s; m_egen := m_egen s; m_eobj := m_eobj s; m_ents := m_ents s; m_types := m_types s; m_comps := m_comps s; m_subs := m_subs s; m_acts := m_acts s; m_assets := m_assets s; m_out := m_out s; m_thr := m_thr s |}.
Definition mset_pgen v (s : mstate) := {| m_parts := m_parts s; m_pgen := v; m_egen := m_egen s; m_eobj := m_eobj s; m_ents := m_ents s; m_types := m_types s; m_comps := m_comps s; m_subs := m_subs s; m_acts := m_acts s; m_assets := m_assets s; m_out := m_out s; m_thr := m_thr s |}.
Definition mset_ents egen eobj ents (s : mstate) := {| m_parts := m_parts s; m_pgen := m_pgen s; m_egen := egen; m_eobj := eobj; m_ents := ents; m_types := m_types s; m_comps := m_comps s; m_subs := m_subs s; m_acts := m_acts s; m_assets := m_assets s; m_out := m_out s; m_thr := m_thr s |}.
Definition mset_comps v (s : mstate) := {| m_parts := m_parts s; m_pgen := m_pgen s; m_egen := m_egen s; m_eobj := m_eobj s; m_ents := m_ents s; m_types := m_types s; m_comps := v; m_subs := m_subs s; m_acts := m_acts s; m_assets := m_assets s; m_out := m_out s; m_thr := m_thr s |}.
Definition mset_acts v (s : mstate) := {| m_parts := m_parts s; m_pgen := m_pgen s; m_egen := m_egen s; m_eobj := m_eobj s; m_ents := m_ents s; m_types := m_types s; m_comps := m_comps s; m_subs := m_subs s; m_acts := v; m_assets := m_assets s; m_out := m_out s; m_thr := m_thr s |}.
Definition mset_assets v (s : mstate) := {| m_parts := m_parts s; m_pgen := m_pgen s; m_egen := m_egen s; m_eobj := m_eobj s; m_ents := m_ents s; m_types := m_types s; m_comps := m_comps s; m_subs := m_subs s; m_acts := m_acts s; m_assets := v; m_out := m_out s; m_thr := m_thr s |}.
Definition mset_out v (s : mstate) := {| m_parts := m_parts s; m_pgen := m_pgen s; m_egen := m_egen s; m_eobj := m_eobj s; m_ents := m_ents s; m_types := m_types s; m_comps := m_comps s; m_subs := m_subs s; m_acts := m_acts s; m_assets := m_assets s; m_out := v; m_thr := m_thr s |}.
Definition mset_thr v (s : mstate) := {| m_parts := m_parts s; m_pgen := m_pgen s; m_egen := m_egen s; m_eobj := m_eobj s; m_ents := m_ents s; m_types := m_types s; m_comps := m_comps s; m_subs := m_subs s; m_acts := m_acts s; m_assets := m_assets s; m_out := m_out s; m_thr := v |}.

Fixpoint emit_l (c : N) (i : item) (l : list (N * list item)) : list (N * list item) :=
  match l with
  | [] => [(c, [i])]
  | ci :: r => if fst ci =? c then (c, snd ci ++ [i]) :: r else ci :: emit_l c i r
  end.
Definition emit (c : N) (i : item) (s : mstate) : mstate := mset_out (emit_l c i (m_out s)) s.
Definition send (c : N) (m : msg) (s : mstate) : mstate := emit c (IRecv m) s.
(* Session.Broadcast: every participant but the sender *)
Definition bcast (from : N) (m : msg) (s : mstate) : mstate :=
  fold_left (λ s (pc : N * N), if fst pc =? from then s else send (snd pc) m s) (m_parts s) s.
(* Session.BroadcastTo *)
Definition bcast_to (from : N) (to : list N) (m : msg) (s : mstate) : mstate :=
  fold_left (λ s (pc : N * N), if (fst pc =? from) || negb (memN (fst pc) to) then s else send (snd pc) m s) (m_parts s) s.
Definition subs_of (tid : N) (s : mstate) : list N :=
  omap (λ tp : N * N, if fst tp =? tid then Some (snd tp) else None) (m_subs s).
Definition comps_list (s : mstate) : list comp_pb :=
  map (λ kv : (N * N) * N, {| cp_tid := fst (fst kv); cp_eid := snd (fst kv); cp_data := snd kv |}) (map_to_list (m_comps s)).
Definition set_pid (p : N) (l : locals) : locals := {| l_pid := p; l_eid := l_eid l; l_parts := l_parts l; l_ents := l_ents l; l_subs := l_subs l |}.
Definition set_eid (e : N) (l : locals) : locals := {| l_pid := l_pid l; l_eid := e; l_parts := l_parts l; l_ents := l_ents l; l_subs := l_subs l |}.
Definition set_lparts (v : list N) (l : locals) : locals := {| l_pid := l_pid l; l_eid := l_eid l; l_parts := v; l_ents := l_ents l; l_subs := l_subs l |}.
Definition set_lents (v : list ent_pb) (l : locals) : locals := {| l_pid := l_pid l; l_eid := l_eid l; l_parts := l_parts l; l_ents := v; l_subs := l_subs l |}.
Definition set_lsubs (v : list N) (l : locals) : locals := {| l_pid := l_pid l; l_eid := l_eid l; l_parts := l_parts l; l_ents := l_ents l; l_subs := v |}.

(* one instruction of connection c: the new state, the new locals, instructions to run next (before the rest of the
   program), and whether the handler goes on *)
Definition exec (i : instr) (c : N) (l : locals) (s : mstate) : mstate * locals * list instr * bool :=
  let go s := (s, l, [], true) in
  let stop s := (s, l, [], false) in
  match i with
  | JStart rid ots => go (emit c (IOwn (RJoin rid (SId 1) ots)) s)
  | JGet | JFrame | JModV | JModO | ASetPose | UStart => go s
  | JNewPID => let p := m_pgen s + 1 in (mset_pgen p s, set_pid p l, [], true)
  | JAddP => go (mset_parts (m_parts s ++ [(l_pid l, c)]) s)
  | JFrameID rid => go (send c (MJoinResp rid 1 1 (l_pid l)) s)
  | JParts => (s, set_lparts (map fst (m_parts s)) l, [], true)
  | JEnts => (s, l, map JProto (sortN (m_ents s)), true)
  | JProto e => (s, match m_eobj s !! e with Some x => set_lents (l_ents l ++ [x]) l | None => l end, [], true)
  | JListAll => go (send c (MSessionState (l_parts l) (l_ents l) (comps_list s)) s)
  | JBcast ots => go (bcast (l_pid l) (MJoinB ots (l_pid l)) s)
  | JVState => go (send c (MVikjaState (map snd (map_to_list (m_acts s)))) s)
  | JOState => go (send c (MOdalState (map snd (map_to_list (m_assets s)))) s)
  | DStart rid eid ots => go (emit c (IOwn (REntityDelete rid eid ots)) s)
  | DFind eid => if memN eid (m_ents s) then go s else stop s
  | DComps eid => go (mset_comps (filter (λ kv : (N * N) * N, negb (snd (fst kv) =? eid)) (m_comps s)) s)
  | DRemove rid eid =>
      go (send c (MEntityDeleteResp rid) (mset_ents (m_egen s) (m_eobj s) (List.filter (λ e, negb (e =? eid)) (m_ents s)) s))
  | DBcast ots eid => go (bcast (l_pid l) (MEntityDeleteB ots eid) s)
  | DVFind eid => (s, l, if memN eid (m_ents s) then [] else [DVRemove eid], true)
  | DVRemove eid => go (mset_acts (filter (λ kv : (N * N) * action, negb (fst (fst kv) =? eid)) (m_acts s)) s)
  | DOFind eid => (s, l, if memN eid (m_ents s) then [] else [DORemove eid], true)
  | DORemove eid => go (mset_assets (delete eid (m_assets s)) s)
  | AStart rid flag p ots => go (emit c (IOwn (REntityAdd rid false flag (Some p) ots)) s)
  | ANewID => let e := m_egen s + 1 in (mset_ents e (m_eobj s) (m_ents s) s, set_eid e l, [], true)
  | AAdd rid flag p =>
      let e := l_eid l in
      go (send c (MEntityAddResp rid e)
            (mset_ents (m_egen s) (<[e := {| ep_id := e; ep_owner := l_pid l; ep_pose := p; ep_flag := flag |}]> (m_eobj s)) (m_ents s ++ [e]) s))
  | AProto => (s, match m_eobj s !! l_eid l with Some x => set_lents [x] l | None => l end, [], true)
  | ABcast ots => match l_ents l with x :: _ => go (bcast (l_pid l) (MEntityAddB ots x) s) | [] => go s end
  | UFind r eid => if memN eid (m_ents s) then go s else stop (emit c (IOwn r) s)
  | UUpdate r tid eid data =>
      match m_comps s !! (tid, eid) with
      | Some _ => go (emit c (IOwn r) (mset_comps (<[(tid, eid) := data]> (m_comps s)) s))
      | None => stop (emit c (IOwn r) s)
      end
  | UNotify tid | CNotify tid => let ps := subs_of tid s in (s, set_lsubs ps l, [], negb (bool_decide (ps = [])))
  | UBcast ots tid eid data => go (bcast_to (l_pid l) (l_subs l) (MCompUpdateB ots {| cp_tid := tid; cp_eid := eid; cp_data := data |}) s)
  | VStart rid a ots => go (emit c (IOwn (RAction rid (Some a) ots)) s)
  | VFind rid eid => if memN eid (m_ents s) then go s else stop (send c (MError rid E_BAD_REQUEST) s)
  | VGet rid a =>
      match m_acts s !! (a_eid a, a_name a) with
      | Some old => if ts_before (a_ts a) (a_ts old) then stop (send c (MError rid E_BAD_REQUEST) s) else go s
      | None => go s
      end
  | VSet rid a => go (send c (MActionResp rid) (mset_acts (<[(a_eid a, a_name a) := a]> (m_acts s)) s))
  | VBcast ots a => go (bcast (l_pid l) (MActionB ots a) s)
  | CStart rid tid eid data ots => go (emit c (IOwn (RCompAdd rid tid eid data ots)) s)
  | CFind rid eid => if memN eid (m_ents s) then go s else stop (send c (MError rid E_NOT_FOUND) s)
  | CAdd rid tid eid data =>
      match m_comps s !! (tid, eid) with
      | Some _ => stop (send c (MError rid E_CONFLICT) s)
      | None => go (send c (MCompAddResp rid) (mset_comps (<[(tid, eid) := data]> (m_comps s)) s))
      end
  | CBcast ots tid eid data => go (bcast (l_pid l) (MCompAddB ots {| cp_tid := tid; cp_eid := eid; cp_data := data |}) s)
  end.

(* one choice of the schedule: connection c runs its next instruction (nothing happens if it has none) *)
Fixpoint step_thr (c : N) (ts : list thread) (s : mstate) : option (mstate * list thread * N) :=
  match ts with
  | [] => None
  | t :: r =>
      if (t_conn t =? c) then
        match t_prog t with
        | [] => None
        | i :: p =>
            let '(s', l', pre, cont) := exec i c (t_loc t) s in
            Some (s', {| t_conn := c; t_loc := l'; t_prog := if cont then pre ++ p else [] |} :: r, label i)
        end
      else match step_thr c r s with
           | Some (s', r', lb) => Some (s', t :: r', lb)
           | None => None end
  end.
Definition mstep (s : mstate) (c : N) : mstate * list (N * N) :=
  match step_thr c (m_thr s) s with
  | Some (s', ts, lb) => (mset_thr ts s', [(c, lb)])
  | None => (s, [])
  end.
Definition mrun_tr (s : mstate) (sched : list N) : mstate * list (N * N) :=
  fold_left (λ (acc : mstate * list (N * N)) c, let '(s', tr) := mstep (fst acc) c in (s', snd acc ++ tr)) sched (s, []).
Definition mrun (s : mstate) (sched : list N) : mstate := fold_left (λ s c, fst (mstep s c)) sched s.
Definition active (s : mstate) : list N :=
  omap (λ t, match t_prog t with [] => None | _ => Some (t_conn t) end) (m_thr s).
Definition all_done (s : mstate) : bool := bool_decide (active s = []).

(* the server's state as a hook snapshot *)
Definition mdump (s : mstate) : sdump :=
  {| d_sid := 1; d_uuid := 1; d_parts := map fst (m_parts s);
     d_ents := omap (λ e, match m_eobj s !! e with Some x => Some (x, false) | None => None end) (m_ents s);
     d_types := m_types s; d_comps := comps_list s; d_subs := m_subs s;
     d_actions := map snd (map_to_list (m_acts s)); d_assets := map snd (map_to_list (m_assets s));
     d_frames := N.of_nat (length (m_parts s)) |}.

(* a connection that is in the session when the race starts holds the view of a newcomer handed the state of
   that moment (the sequential clause of C01), synced on every type it subscribes to *)
Definition prefix (s0 : mstate) (c : N) : list item :=
  match head (List.filter (λ pc : N * N, snd pc =? c) (m_parts s0)) with
  | None => []
  | Some pc =>
      let d := mdump s0 in
      [IRecv (MJoinResp 0 1 1 (fst pc)); IRecv (MSessionState (d_parts d) (map fst (d_ents d)) (d_comps d));
       IRecv (MVikjaState (d_actions d)); IRecv (MOdalState (d_assets d))] ++
      flat_map (λ tp : N * N, if snd tp =? fst pc
                              then [IOwn (RSubscribe 0 (fst tp)); IRecv (MSubResp 0); IOwn (RCompList 0 (fst tp));
                                    IRecv (MCompListResp 0 (List.filter (λ x, cp_tid x =? fst tp) (d_comps d)))]
                              else []) (m_subs s0)
  end.
Definition mstreams (s0 s : mstate) : list (N * list item) :=
  map (λ ci : N * list item, (fst ci, prefix s0 (fst ci) ++ [IRace] ++ snd ci)) (m_out s).

(* the verdicts on the model's own execution *)
Definition mviews (lenient : bool) (s0 : mstate) (sched : list N) : list violation :=
  let s := mrun s0 sched in views_at_quiescence lenient (mstreams s0 s) [mdump s].
Definition mrelay (s0 : mstate) (sched : list N) : list violation :=
  let s := mrun s0 sched in relayed_once (mstreams s0 s) [mdump s0] [mdump s].

(* every schedule: a depth-first search of the model's own transition system; [chk] is evaluated at quiescence *)
Fixpoint explore (chk : mstate → bool) (fuel : nat) (s : mstate) : bool :=
  match fuel with
  | O => false
  | S f => match active s with
           | [] => chk s
           | cs => forallb (λ c, explore chk f (fst (mstep s c))) cs
           end
  end.
Definition views_ok (lenient : bool) (s0 s : mstate) : bool :=
  bool_decide (views_at_quiescence lenient (mstreams s0 s) [mdump s] = []).
Definition relay_ok (s0 s : mstate) : bool := bool_decide (relayed_once (mstreams s0 s) [mdump s0] [mdump s] = []).

(* ---------- the handlers ---------- *)
Definition prog_join (rid ots : N) : list instr :=
  [JStart rid ots; JGet; JNewPID; JAddP; JFrame; JFrameID rid; JParts; JEnts; JListAll; JBcast ots; JModV; JModO; JVState; JOState].
Definition prog_delete (rid eid ots : N) : list instr :=
  [DStart rid eid ots; DFind eid; DComps eid; DRemove rid eid; DBcast ots eid; DVFind eid; DOFind eid].
Definition prog_add (rid flag : N) (p : pose) (ots : N) : list instr :=
  [AStart rid flag p ots; ANewID; ASetPose; AAdd rid flag p; AProto; ABcast ots].
Definition prog_update (tid eid data ots : N) : list instr :=
  let r := RCompUpdate tid eid data ots in [UStart; UFind r eid; UUpdate r tid eid data; UNotify tid; UBcast ots tid eid data].
Definition prog_action (rid : N) (a : action) (ots : N) : list instr :=
  [VStart rid a ots; VFind rid (a_eid a); VGet rid a; VSet rid a; VBcast ots a].
Definition prog_compadd (rid tid eid data ots : N) : list instr :=
  [CStart rid tid eid data ots; CFind rid eid; CAdd rid tid eid data; CNotify tid; CBcast ots tid eid data].

(* ---------- the scenarios of checks/c01conc.py (state at the end of the set-up, racing requests) ---------- *)
Definition f1 : N := 1065353216.   (* float32 1.0 *)
Definition f2 : N := 1073741824.   (* 2.0 *)
Definition fh : N := 1056964608.   (* 0.5 *)
Definition ent1 : ent_pb := {| ep_id := 1; ep_owner := 1; ep_pose := [f1; f1; fh; 0; 0; 0; f1]; ep_flag := 0 |}.
Definition thr (c pid : N) (p : list instr) : thread := {| t_conn := c; t_loc := loc0 pid; t_prog := p |}.
Definition base (parts : list (N * N)) (thrs : list thread) : mstate :=
  {| m_parts := parts; m_pgen := N.of_nat (length parts); m_egen := 1; m_eobj := {[ 1 := ent1 ]}; m_ents := [1]; m_types := [];
     m_comps := ∅; m_subs := []; m_acts := ∅; m_assets := ∅; m_out := [(1, []); (2, []); (3, [])]; m_thr := thrs |}.
Definition with_type (subs : list (N * N)) (comps : gmap (N * N) N) (s : mstate) : mstate :=
  {| m_parts := m_parts s; m_pgen := m_pgen s; m_egen := m_egen s; m_eobj := m_eobj s; m_ents := m_ents s; m_types := [(1, 1)];
     m_comps := comps; m_subs := subs; m_acts := m_acts s; m_assets := m_assets s; m_out := m_out s; m_thr := m_thr s |}.
Definition act (ts : Z) (data : N) : action := {| a_eid := 1; a_name := 1; a_ts := Some ts; a_data := data |}.

(* 1: "C,E,X1|J1|J1" set-up 1,1,3: the owner deletes entity 1 while connection 2 joins; connection 3 watches *)
Definition sc_join_delete : mstate :=
  base [(1, 1); (2, 3)] [thr 1 1 (prog_delete 102 1 1102); thr 2 0 (prog_join 200 1200)].
(* 2: "C,E,T1,A1.1,V1.1.100,O1,X1|J1|J1" set-up 1,1,1,1,1,1,3: the same, the entity carries a component, an action and an asset *)
Definition sc_join_delete_modules : mstate :=
  mset_assets {[ 1 := {| as_id := 1; as_asset := 105; as_pid := 1; as_eid := 1 |} ]}
    (mset_acts {[ (1, 1) := act 100 104 ]}
      (with_type [] {[ (1, 1) := 103 ]} (base [(1, 1); (2, 3)] [thr 1 1 (prog_delete 106 1 1106); thr 2 0 (prog_join 200 1200)]))).
(* 3: "C,E,E|J1|J1" set-up 1,1,3: a second entity is added while connection 2 joins *)
Definition sc_join_add : mstate :=
  base [(1, 1); (2, 3)] [thr 1 1 (prog_add 102 0 [f1; f2; fh; 0; 0; 0; f1] 1102); thr 2 0 (prog_join 200 1200)].
(* 4: "C,E,T1,A1.1,S1,G1,U1.1|J1,S1,G1,U1.1|J1,S1,G1": two members update component (1, 1); all three are synced *)
Definition sc_two_updates : mstate :=
  with_type [(1, 1); (1, 2); (1, 3)] {[ (1, 1) := 103 ]}
    (base [(1, 1); (2, 2); (3, 3)] [thr 1 1 (prog_update 1 1 106 1106); thr 2 2 (prog_update 1 1 203 1203)]).
(* 5: "C,E,V1.1.100|J1,V1.1.<ts>|J1" set-up 1,1,2,3: two members set action 1 of entity 1 *)
Definition sc_two_actions (ts2 : Z) : mstate :=
  base [(1, 1); (2, 2); (3, 3)] [thr 1 1 (prog_action 102 (act 100 102) 1102); thr 2 2 (prog_action 201 (act ts2 201) 1201)].
(* 6: "C,E,T1,S1,G1,X1|J1,S1,G1,A1.1|J1,S1,G1": the owner deletes entity 1 while another member adds a component to it *)
Definition sc_delete_compadd : mstate :=
  with_type [(1, 1); (1, 2); (1, 3)] ∅
    (base [(1, 1); (2, 2); (3, 3)] [thr 1 1 (prog_delete 105 1 1105); thr 2 2 (prog_compadd 203 1 1 203 1203)]).
(* 7: "C,E,X1|J1,V1.1.100|J1" set-up 1,1,2,3: the owner deletes entity 1 while another member sets an action on it *)
Definition sc_delete_action : mstate :=
  base [(1, 1); (2, 2); (3, 3)] [thr 1 1 (prog_delete 102 1 1102); thr 2 2 (prog_action 201 (act 100 201) 1201)].

Definition scenario_of (id : N) : option mstate :=
  match id with
  | 1 => Some sc_join_delete | 2 => Some sc_join_delete_modules | 3 => Some sc_join_add | 4 => Some sc_two_updates
  | 5 => Some (sc_two_actions 100) | 6 => Some (sc_two_actions 200) | 7 => Some sc_delete_compadd | 8 => Some sc_delete_action
  | _ => None
  end.

(* ---------- the tie with a real execution under the same schedule ----------
   steps: the (thread, Go function) sequence of the real execution; streams, pre, post: what harness/l3v reported.
   Returns the list of what differs: 1 instruction trace, 2 the model is not at quiescence, 3 state when the race
   starts, 4 state at quiescence, 5 what the connections were sent and did in the race. *)
Fixpoint after_race (l : list item) : list item :=
  match l with [] => [] | IRace :: r => r | _ :: r => after_race r end.
Definition canon_item (i : item) : list Z :=
  match i with IRecv m => 0%Z :: enc_msg (canon_msg m) | IOwn r => 1%Z :: enc_req r | ILeft => [2%Z] | IRace => [3%Z] end.
Definition model_tie (s0 : mstate) (steps : list (N * N)) (streams : list (N * list item)) (pre post : list sdump) : list Z :=
  let '(s, tr) := mrun_tr s0 (map fst steps) in
  (if bool_decide (tr = steps) then [] else [1%Z]) ++
  (if all_done s then [] else [2%Z]) ++
  (if bool_decide (map (λ d, eDump (canon_dump d)) pre = [eDump (canon_dump (mdump s0))]) then [] else [3%Z]) ++
  (if bool_decide (map (λ d, eDump (canon_dump d)) post = [eDump (canon_dump (mdump s))]) then [] else [4%Z]) ++
  (if bool_decide (map (λ ci : N * list item, (fst ci, map canon_item (after_race (snd ci)))) streams
                   = map (λ ci : N * list item, (fst ci, map canon_item (snd ci))) (m_out s)) then [] else [5%Z]).
Definition model_tie_id (id : N) steps streams pre post : list Z :=
  match scenario_of id with Some s0 => model_tie s0 steps streams pre post | None => [9%Z] end.

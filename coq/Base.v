(* Base.v — shared definitions: numbers, poses, small list utilities.
   Style: std++.  No axioms. *)
From stdpp Require Export gmap list sorting.
From Coq Require Export NArith ZArith Bool.

Global Open Scope N_scope.

(* A pose is seven opaque float32 bit patterns (the server never computes on
   them).  The zero pose is what a fresh Go [models.Pose] holds. *)
Definition pose := list N.
Definition zero_pose : pose := [0;0;0;0;0;0;0].

(* uint32 arithmetic, explicit. *)
Definition two32 : N := 4294967296.
Definition u32_succ (n : N) : N := (n + 1) mod two32.
Definition u32_pred (n : N) : N := if n =? 0 then two32 - 1 else n - 1.

(* Insertion sort with a boolean "less or equal"; used for canonical output.
   Small inputs only (lists inside one message). *)
Section isort.
  Context {A : Type} (leb : A → A → bool).
  Fixpoint insert_sorted (x : A) (l : list A) : list A :=
    match l with
    | [] => [x]
    | y :: l' => if leb x y then x :: l else y :: insert_sorted x l'
    end.
  Fixpoint isort (l : list A) : list A :=
    match l with
    | [] => []
    | x :: l' => insert_sorted x (isort l')
    end.
End isort.

Fixpoint lex_leb (a b : list Z) : bool :=
  match a, b with
  | [], _ => true
  | _ :: _, [] => false
  | x :: a', y :: b' => if (x <? y)%Z then true else if (y <? x)%Z then false else lex_leb a' b'
  end.

Definition sort_by {A} (key : A → list Z) (l : list A) : list A :=
  isort (λ x y, lex_leb (key x) (key y)) l.

Definition zn (n : N) : Z := Z.of_N n.

(* membership in a list of N, boolean *)
Definition memN (x : N) (l : list N) : bool := existsb (N.eqb x) l.

(* de-duplicate keeping first occurrences *)
Fixpoint dedupN (l : list N) (seen : list N) : list N :=
  match l with
  | [] => []
  | x :: l' => if memN x seen then dedupN l' seen else x :: dedupN l' (x :: seen)
  end.

(* sorted elements of a gset N / keys of a gmap *)
Definition sortN (l : list N) : list N := isort N.leb l.
Definition set_to_sorted (s : gset N) : list N := sortN (elements s).
Definition min_of (l : list N) : option N :=
  match sortN l with [] => None | x :: _ => Some x end.

(* Auth.v — executable model of the acceptance decision of the relay (property C15).

   Written from the sources actually linked into the server:
     /repo/http/auth.go                                   VerifyAuthToken, VerifyAuthTokenHandler
     hagall-common v0.2.2  http/auth.go                   GetUserTokenFromHTTPRequest, VerifyHagallUserAccessToken
     hagall-common v0.2.2  hdsclient/client.go            Client.VerifyUserAuth   (empty-secret rule)
     golang-jwt/jwt v4.5.2 parser.go, hmac.go, none.go,   ParseWithClaims, SigningMethod*.Verify,
                           claims.go, types.go            RegisteredClaims.Valid, NumericDate
     x/net v0.38.0 websocket/server.go                    newServerConn (403 on a failing Handshake callback)

   What is modelled is the DECISION RULE.  Cryptography and decoding are parameters of the
   section [Decision]:  base64url decoding, the two JSON readers and HMAC.  A request is what
   net/http hands to the code under test: the value of [r.Header.Get "Authorization"], of
   [r.URL.Query().Get "access_token"] and of [r.Cookie "access_token"].

   Time.  golang-jwt truncates every NumericDate to whole seconds (TimePrecision = time.Second) and
   compares it with a nanosecond clock; for an integer e,  now < e  <->  floor now < e  and
   now >= e  <->  floor now >= e, so whole seconds (Z) are exact.  The clock is read twice: by
   golang-jwt ([now1], jwt.TimeFunc) and afterwards by hagall-common's leeway branch ([now2], time.Now).

   No proofs in this file. *)
From Coq Require Import String Ascii ZArith List Bool.
Import ListNotations.
Open Scope string_scope.

(* ------------------------------------------------------------------ strings *)

(* strings.HasPrefix + strings.TrimPrefix *)
Fixpoint strip_prefix (p s : string) : option string :=
  match p with
  | EmptyString => Some s
  | String a p' =>
      match s with
      | String b s' => if Ascii.eqb a b then strip_prefix p' s' else None
      | EmptyString => None
      end
  end.

Definition dot : ascii := "."%char.

(* strings.Cut(s, ".") *)
Fixpoint cut_dot (s : string) : option (string * string) :=
  match s with
  | EmptyString => None
  | String c s' =>
      if Ascii.eqb c dot then Some (EmptyString, s')
      else match cut_dot s' with
           | Some (a, b) => Some (String c a, b)
           | None => None
           end
  end.

(* jwt.splitToken: exactly two delimiters, three parts *)
Definition split3 (tok : string) : option (string * string * string) :=
  match cut_dot tok with
  | None => None
  | Some (h, r) =>
      match cut_dot r with
      | None => None
      | Some (p, r2) =>
          match cut_dot r2 with
          | None => Some (h, p, r2)
          | Some _ => None
          end
      end
  end.

Fixpoint has_dot (s : string) : bool :=
  match s with
  | EmptyString => false
  | String c s' => if Ascii.eqb c dot then true else has_dot s'
  end.

Definition is_empty (s : string) : bool :=
  match s with EmptyString => true | _ => false end.

(* ------------------------------------------------------------------ the request *)

(* each carrier may be absent; Go's accessors map absence to "" *)
Record request := mkRequest {
  authorization : option string;   (* r.Header.Get("Authorization") *)
  query_token   : option string;   (* r.URL.Query().Get("access_token") *)
  cookie_token  : option string;   (* r.Cookie("access_token") -> Value *)
}.

Definition val (o : option string) : string :=
  match o with Some s => s | None => "" end.

Definition bearer : string := "Bearer ".

(* tokenFromHeader *)
Definition token_from_header (r : request) : string :=
  match strip_prefix bearer (val (authorization r)) with
  | Some t => t
  | None => ""
  end.

(* GetUserTokenFromHTTPRequest: header, then query, then cookie; the first NON-EMPTY one *)
Definition token_of (r : request) : string :=
  let h := token_from_header r in
  if negb (is_empty h) then h
  else let q := val (query_token r) in
       if negb (is_empty q) then q
       else val (cookie_token r).

(* ------------------------------------------------------------------ signing methods *)

Inductive hash := SHA256 | SHA384 | SHA512.

Inductive method :=
| MHmac (h : hash)      (* HS256/384/512: key must be []byte *)
| MNone                 (* "none": key must be the magic constant UnsafeAllowNoneSignatureType *)
| MAsym.                (* RS*, PS*, ES*, EdDSA: key must be a public key *)

(* the registry filled by the init() functions of golang-jwt; lookup is case sensitive *)
Definition signing_method (alg : string) : option method :=
  if String.eqb alg "HS256" then Some (MHmac SHA256)
  else if String.eqb alg "HS384" then Some (MHmac SHA384)
  else if String.eqb alg "HS512" then Some (MHmac SHA512)
  else if String.eqb alg "none" then Some MNone
  else if String.eqb alg "RS256" then Some MAsym
  else if String.eqb alg "RS384" then Some MAsym
  else if String.eqb alg "RS512" then Some MAsym
  else if String.eqb alg "PS256" then Some MAsym
  else if String.eqb alg "PS384" then Some MAsym
  else if String.eqb alg "PS512" then Some MAsym
  else if String.eqb alg "ES256" then Some MAsym
  else if String.eqb alg "ES384" then Some MAsym
  else if String.eqb alg "ES512" then Some MAsym
  else if String.eqb alg "EdDSA" then Some MAsym
  else None.

Definition is_hmac (m : method) : bool :=
  match m with MHmac _ => true | _ => false end.

(* ------------------------------------------------------------------ claims *)

(* the registered time claims, in whole seconds since the epoch, absent = None *)
Record claims := mkClaims {
  c_exp : option Z;
  c_nbf : option Z;
  c_iat : option Z;
}.

(* the three flags RegisteredClaims.Valid can raise *)
Record cflags := mkFlags {
  f_expired : bool;    (* ValidationErrorExpired:      not (now < exp)  *)
  f_iat     : bool;    (* ValidationErrorIssuedAt:     not (now >= iat) *)
  f_nbf     : bool;    (* ValidationErrorNotValidYet:  not (now >= nbf) *)
}.

Definition claim_flags (now : Z) (c : claims) : cflags :=
  mkFlags
    (match c_exp c with Some e => negb (now <? e)%Z | None => false end)
    (match c_iat c with Some i => negb (i <=? now)%Z | None => false end)
    (match c_nbf c with Some n => negb (n <=? now)%Z | None => false end).

Definition no_flag (f : cflags) : bool :=
  negb (f_expired f) && negb (f_iat f) && negb (f_nbf f).

(* validationError.Errors == jwt.ValidationErrorIssuedAt : exactly that flag *)
Definition only_iat (f : cflags) : bool :=
  negb (f_expired f) && f_iat f && negb (f_nbf f).

Inductive jwt_error :=
| Malformed                       (* ValidationErrorMalformed *)
| Unverifiable                    (* ValidationErrorUnverifiable *)
| SignatureInvalid                (* ValidationErrorSignatureInvalid *)
| ClaimsInvalid (f : cflags).     (* from Claims.Valid *)

Inductive jwt_result :=
| JOk  (c : claims)
| JErr (e : jwt_error) (c : option claims).   (* the claims struct as far as it was filled *)

Definition leeway : Z := 10.

(* ------------------------------------------------------------------ the decision rule *)

Section Decision.

  (* base64.RawURLEncoding.DecodeString (DecodePaddingAllowed = DecodeStrict = false) *)
  Variable b64dec : string -> option string.
  (* json.Unmarshal of the header bytes into map[string]interface{} followed by ["alg"].(string):
     None = not JSON; Some None = no alg or alg not a string; Some (Some a) = alg *)
  Variable header_alg : string -> option (option string).
  (* json.Decoder.Decode of the payload bytes into HagallUserClaim (exp/nbf/iat floored to seconds) *)
  Variable claims_of : string -> option claims.
  (* hmac.New(hash, key).Write(msg).Sum(nil) *)
  Variable mac : hash -> string -> string -> string.

  Definition signing_input (h p : string) : string := h ++ "." ++ p.

  (* SigningMethod.Verify with key = []byte(secret) *)
  Definition verify_sig (m : method) (secret h p s : string) : bool :=
    match m with
    | MHmac hh =>
        match b64dec s with
        | Some sg => String.eqb sg (mac hh secret (signing_input h p))
        | None => false
        end
    | MNone => false       (* key is not the magic constant *)
    | MAsym => false       (* ErrInvalidKeyType (or the signature does not decode) *)
    end.

  (* Parser.ParseWithClaims, in its order: segments, header, claims, alg, signature, THEN claims validity *)
  Definition parse_with_claims (secret : string) (now1 : Z) (tok : string) : jwt_result :=
    match split3 tok with
    | None => JErr Malformed None
    | Some (h, p, s) =>
        match b64dec h with
        | None => JErr Malformed None
        | Some hb =>
            match header_alg hb with
            | None => JErr Malformed None
            | Some oalg =>
                match b64dec p with
                | None => JErr Malformed None
                | Some pb =>
                    match claims_of pb with
                    | None => JErr Malformed None
                    | Some c =>
                        match oalg with
                        | None => JErr Unverifiable (Some c)
                        | Some alg =>
                            match signing_method alg with
                            | None => JErr Unverifiable (Some c)
                            | Some m =>
                                if verify_sig m secret h p s then
                                  let f := claim_flags now1 c in
                                  if no_flag f then JOk c else JErr (ClaimsInvalid f) (Some c)
                                else JErr SignatureInvalid (Some c)
                            end
                        end
                    end
                end
            end
        end
    end.

  (* hagall-common VerifyHagallUserAccessToken: nil error <-> true *)
  Definition verify_access_token (secret : string) (now1 now2 : Z) (tok : string) : bool :=
    match parse_with_claims secret now1 tok with
    | JOk _ => true
    | JErr (ClaimsInvalid f) (Some c) =>
        if only_iat f then
          match c_iat c with
          | Some i => (i - now2 <? leeway)%Z
          | None => false
          end
        else false
    | JErr _ _ => false
    end.

  (* hds.Client.VerifyUserAuth: nil error <-> true *)
  Definition verify_user_auth (secret : string) (now1 now2 : Z) (tok : string) : bool :=
    if is_empty secret then false else verify_access_token secret now1 now2 tok.

  (* acceptance of a request, two clock readings *)
  Definition accept2 (secret : string) (now1 now2 : Z) (r : request) : bool :=
    verify_user_auth secret now1 now2 (token_of r).

  (* one instant *)
  Definition accept1 (secret : string) (now : Z) (r : request) : bool := accept2 secret now now r.

End Decision.

(* ------------------------------------------------------------------ the two wrappers *)

(* What a wrapper does, as the statements the translator (tools/authmounts) recognises in
   /repo/http/auth.go; anything else is [SOther] and makes the interpreter fail (closed). *)
Inductive stmt :=
| SAssignToken                       (* token := httpcmn.GetUserTokenFromHTTPRequest(r) *)
| SIfVerifyErr (body : list stmt)    (* if err := hdsClient.VerifyUserAuth(token); err != nil { body } *)
| SLog                               (* logs.….Warn/Info/…(…) *)
| SPure                              (* x := r.Header.Get(…): reads the request, no effect *)
| SWriteHeader (code : N)            (* w.WriteHeader(code) *)
| SReturnErr                         (* return err   (the error of the verification) *)
| SReturnNil                         (* return nil *)
| SReturn                            (* return *)
| SCallNext                          (* next.ServeHTTP(w, r) / next(w, r) *)
| SOther (what : string).

(* observable effects of running a wrapper body *)
Record effects := mkEffects {
  e_status  : option N;      (* first WriteHeader *)
  e_entered : bool;          (* protected handler entered *)
}.

Inductive outcome :=
| OFell                      (* ran off the end *)
| ORetErr | ORetNil | ORet.  (* which return statement was executed *)

Record wstate := mkW { w_tok : bool; w_eff : effects }.

Definition write_status (e : effects) (c : N) : effects :=
  match e_status e with Some _ => e | None => mkEffects (Some c) (e_entered e) end.

(* [ok]: result of VerifyUserAuth on the token of the request (true = nil error).
   Result None = the body is not of the recognised shape.  Structural recursion on the statement
   (the list inside [SIfVerifyErr] is walked by the nested [fix]). *)
Fixpoint run_stmt (ok : bool) (s : stmt) (w : wstate) {struct s} : option (outcome * wstate) :=
  match s with
  | SAssignToken => Some (OFell, mkW true (w_eff w))
  | SIfVerifyErr body =>
      if w_tok w then
        if ok then Some (OFell, w)
        else (fix run_list (b : list stmt) (w : wstate) {struct b} : option (outcome * wstate) :=
                match b with
                | [] => Some (OFell, w)
                | s' :: rest =>
                    match run_stmt ok s' w with
                    | Some (OFell, w') => run_list rest w'
                    | r => r
                    end
                end) body w
      else None
  | SLog | SPure => Some (OFell, w)
  | SWriteHeader c => Some (OFell, mkW (w_tok w) (write_status (w_eff w) c))
  | SReturnErr => Some (ORetErr, w)
  | SReturnNil => Some (ORetNil, w)
  | SReturn => Some (ORet, w)
  | SCallNext => Some (OFell, mkW (w_tok w) (mkEffects (e_status (w_eff w)) true))
  | SOther _ => None
  end.

Fixpoint run_body (ok : bool) (b : list stmt) (w : wstate) : option (outcome * wstate) :=
  match b with
  | [] => Some (OFell, w)
  | s :: rest =>
      match run_stmt ok s w with
      | Some (OFell, w') => run_body ok rest w'
      | r => r
      end
  end.

Definition w0 : wstate := mkW false (mkEffects None false).

(* status classes the correspondence compares *)
Inductive status := St101 | St2xx | St401 | St403 | StOther.

(* the handshake callback of VerifyAuthToken: Some true = returned a non-nil error *)
Definition run_handshake_body (ok : bool) (b : list stmt) : option bool :=
  match run_body ok b w0 with
  | Some (ORetErr, w) => if e_entered (w_eff w) then None else match e_status (w_eff w) with None => Some true | Some _ => None end
  | Some (ORetNil, w) => if e_entered (w_eff w) then None else match e_status (w_eff w) with None => Some false | Some _ => None end
  | _ => None
  end.

(* x/net/websocket newServerConn after a well-formed upgrade request:
   callback error -> "403 Forbidden", return, Handler never called; nil -> 101, Handler(conn) *)
Definition ws_serve (callback_err : bool) : status * bool :=
  if callback_err then (St403, false) else (St101, true).

(* the middleware VerifyAuthTokenHandler; the inner handler answers 2xx when entered *)
Definition classify (c : N) : status :=
  if N.eqb c 401 then St401 else if N.eqb c 403 then St403
  else if N.eqb c 101 then St101
  else if (N.leb 200 c && N.ltb c 300)%bool then St2xx else StOther.

Definition run_middleware_body (ok : bool) (b : list stmt) : option (status * bool) :=
  match run_body ok b w0 with
  | Some (OFell, w) | Some (ORet, w) =>
      let e := w_eff w in
      Some (match e_status e with
            | Some c => classify c
            | None => St2xx     (* net/http: implicit 200, or whatever the inner handler wrote *)
            end, e_entered e)
  | _ => None
  end.

(* the model's wrappers: what the server answers and whether the protected handler is entered *)
Definition ws_model (accepted : bool) : status * bool :=
  if accepted then (St101, true) else (St403, false).
Definition mw_model (accepted : bool) : status * bool :=
  if accepted then (St2xx, true) else (St401, false).

(* the bodies as they stand in /repo/http/auth.go at the time of writing (the translator
   regenerates GenAuth.handshake_body / middleware_body from the current sources) *)
Definition handshake_body_ref : list stmt :=
  [SAssignToken; SIfVerifyErr [SLog; SReturnErr]; SReturnNil].
Definition middleware_body_ref : list stmt :=
  [SAssignToken; SIfVerifyErr [SLog; SWriteHeader 401; SReturn]; SCallNext].

(* ------------------------------------------------------------------ mounts (cmd/main.go) *)

Inductive mount_kind :=
| MountWsAuth       (* websocket.Server{Handshake: hagallhttp.VerifyAuthToken(ctx, <client>), …} *)
| MountWsOpen       (* websocket.Server without that Handshake *)
| MountMwAuth       (* hagallhttp.VerifyAuthTokenHandler(<client>, inner) *)
| MountPlain.       (* anything else *)

Record mount := mkMount {
  m_mux    : string;        (* variable of the ServeMux *)
  m_path   : string;
  m_kind   : mount_kind;
  m_cors   : bool;          (* wrapped in hagallhttp.HandleWithCORS *)
  m_client : string;        (* identifier passed as the hds client to the wrapper, "" if none *)
  m_relay  : bool;          (* the handler expression reaches hwebsocket.Handle *)
  m_smoke  : bool;          (* the handler expression reaches smoketest.HandleSmokeTest *)
}.

Definition auth_wrapped (m : mount) : bool :=
  match m_kind m with MountWsAuth | MountMwAuth => true | _ => false end.

Definition find_mount (mux path : string) (ms : list mount) : option mount :=
  find (fun m => String.eqb (m_mux m) mux && String.eqb (m_path m) path) ms.

(* every route that reaches the relay or the smoke test is behind the matching wrapper,
   the wrapper is given the client that receives the registration, and both routes exist *)
Definition mounts_ok (registration_client : string) (ms : list mount) : bool :=
  forallb (fun m =>
    implb (m_relay m) (match m_kind m with MountWsAuth => true | _ => false end) &&
    implb (m_smoke m) (match m_kind m with MountMwAuth => true | _ => false end) &&
    implb (auth_wrapped m) (String.eqb (m_client m) registration_client && negb (is_empty registration_client))) ms
  && existsb m_relay ms && existsb m_smoke ms.

(* ConnGen.v — the parameters of Conn.v instantiated with the facts regenerated from the Go sources
   (GenConn.v, written by tools/connfacts).  A fact that was not found (None) becomes capacity 0,
   on which `Conn.good` fails. *)

From Coq Require Import NArith.
From hagall Require Import Conn GenConn.

Definition cap_of (o : option N) : nat := match o with Some n => N.to_nat n | None => 0 end.

(* cap_tcp (what the kernel buffers towards a stalled client) and the idle timeout in logical
   units are not facts of the source code: the theorems hold for every value; these are the ones
   the wire-level scripts are compared under *)
Definition gen_params : params :=
  mkParams (cap_of send_chan_cap) (cap_of disconnect_chan_cap) (cap_of scheduler_queue_cap) 64 300
           disconnect_blocking sender_discards_after_failure queue_discarded_on_disconnect send_write_deadline
           idle_rearmed_on_message.

(* Receipt.v — executable model of the receipt path (property C19).

   Written from the code as it IS:

   * websocket/realtime.go `HandleReceipt`: decode; if one of receipt / hash / signature has
     length 0 answer ErrorResponse{BAD_REQUEST} and return an error; otherwise
       select { case ReceiptChan <- payload: answer ReceiptResponse
                default:                     answer ErrorResponse{SERVER_TOO_BUSY}; return an error }
     The enqueue is parameterised by `blocking` (a plain send `ch <- p` instead of the select):
     the generated fact GenReceipt.receipt_enqueue_blocking says which one the code has.
   * cmd/main.go: `make(chan ncsclient.ReceiptPayload, cap)`; the same channel goes to the
     connection handlers and to the forwarder.
   * receipt/handler.go `HandleReceipts`: dequeue one payload, `VerifyPayload`
     (Keccak256(receipt) == hash, then Ecrecover(hash, signature) succeeds); when it fails the
     payload is logged and dropped; when it succeeds `ForwardToNCS` POSTs it ONCE
     (ncsclient.PostReceipt: json body, one `http.Client.Do`).  A transport error is logged;
     there is no retry and no re-queueing, a non-2xx answer is not even looked at.  So a POST
     that fails is an attempt (`posted`) that does not reach the service (`delivered`).

   External functions are Section variables: `keccak`, `ecrecover_ok`.
   No proofs in this file. *)
From Coq Require Import List NArith Bool Arith String.
Import ListNotations.

Definition bytes := list N.

Fixpoint bytes_eqb (a b : bytes) : bool :=
  match a, b with
  | [], [] => true
  | x :: a', y :: b' => N.eqb x y && bytes_eqb a' b'
  | _, _ => false
  end.

Definition is_empty (b : bytes) : bool := match b with [] => true | _ => false end.

Record payload := mkPayload { p_receipt : bytes; p_hash : bytes; p_sig : bytes }.

Definition payload_eqb (a b : payload) : bool :=
  bytes_eqb (p_receipt a) (p_receipt b) && bytes_eqb (p_hash a) (p_hash b) && bytes_eqb (p_sig a) (p_sig b).

(* the two refusals of HandleReceipt *)
Inductive code := BadRequest | TooBusy.

Definition code_name (c : code) : string :=
  match c with BadRequest => "ERROR_CODE_BAD_REQUEST" | TooBusy => "ERROR_CODE_SERVER_TOO_BUSY" end%string.
(* hagallpb.ErrorCode values *)
Definition code_num (c : code) : N := match c with BadRequest => 400 | TooBusy => 503 end%N.

(* what the submitting connection is sent *)
Inductive answer :=
| AReceiptResponse (rid : N)          (* ReceiptResponse{request_id} *)
| AError (rid : N) (c : code).        (* ErrorResponse{request_id, code} *)

Inductive verdict := VAccepted | VBad | VBusy.

Definition has_empty (p : payload) : bool :=
  is_empty (p_receipt p) || is_empty (p_hash p) || is_empty (p_sig p).

(* the specification of the answer: a function of the fields and of the queue length only *)
Definition expected (cap qlen : nat) (p : payload) : verdict :=
  if has_empty p then VBad else if qlen <? cap then VAccepted else VBusy.

Definition answer_of (rid : N) (v : verdict) : answer :=
  match v with
  | VAccepted => AReceiptResponse rid
  | VBad => AError rid BadRequest
  | VBusy => AError rid TooBusy
  end.

(* one submission as seen at the connection *)
Record entry := mkEntry {
  e_conn : N; e_rid : N; e_payload : payload;
  e_qlen : nat;                 (* queue length when the handler ran *)
  e_answers : list answer;      (* everything respond.Send was called with *)
  e_err : bool                  (* the handler returned an error (the connection is then ended) *)
}.

Record state := mkState {
  queue : list payload;         (* ReceiptChan, head = oldest *)
  up : bool;                    (* does a POST reach the credit service *)
  accepted : list payload;      (* ghost: every payload ever enqueued, in order *)
  dequeued : list payload;      (* ghost: every payload the forwarder took, in order *)
  posted : list payload;        (* POST attempts, in the order of the dequeues that caused them *)
  delivered : list payload;     (* attempts made while the service was reachable *)
  log : list entry              (* submissions, oldest first *)
}.

Definition init : state := mkState [] true [] [] [] [] [].

Inductive op :=
| Submit (conn rid : N) (p : payload)
| Forward
| ServiceUp (b : bool).

Inductive sres := Done (st : state) (e : entry) | Blocked.

Section Receipt.
  Variable keccak : bytes -> bytes.
  Variable ecrecover_ok : bytes -> bytes -> bool.
  Variable cap : nat.
  Variable blocking : bool.     (* true: the enqueue is a plain channel send *)

  (* receipt.VerifyPayload *)
  Definition valid (p : payload) : bool :=
    bytes_eqb (keccak (p_receipt p)) (p_hash p) && ecrecover_ok (p_hash p) (p_sig p).

  Definition add_log (st : state) (e : entry) : state :=
    mkState (queue st) (up st) (accepted st) (dequeued st) (posted st) (delivered st) (log st ++ [e]).

  Definition enqueue (st : state) (p : payload) : state :=
    mkState (queue st ++ [p]) (up st) (accepted st ++ [p]) (dequeued st) (posted st) (delivered st) (log st).

  (* RealtimeHandler.HandleReceipt *)
  Definition submit (st : state) (conn rid : N) (p : payload) : sres :=
    let ql := List.length (queue st) in
    if has_empty p then
      let e := mkEntry conn rid p ql [AError rid BadRequest] true in Done (add_log st e) e
    else if ql <? cap then
      let e := mkEntry conn rid p ql [AReceiptResponse rid] false in Done (add_log (enqueue st p) e) e
    else if blocking then Blocked
    else
      let e := mkEntry conn rid p ql [AError rid TooBusy] true in Done (add_log st e) e.

  (* one iteration of the HandleReceipts loop together with the ForwardToNCS goroutine it starts.
     With an empty queue the loop waits: no change. *)
  Definition forward_step (st : state) : state :=
    match queue st with
    | [] => st
    | p :: q =>
      if valid p then
        mkState q (up st) (accepted st) (dequeued st ++ [p]) (posted st ++ [p])
                (if up st then delivered st ++ [p] else delivered st) (log st)
      else
        mkState q (up st) (accepted st) (dequeued st ++ [p]) (posted st) (delivered st) (log st)
    end.

  Definition set_up (st : state) (b : bool) : state :=
    mkState (queue st) b (accepted st) (dequeued st) (posted st) (delivered st) (log st).

  Definition step (st : state) (o : op) : option state :=
    match o with
    | Submit c r p => match submit st c r p with Done st' _ => Some st' | Blocked => None end
    | Forward => Some (forward_step st)
    | ServiceUp b => Some (set_up st b)
    end.

  (* None: some submission blocked (possible only with a blocking enqueue) *)
  Fixpoint run_from (st : state) (h : list op) : option state :=
    match h with
    | [] => Some st
    | o :: h' => match step st o with Some st' => run_from st' h' | None => None end
    end.

  Definition run (h : list op) : option state := run_from init h.

  (* drain: what one "forwarder run until the queue is empty" does *)
  Definition drain_ops (st : state) : list op := repeat Forward (List.length (queue st)).
End Receipt.

(* the submissions of a history, in order *)
Fixpoint submits (h : list op) : list (N * N * payload) :=
  match h with
  | [] => []
  | Submit c r p :: h' => (c, r, p) :: submits h'
  | _ :: h' => submits h'
  end.

Definition entry_key (e : entry) : N * N * payload := (e_conn e, e_rid e, e_payload e).

Definition entry_accepted (e : entry) : bool :=
  match e_answers e with [AReceiptResponse _] => true | _ => false end.

(* --- observables compared with the implementation (used by the extracted oracle) --- *)
Definition obs_answers (st : state) : list (list answer * bool) :=
  map (fun e => (e_answers e, e_err e)) (log st).

(* --- fixtures for the Examples of Properties/C19.v (toy stand-ins for the cryptography) --- *)
Definition toy_keccak (b : bytes) : bytes := map (fun x => N.modulo (x + 1) 256) b.
Definition toy_ecrecover_ok (h s : bytes) : bool := bytes_eqb s (rev h).
Definition ex_valid : payload := mkPayload [1; 2]%N [2; 3]%N [3; 2]%N.
Definition ex_valid2 : payload := mkPayload [255]%N [0]%N [0]%N.
Definition ex_badhash : payload := mkPayload [1; 2]%N [9; 9]%N [9; 9]%N.
Definition ex_badsig : payload := mkPayload [1; 2]%N [2; 3]%N [2; 3]%N.
Definition ex_nohash : payload := mkPayload [1; 2]%N [] [3; 2]%N.
Definition ex_history : list op :=
  [ Submit 1 7 ex_valid; Submit 2 8 ex_badhash; Submit 1 9 ex_valid2 (* full: refused *);
    Submit 3 1 ex_nohash (* empty field *); Forward; ServiceUp false; Submit 3 2 ex_valid2; Forward; Forward;
    Forward (* empty queue *); ServiceUp true; Submit 2 3 ex_badsig; Submit 4 4 ex_valid; Forward; Forward ].

(* Codec.v — the integer-line format between the Go harness and the oracle.
   Every op, request and server message is a list of integers; lists are
   length-prefixed, options are 0 / 1 x.  Decoders are total (option). *)
From hagall Require Export Msg.

Definition P (A : Type) : Type := list Z → option (A * list Z).
Definition pret {A} (a : A) : P A := λ l, Some (a, l).
Definition pb {A B} (p : P A) (k : A → P B) : P B :=
  λ l, match p l with Some (a, r) => k a r | None => None end.
Definition pfail {A} : P A := λ _, None.
Notation "'LET' x <- p 'IN' k" := (pb p (fun x => k)) (at level 200, x name, p at level 100, k at level 200, right associativity).

Definition pZ : P Z := λ l, match l with x :: r => Some (x, r) | [] => None end.
Definition pN : P N := λ l, match l with
  | x :: r => if (0 <=? x)%Z then Some (Z.to_N x, r) else None | [] => None end.
Definition pBool : P bool := LET n <- pN IN pret (negb (n =? 0)).
Fixpoint prep {A} (p : P A) (n : nat) : P (list A) :=
  match n with
  | O => pret []
  | S n' => LET x <- p IN LET xs <- prep p n' IN pret (x :: xs)
  end.
Definition pList {A} (p : P A) : P (list A) := LET n <- pN IN prep p (N.to_nat n).
Definition pOpt {A} (p : P A) : P (option A) :=
  LET t <- pN IN if t =? 0 then pret None else LET x <- p IN pret (Some x).
Definition pPose : P pose := prep pN 7.

Definition pAction : P action :=
  LET e <- pN IN LET n <- pN IN LET t <- pOpt pZ IN LET d <- pN IN
  pret {| a_eid := e; a_name := n; a_ts := t; a_data := d |}.
Definition pAsset : P asset :=
  LET i <- pN IN LET a <- pN IN LET p <- pN IN LET e <- pN IN
  pret {| as_id := i; as_asset := a; as_pid := p; as_eid := e |}.
Definition pEnt : P ent_pb :=
  LET i <- pN IN LET o <- pN IN LET p <- pPose IN LET f <- pN IN
  pret {| ep_id := i; ep_owner := o; ep_pose := p; ep_flag := f |}.
Definition pComp : P comp_pb :=
  LET t <- pN IN LET e <- pN IN LET d <- pN IN pret {| cp_tid := t; cp_eid := e; cp_data := d |}.

Definition pSid : P sidspec :=
  LET k <- pN IN LET v <- pN IN
  pret (if k =? 0 then SNew else if k =? 1 then SId v else SJunk v).

Definition pReq : P req :=
  LET t <- pN IN
  match t with
  | 38 => LET r <- pN IN pret (RPing r)
  | 39 => LET r <- pN IN pret (RPingResp r)
  | 42 => LET r <- pN IN LET n <- pN IN LET w <- pN IN pret (RSignedLatency r n w)
  | 3 => LET r <- pN IN LET s <- pSid IN LET o <- pN IN pret (RJoin r s o)
  | 8 => LET r <- pN IN LET pe <- pBool IN LET f <- pN IN LET p <- pOpt pPose IN LET o <- pN IN pret (REntityAdd r pe f p o)
  | 11 => LET r <- pN IN LET e <- pN IN LET o <- pN IN pret (REntityDelete r e o)
  | 14 => LET e <- pN IN LET p <- pOpt pPose IN LET o <- pN IN pret (RPose e p o)
  | 16 => LET rc <- pList pN IN LET b <- pList pN IN LET o <- pN IN pret (RCustom rc b o)
  | 18 => LET r <- pN IN LET n <- pN IN pret (RTypeAdd r n)
  | 20 => LET r <- pN IN LET n <- pN IN pret (RGetName r n)
  | 22 => LET r <- pN IN LET n <- pN IN pret (RGetId r n)
  | 24 => LET r <- pN IN LET t <- pN IN LET e <- pN IN LET d <- pN IN LET o <- pN IN pret (RCompAdd r t e d o)
  | 27 => LET r <- pN IN LET t <- pN IN LET e <- pN IN LET o <- pN IN pret (RCompDelete r t e o)
  | 30 => LET t <- pN IN LET e <- pN IN LET d <- pN IN LET o <- pN IN pret (RCompUpdate t e d o)
  | 32 => LET r <- pN IN LET t <- pN IN pret (RCompList r t)
  | 34 => LET r <- pN IN LET t <- pN IN pret (RSubscribe r t)
  | 36 => LET r <- pN IN LET t <- pN IN pret (RUnsubscribe r t)
  | 40 => LET r <- pN IN LET a <- pN IN LET b <- pN IN LET c <- pN IN pret (RReceipt r a b c)
  | 101 => LET r <- pN IN LET a <- pOpt pAction IN LET o <- pN IN pret (RAction r a o)
  | 201 => LET r <- pN IN LET e <- pN IN LET a <- pN IN LET o <- pN IN pret (RAssetAdd r e a o)
  | 300 => LET n <- pN IN pret (RDagazSample n)
  | 301 | 303 | 305 => LET r <- pN IN pret (RDagazQuery t r)
  | 9000 => LET ty <- pN IN pret (RUndecodable ty)
  | 9001 => LET ty <- pN IN pret (RUnknown ty)
  | _ => pfail
  end.

Definition pOp : P op :=
  LET t <- pN IN
  match t with
  | 1 => LET c <- pN IN pret (OConnect c)
  | 2 => LET c <- pN IN LET r <- pReq IN pret (OSend c r)
  | 3 => LET c <- pN IN LET h <- pN IN pret (OStep c h)
  | 4 => LET s <- pN IN pret (OTick s)
  | 5 => LET c <- pN IN pret (ODisconnect c)
  | 6 => pret OSnap
  | _ => pfail
  end.

Definition pDump : P sdump :=
  LET sid <- pN IN LET uuid <- pN IN LET parts <- pList pN IN
  LET ents <- pList (LET e <- pEnt IN LET b <- pBool IN pret (e, b)) IN
  LET types <- pList (LET i <- pN IN LET n <- pN IN pret (i, n)) IN
  LET comps <- pList pComp IN
  LET subs <- pList (LET t <- pN IN LET p <- pN IN pret (t, p)) IN
  LET acts <- pList pAction IN LET assets <- pList pAsset IN LET fr <- pN IN
  pret {| d_sid := sid; d_uuid := uuid; d_parts := parts; d_ents := ents; d_types := types;
          d_comps := comps; d_subs := subs; d_actions := acts; d_assets := assets; d_frames := fr |}.

Definition pMsg : P msg :=
  LET z <- pZ IN
  if (z <? 0)%Z then LET a <- pZ IN pret (MBad z a) else
  let t := Z.to_N z in
  match t with
  | 39 => LET r <- pN IN pret (MPingResp r)
  | 38 => LET r <- pN IN pret (MPingReq r)
  | 0 => LET r <- pN IN LET c <- pN IN pret (MError r c)
  | 4 => LET r <- pN IN LET s <- pN IN LET u <- pN IN LET p <- pN IN pret (MJoinResp r s u p)
  | 2 => LET ps <- pList pN IN LET es <- pList pEnt IN LET cs <- pList pComp IN pret (MSessionState ps es cs)
  | 5 => LET o <- pN IN LET p <- pN IN pret (MJoinB o p)
  | 7 => LET p <- pN IN pret (MLeaveB p)
  | 9 => LET r <- pN IN LET e <- pN IN pret (MEntityAddResp r e)
  | 10 => LET o <- pN IN LET e <- pEnt IN pret (MEntityAddB o e)
  | 12 => LET r <- pN IN pret (MEntityDeleteResp r)
  | 13 => LET o <- pN IN LET e <- pN IN pret (MEntityDeleteB o e)
  | 15 => LET o <- pN IN LET e <- pN IN LET p <- pPose IN pret (MPoseB o e p)
  | 17 => LET o <- pN IN LET p <- pN IN LET b <- pList pN IN pret (MCustomB o p b)
  | 19 => LET r <- pN IN LET x <- pN IN pret (MTypeAddResp r x)
  | 21 => LET r <- pN IN LET x <- pN IN pret (MGetNameResp r x)
  | 23 => LET r <- pN IN LET x <- pN IN pret (MGetIdResp r x)
  | 25 => LET r <- pN IN pret (MCompAddResp r)
  | 26 => LET o <- pN IN LET c <- pComp IN pret (MCompAddB o c)
  | 28 => LET r <- pN IN pret (MCompDeleteResp r)
  | 29 => LET o <- pN IN LET x <- pN IN LET e <- pN IN pret (MCompDeleteB o x e)
  | 31 => LET o <- pN IN LET c <- pComp IN pret (MCompUpdateB o c)
  | 33 => LET r <- pN IN LET cs <- pList pComp IN pret (MCompListResp r cs)
  | 35 => LET r <- pN IN pret (MSubResp r)
  | 37 => LET r <- pN IN pret (MUnsubResp r)
  | 41 => LET r <- pN IN pret (MReceiptResp r)
  | 100 => LET a <- pList pAction IN pret (MVikjaState a)
  | 102 => LET r <- pN IN pret (MActionResp r)
  | 103 => LET o <- pN IN LET a <- pAction IN pret (MActionB o a)
  | 200 => LET a <- pList pAsset IN pret (MOdalState a)
  | 202 => LET r <- pN IN LET i <- pN IN pret (MAssetAddResp r i)
  | 203 => LET o <- pN IN LET a <- pAsset IN pret (MAssetAddB o a)
  | 43 => LET r <- pN IN LET n <- pN IN LET ids <- pList pN IN LET u <- pN IN LET c <- pN IN LET w <- pN IN
          LET s <- pBool IN LET g <- pBool IN pret (MSignedLatencyResp r n ids u c w s g)
  | 302 | 304 | 306 => LET r <- pN IN pret (MDagazResp t r)
  | 9100 => LET ss <- pList pDump IN LET g <- pZ IN LET q <- pList (LET c <- pN IN LET n <- pN IN pret (c, n)) IN
            pret (MSnap ss g q)
  | _ => pfail
  end.

Definition dec_all {A} (p : P A) (l : list Z) : option A :=
  match p l with Some (a, []) => Some a | _ => None end.
Definition dec_op := dec_all pOp.
Definition dec_msg := dec_all pMsg.
Definition dec_cfg : list Z → option config := dec_all (
  LET fl <- pList pN IN LET v <- pBool IN LET o <- pBool IN LET d <- pBool IN
  pret {| cfg_flags := fl; cfg_vikja := v; cfg_odal := o; cfg_dagaz := d |}).
Definition dec_verdict (z : Z) : verdict :=
  match z with 0%Z => VOk | 1%Z => VErr | 2%Z => VSkip | _ => VPanic end.

(* ---------- encoders ---------- *)
Definition eB (b : bool) : list Z := [if b then 1%Z else 0%Z].
Definition eL {A} (e : A → list Z) (l : list A) : list Z := Z.of_nat (length l) :: flat_map e l.
Definition eNs (l : list N) : list Z := eL (λ n, [zn n]) l.
Definition eO {A} (e : A → list Z) (o : option A) : list Z :=
  match o with None => [0%Z] | Some x => 1%Z :: e x end.
Definition ePose (p : pose) : list Z := map zn p.
Definition eAction (a : action) : list Z :=
  [zn (a_eid a); zn (a_name a)] ++ eO (λ z, [z]) (a_ts a) ++ [zn (a_data a)].
Definition eAsset (a : asset) : list Z := [zn (as_id a); zn (as_asset a); zn (as_pid a); zn (as_eid a)].
Definition eEnt (e : ent_pb) : list Z := [zn (ep_id e); zn (ep_owner e)] ++ ePose (ep_pose e) ++ [zn (ep_flag e)].
Definition eComp (c : comp_pb) : list Z := [zn (cp_tid c); zn (cp_eid c); zn (cp_data c)].
Definition eDump (d : sdump) : list Z :=
  [zn (d_sid d); zn (d_uuid d)] ++ eNs (d_parts d) ++
  eL (λ eb, eEnt (fst eb) ++ eB (snd eb)) (d_ents d) ++
  eL (λ tn, [zn (fst tn); zn (snd tn)]) (d_types d) ++ eL eComp (d_comps d) ++
  eL (λ tp, [zn (fst tp); zn (snd tp)]) (d_subs d) ++ eL eAction (d_actions d) ++
  eL eAsset (d_assets d) ++ [zn (d_frames d)].

Definition enc_msg (m : msg) : list Z :=
  match m with
  | MPingResp r => [39; zn r]
  | MPingReq r => [38; zn r]
  | MError r c => [0; zn r; zn c]
  | MJoinResp r s u p => [4; zn r; zn s; zn u; zn p]
  | MSessionState ps es cs => 2 :: eNs ps ++ eL eEnt es ++ eL eComp cs
  | MJoinB o p => [5; zn o; zn p]
  | MLeaveB p => [7; zn p]
  | MEntityAddResp r e => [9; zn r; zn e]
  | MEntityAddB o e => 10 :: zn o :: eEnt e
  | MEntityDeleteResp r => [12; zn r]
  | MEntityDeleteB o e => [13; zn o; zn e]
  | MPoseB o e p => 15 :: zn o :: zn e :: ePose p
  | MCustomB o p b => 17 :: zn o :: zn p :: eNs b
  | MTypeAddResp r x => [19; zn r; zn x]
  | MGetNameResp r x => [21; zn r; zn x]
  | MGetIdResp r x => [23; zn r; zn x]
  | MCompAddResp r => [25; zn r]
  | MCompAddB o c => 26 :: zn o :: eComp c
  | MCompDeleteResp r => [28; zn r]
  | MCompDeleteB o x e => [29; zn o; zn x; zn e]
  | MCompUpdateB o c => 31 :: zn o :: eComp c
  | MCompListResp r cs => 33 :: zn r :: eL eComp cs
  | MSubResp r => [35; zn r]
  | MUnsubResp r => [37; zn r]
  | MReceiptResp r => [41; zn r]
  | MVikjaState a => 100 :: eL eAction a
  | MActionResp r => [102; zn r]
  | MActionB o a => 103 :: zn o :: eAction a
  | MOdalState a => 200 :: eL eAsset a
  | MAssetAddResp r i => [202; zn r; zn i]
  | MAssetAddB o a => 203 :: zn o :: eAsset a
  | MSignedLatencyResp r n ids u c w s g =>
      43 :: zn r :: zn n :: eNs ids ++ [zn u; zn c; zn w] ++ eB s ++ eB g
  | MDagazResp k r => [zn k; zn r]
  | MSnap ss g q => 9100 :: eL eDump ss ++ [g] ++ eL (λ cn, [zn (fst cn); zn (snd cn)]) q
  | MBad c a => [c; a]
  end%Z.

Definition enc_verdict (v : verdict) : Z :=
  match v with VOk => 0 | VErr => 1 | VSkip => 2 | VPanic => 3 end%Z.

(* canonical form of a message: the lists the code leaves unordered are sorted *)
Definition canon_dump (d : sdump) : sdump :=
  {| d_sid := d_sid d; d_uuid := d_uuid d; d_parts := sortN (d_parts d);
     d_ents := sort_by (λ eb, eEnt (fst eb)) (d_ents d);
     d_types := sort_by (λ tn, [zn (fst tn); zn (snd tn)]) (d_types d);
     d_comps := sort_by eComp (d_comps d);
     d_subs := sort_by (λ tp, [zn (fst tp); zn (snd tp)]) (d_subs d);
     d_actions := sort_by eAction (d_actions d);
     d_assets := sort_by eAsset (d_assets d);
     d_frames := d_frames d |}.
Definition canon_msg (m : msg) : msg :=
  match m with
  | MSessionState ps es cs => MSessionState (sortN ps) (sort_by eEnt es) (sort_by eComp cs)
  | MCompListResp r cs => MCompListResp r (sort_by eComp cs)
  | MVikjaState a => MVikjaState (sort_by eAction a)
  | MOdalState a => MOdalState (sort_by eAsset a)
  | MSignedLatencyResp r n ids u c w s g => MSignedLatencyResp r n (sortN ids) u c w s g
  | MSnap ss g q => MSnap (sort_by (λ d, [zn (d_sid d)]) (map canon_dump ss)) g
                          (sort_by (λ cn, [zn (fst cn)]) q)
  | _ => m
  end.

Definition eSid (s : sidspec) : list Z :=
  match s with SNew => [0; 0] | SId n => [1; zn n] | SJunk k => [2; zn k] end%Z.
Definition enc_req (r : req) : list Z :=
  match r with
  | RPing r => [38; zn r]
  | RPingResp r => [39; zn r]
  | RSignedLatency r n w => [42; zn r; zn n; zn w]
  | RJoin r s o => 3 :: zn r :: eSid s ++ [zn o]
  | REntityAdd r pe f p o => 8 :: zn r :: eB pe ++ [zn f] ++ eO ePose p ++ [zn o]
  | REntityDelete r e o => [11; zn r; zn e; zn o]
  | RPose e p o => 14 :: zn e :: eO ePose p ++ [zn o]
  | RCustom rc b o => 16 :: eNs rc ++ eNs b ++ [zn o]
  | RTypeAdd r n => [18; zn r; zn n]
  | RGetName r n => [20; zn r; zn n]
  | RGetId r n => [22; zn r; zn n]
  | RCompAdd r t e d o => [24; zn r; zn t; zn e; zn d; zn o]
  | RCompDelete r t e o => [27; zn r; zn t; zn e; zn o]
  | RCompUpdate t e d o => [30; zn t; zn e; zn d; zn o]
  | RCompList r t => [32; zn r; zn t]
  | RSubscribe r t => [34; zn r; zn t]
  | RUnsubscribe r t => [36; zn r; zn t]
  | RReceipt r a b c => [40; zn r; zn a; zn b; zn c]
  | RAction r a o => 101 :: zn r :: eO eAction a ++ [zn o]
  | RAssetAdd r e a o => [201; zn r; zn e; zn a; zn o]
  | RDagazSample n => [300; zn n]
  | RDagazQuery k r => [zn k; zn r]
  | RUndecodable ty => [9000; zn ty]
  | RUnknown ty => [9001; zn ty]
  end%Z.
Definition dec_req := dec_all pReq.

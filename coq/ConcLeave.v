(* ConcLeave.v — interleaving semantics of a departure (websocket/realtime.go leaveSession) racing the joins,
   entity additions / deletions and other departures of ONE session (models/session.go, models/participant.go),
   for the concurrent reading of C06 ("a departure removes exactly the leaver's non-persistent entities;
   persistent ones survive").  Executable, total, no proofs in this file.

   A thread is one connection: websocket/handler.go handles the messages of a connection one after the other, so
   the requests of a connection form ONE sequential program; the connections of a session run concurrently.
   One instruction = one critical section of package models (with the lock-free handler code around it):

     HandleParticipantJoin   AddParticipant (participantMutex; refused when the session has ended)       IJoin p
     HandleEntityAdd         NewEntityID (entityIDs.mutex) ; Session.AddEntity (entityMutex) ;
                             Participant.AddEntity (no lock: the own-set is touched by p's connection
                             only)                                                                        IAddEntity p persist
     HandleEntityDelete      EntityByID (entityMutex, read) ; owner check ; Session.RemoveEntity
                             (entityMutex) ; Participant.RemoveEntity (no lock)                           IDelEntity p e
     leaveSession            participant.EntityIDs() (no lock; the map the loop ranges over)             ILeaveSnapshot p
        per id of it         EntityByID (entityMutex, read) ; skip if missing or persistent              ILeaveRemove p e
                             Session.RemoveEntity (entityMutex) ; delete broadcast                        ILeaveDelete p e
        then                 RemoveParticipant (participantMutex: delete p, ended := no member left)      ILeaveFinish p

   The departure is a macro that unfolds at run time: the program of a connection contains ILeaveSnapshot p; executing
   it pushes one ILeaveRemove p e per id e of p's own-set, followed by ILeaveFinish p, in front of the rest of the
   program (the pushed instructions are the handler's continuation: where its loop stands); ILeaveRemove p e pushes
   ILeaveDelete p e when the lookup finds a non-persistent entity.  Every pushed instruction is a scheduling point
   of its own.  A handler whose currentParticipant is nil (the join was refused) does nothing for entity requests
   and for leaveSession; here: "p is not a member" (p belongs to one connection only, see [wellformed]).

   The seeded change C06-e ("skip the entity loop when I am the only participant"):
                             ParticipantCount() == 1 read first (participantMutex, read)                 ILeaveCheckAlone p
   pushes ILeaveFinish p alone when the answer was "alone", the full departure otherwise.

   Merged sections: HandleEntityAdd and HandleEntityDelete are ONE instruction each although they enter several
   critical sections: between them another connection cannot observe or change anything these sections touch
   (an entity id handed out is not handed out again; an entity is deleted by its owner's connection only; the
   own-set of p is read and written by p's connection only).  leaveSession is NOT merged: lookup and removal of each
   entity are separate instructions, and the removal is by id whatever the entity map holds by then, as in the code.

   Entity ids: SequentialIDGenerator.New without Reuse (Reuse is never called on Session.entityIDs): currentID++
   on a uint32.  The log records what each instruction did, in execution order. *)
From hagall Require Import Base.

Inductive instr :=
| IJoin (p : N)
| IAddEntity (p : N) (persist : bool)
| IDelEntity (p e : N)
| ILeaveSnapshot (p : N)
| ILeaveCheckAlone (p : N)
| ILeaveRemove (p e : N)
| ILeaveDelete (p e : N)
| ILeaveFinish (p : N).

Inductive event :=
| EvJoin (p : N) (ok : bool)              (* AddParticipant(p) returned ok *)
| EvAdd (p e : N) (persist : bool)        (* p added entity e *)
| EvDel (p e : N)                         (* p deleted its entity e by request *)
| EvLeaveRm (p e : N)                     (* p's departure removed entity e (RemoveEntity + delete broadcast) *)
| EvFinish (p : N) (last : bool).         (* RemoveParticipant(p) returned last *)

Record ent := Ent { e_owner : N; e_persist : bool }.

Record store := {
  s_members : gset N;            (* keys of Session.participants *)
  s_ended : bool;                (* Session.ended *)
  s_ents : gmap N ent;           (* Session.entities *)
  s_next : N;                    (* Session.entityIDs.currentID *)
  s_own : gmap N (gset N)        (* Participant.entityIDs, per participant id *)
}.
Definition store0 : store := {| s_members := ∅; s_ended := false; s_ents := ∅; s_next := 0; s_own := ∅ |}.

Record cstate := {
  c_store : store;
  c_thr : list (list instr);     (* thread i is the i-th connection: what it still has to execute *)
  c_log : list event             (* oldest first *)
}.

Definition own_of (s : store) (p : N) : gset N := default ∅ (s_own s !! p).

Definition set_members (ms : gset N) (b : bool) (s : store) : store :=
  {| s_members := ms; s_ended := b; s_ents := s_ents s; s_next := s_next s; s_own := s_own s |}.
Definition set_ents (m : gmap N ent) (s : store) : store :=
  {| s_members := s_members s; s_ended := s_ended s; s_ents := m; s_next := s_next s; s_own := s_own s |}.

(* one instruction on the shared session: new session, instructions pushed in front of the rest of the thread's
   program, what is appended to the log *)
Definition exec (i : instr) (s : store) : store * list instr * list event :=
  match i with
  | IJoin p =>
      if s_ended s then (s, [], [EvJoin p false])
      else (set_members ({[p]} ∪ s_members s) false s, [], [EvJoin p true])
  | IAddEntity p b =>
      if decide (p ∈ s_members s) then
        let id := u32_succ (s_next s) in
        ({| s_members := s_members s; s_ended := s_ended s; s_ents := <[id := Ent p b]> (s_ents s); s_next := id;
            s_own := <[p := own_of s p ∪ {[id]}]> (s_own s) |}, [], [EvAdd p id b])
      else (s, [], [])
  | IDelEntity p e =>
      if decide (p ∈ s_members s) then
        match s_ents s !! e with
        | Some en =>
            if decide (e_owner en = p) then
              ({| s_members := s_members s; s_ended := s_ended s; s_ents := delete e (s_ents s); s_next := s_next s;
                  s_own := <[p := own_of s p ∖ {[e]}]> (s_own s) |}, [], [EvDel p e])
            else (s, [], [])
        | None => (s, [], [])
        end
      else (s, [], [])
  | ILeaveSnapshot p =>
      if decide (p ∈ s_members s) then
        (s, map (ILeaveRemove p) (elements (own_of s p)) ++ [ILeaveFinish p], [])
      else (s, [], [])
  | ILeaveCheckAlone p =>
      if decide (p ∈ s_members s) then
        (s, if (size (s_members s) =? 1)%nat then [ILeaveFinish p] else [ILeaveSnapshot p], [])
      else (s, [], [])
  | ILeaveRemove p e =>
      match s_ents s !! e with
      | Some en => if e_persist en then (s, [], []) else (s, [ILeaveDelete p e], [])
      | None => (s, [], [])
      end
  | ILeaveDelete p e => (set_ents (delete e (s_ents s)) s, [], [EvLeaveRm p e])
  | ILeaveFinish p =>
      let ms := s_members s ∖ {[p]} in
      let last := (size ms =? 0)%nat && negb (s_ended s) in
      (set_members ms (s_ended s || last) s, [], [EvFinish p last])
  end.

(* one step of thread [tid]; a finished or unknown thread does nothing *)
Definition step (st : cstate) (tid : nat) : cstate :=
  match c_thr st !! tid with
  | None => st
  | Some [] => st
  | Some (i :: rest) =>
      let r := exec i (c_store st) in
      {| c_store := r.1.1; c_thr := <[tid := r.1.2 ++ rest]> (c_thr st); c_log := c_log st ++ r.2 |}
  end.

Definition sched_run (st : cstate) (σ : list nat) : cstate := fold_left step σ st.

Definition cinit (progs : list (list instr)) : cstate := {| c_store := store0; c_thr := progs; c_log := [] |}.

Definition complete (st : cstate) : bool := forallb (λ pr, match pr with [] => true | _ => false end) (c_thr st).

(* ---------- the facts about the code that the theorems are conditional on ---------- *)
(* the entity loop of leaveSession is unconditional: no ILeaveCheckAlone *)
Definition instr_full (i : instr) : bool := match i with ILeaveCheckAlone _ => false | _ => true end.
Definition uses_full_departure (progs : list (list instr)) : bool := forallb (forallb instr_full) progs.

(* where a connection stands: in no session, in the session as p, in p's departure (the entity loop or the
   RemoveParticipant that follows it), between the lookup and the removal of entity e in that loop *)
Inductive mode := MOut | MIn (p : N) | MLeaving (p : N) | MDel (p e : N).

(* the shape of a connection's program from a mode on: join first, entity requests of the joined participant
   only, the departure (full or shortcut) closes the stay; any number of stays.  What a program handed to [cinit]
   may contain is [wf_from MOut]: no ILeaveRemove / ILeaveDelete / ILeaveFinish of its own, they are only pushed *)
Fixpoint wf_from (m : mode) (prog : list instr) : bool :=
  match prog with
  | [] => match m with MOut | MIn _ => true | _ => false end
  | i :: r =>
      match i, m with
      | IJoin p, MOut => wf_from (MIn p) r
      | IAddEntity p _, MIn q => bool_decide (p = q) && wf_from m r
      | IDelEntity p _, MIn q => bool_decide (p = q) && wf_from m r
      | ILeaveSnapshot p, MIn q => bool_decide (p = q) && wf_from MOut r
      | ILeaveCheckAlone p, MIn q => bool_decide (p = q) && wf_from MOut r
      | ILeaveRemove p _, MLeaving q => bool_decide (p = q) && wf_from m r
      | ILeaveDelete p e, MDel q e' => bool_decide (p = q) && bool_decide (e = e') && wf_from (MLeaving q) r
      | ILeaveFinish p, MLeaving q => bool_decide (p = q) && wf_from MOut r
      | _, _ => false
      end
  end.

Definition pid_of (i : instr) : N :=
  match i with
  | IJoin p | IAddEntity p _ | IDelEntity p _ | ILeaveSnapshot p | ILeaveCheckAlone p | ILeaveRemove p _
  | ILeaveDelete p _ | ILeaveFinish p => p
  end.
(* the participant ids a program mentions / joins as *)
Definition parts (prog : list instr) : list N := map pid_of prog.
Definition joins (prog : list instr) : list N :=
  omap (λ i, match i with IJoin p => Some p | _ => None end) prog.

(* no participant id is mentioned by two connections *)
Definition threads_disjoint (progs : list (list instr)) : bool :=
  forallb (λ ip : nat * list instr,
    forallb (λ jq : nat * list instr,
      (ip.1 =? jq.1)%nat || forallb (λ p, negb (bool_decide (p ∈ parts jq.2))) (parts ip.2))
      (imap pair progs))
    (imap pair progs).

(* every connection's program has the shape above, joins under a participant id at most once (one id per stay:
   Session.NewParticipantID never hands an id out twice), and no id is used by two connections *)
Definition wellformed (progs : list (list instr)) : bool :=
  forallb (λ prog, wf_from MOut prog && bool_decide (NoDup (joins prog))) progs && threads_disjoint progs.

(* ---------- where a departure stands (for the every-moment statements) ---------- *)
(* the participant whose departure the thread is in the middle of *)
Definition leaving_of (prog : list instr) : option N :=
  match prog with
  | ILeaveRemove p _ :: _ | ILeaveDelete p _ :: _ | ILeaveFinish p :: _ => Some p
  | _ => None
  end.
(* the ids of the snapshot that departure has not passed yet *)
Fixpoint pend (prog : list instr) : list N :=
  match prog with
  | ILeaveRemove _ e :: r | ILeaveDelete _ e :: r => e :: pend r
  | _ => []
  end.

(* ---------- executable observers and judges (for examples and for a harness) ---------- *)
Definition obs_members (s : store) : list N := elements (s_members s).
Definition obs_ents (s : store) : list (N * (N * bool)) :=
  map (λ x, (x.1, (e_owner x.2, e_persist x.2))) (map_to_list (s_ents s)).
Definition obs_own (s : store) : list (N * list N) := map_to_list (elements <$> s_own s).
(* the non-persistent entities whose owner is not a member *)
Definition orphans (s : store) : list N :=
  omap (λ x : N * ent, if e_persist x.2 then None
                       else if decide (e_owner x.2 ∈ s_members s) then None else Some x.1)
       (map_to_list (s_ents s)).
(* the ids a participant's departure removed, in order *)
Definition removed_by (p : N) (log : list event) : list N :=
  omap (λ ev, match ev with EvLeaveRm q e => if decide (q = p) then Some e else None | _ => None end) log.

(* Msg.v — requests, server messages, operations, traces. *)
From hagall Require Export Base.

(* How a join request names its session. [SId n] is exactly the canonical
   spelling "<server id>x<lower-case hex n>"; anything else non-empty is junk. *)
Inductive sidspec := SNew | SId (n : N) | SJunk (k : N).

Record action := { a_eid : N; a_name : N; a_ts : option Z; a_data : N }.
Record asset := { as_id : N; as_asset : N; as_pid : N; as_eid : N }.

(* error codes, numerically as on the wire *)
Definition E_BAD_REQUEST : N := 400.
Definition E_UNAUTHORIZED : N := 401.
Definition E_NOT_FOUND : N := 404.
Definition E_CONFLICT : N := 409.
Definition E_TOO_LARGE : N := 413.
Definition E_ALREADY_JOINED : N := 461.
Definition E_INTERNAL : N := 500.
Definition E_TOO_BUSY : N := 503.

Inductive req :=
| RPing (rid : N)
| RPingResp (rid : N)
| RSignedLatency (rid n wallet : N)
| RJoin (rid : N) (sid : sidspec) (ots : N)
| REntityAdd (rid : N) (persist : bool) (flag : N) (p : option pose) (ots : N)
| REntityDelete (rid eid ots : N)
| RPose (eid : N) (p : option pose) (ots : N)
| RCustom (rcpts : list N) (body : list N) (ots : N)
| RTypeAdd (rid name : N)
| RGetName (rid tid : N)
| RGetId (rid name : N)
| RCompAdd (rid tid eid data ots : N)
| RCompDelete (rid tid eid ots : N)
| RCompUpdate (tid eid data ots : N)
| RCompList (rid tid : N)
| RSubscribe (rid tid : N)
| RUnsubscribe (rid tid : N)
| RReceipt (rid receipt hash sig : N)
| RAction (rid : N) (a : option action) (ots : N)
| RAssetAdd (rid eid asset ots : N)
| RDagazSample (nquads : N)               (* fire and forget; geometry is Grid.v's subject *)
| RDagazQuery (kind rid : N)              (* 301 / 303 / 305, well-formed *)
| RUndecodable (ty : N)                   (* known type, body fails to decode *)
| RUnknown (ty : N).                      (* no handler anywhere (e.g. 6, 9999) *)

Record ent_pb := { ep_id : N; ep_owner : N; ep_pose : pose; ep_flag : N }.
Record comp_pb := { cp_tid : N; cp_eid : N; cp_data : N }.

Global Instance action_eq_dec : EqDecision action.
Proof. solve_decision. Defined.
Global Instance asset_eq_dec : EqDecision asset.
Proof. solve_decision. Defined.
Global Instance ent_pb_eq_dec : EqDecision ent_pb.
Proof. solve_decision. Defined.
Global Instance comp_pb_eq_dec : EqDecision comp_pb.
Proof. solve_decision. Defined.

(* state dump of one session (the [OSnap] observation, hook-read) *)
Record sdump := {
  d_sid : N; d_uuid : N;
  d_parts : list N;
  d_ents : list (ent_pb * bool);          (* with the persist bit *)
  d_types : list (N * N);                 (* id, name *)
  d_comps : list comp_pb;
  d_subs : list (N * N);                  (* type id, participant id *)
  d_actions : list action;
  d_assets : list asset;
  d_frames : N                            (* registered frame handlers *)
}.

Inductive msg :=
| MPingResp (rid : N)
| MPingReq (id : N)
| MError (rid code : N)
| MJoinResp (rid sid uuid pid : N)
| MSessionState (parts : list N) (ents : list ent_pb) (comps : list comp_pb)
| MJoinB (ots pid : N)
| MLeaveB (pid : N)
| MEntityAddResp (rid eid : N)
| MEntityAddB (ots : N) (e : ent_pb)
| MEntityDeleteResp (rid : N)
| MEntityDeleteB (ots eid : N)            (* ots = 0 when caused by a departure *)
| MPoseB (ots eid : N) (p : pose)
| MCustomB (ots pid : N) (body : list N)
| MTypeAddResp (rid tid : N)
| MGetNameResp (rid name : N)
| MGetIdResp (rid tid : N)
| MCompAddResp (rid : N)
| MCompAddB (ots : N) (c : comp_pb)
| MCompDeleteResp (rid : N)
| MCompDeleteB (ots tid eid : N)
| MCompUpdateB (ots : N) (c : comp_pb)
| MCompListResp (rid : N) (comps : list comp_pb)
| MSubResp (rid : N)
| MUnsubResp (rid : N)
| MReceiptResp (rid : N)
| MVikjaState (acts : list action)
| MActionResp (rid : N)
| MActionB (ots : N) (a : action)
| MOdalState (assets : list asset)
| MAssetAddResp (rid iid : N)
| MAssetAddB (ots : N) (a : asset)
| MSignedLatencyResp (rid count : N) (ids : list N) (uuid client wallet : N) (stats_ok sig_ok : bool)
| MDagazResp (kind rid : N)
| MSnap (sessions : list sdump) (gauge : Z) (queued : list (N * N)) (* conn, queue length *)
| MBad (code arg : Z).   (* harness-reported anomaly: undecodable server message (-1 ty), reissued ping id (-2 idx),
                            non-canonical session id string (-3), unknown ping id in a latency report (-4 id) *)

Inductive verdict := VOk | VErr | VSkip | VPanic.

Inductive op :=
| OConnect (c : N)
| OSend (c : N) (r : req)        (* the receiver goroutine's scheduler.Dispatch *)
| OStep (c : N) (hint : N)       (* the main loop consumes one queued message *)
| OTick (sid : N)                (* one frame of the session's worker *)
| ODisconnect (c : N)            (* connection ends (any cause) *)
| OSnap.                         (* hook-read state dump, no side effect *)

Definition delivery : Type := N * msg.   (* recipient connection, message *)

(* [ev_req]: the request a [OStep] consumed (reported by the hook on the implementation
   side, the head of the queue in the model); [None] for every other op. *)
Record event := { ev_op : op; ev_req : option req; ev_outs : list delivery; ev_verdict : verdict }.
Definition trace := list event.

(* configuration of a history: flags set (0..9 = the ten DISABLE_* flags in the
   order of featureflag/flags.go, anything else is an unknown name) and the
   modules loaded. *)
Record config := { cfg_flags : list N; cfg_vikja : bool; cfg_odal : bool; cfg_dagaz : bool }.

Definition F_SESSION_STATE : N := 0.
Definition F_JOIN_B : N := 1.
Definition F_LEAVE_B : N := 2.
Definition F_ENTITY_ADD_B : N := 3.
Definition F_ENTITY_DELETE_B : N := 4.
Definition F_POSE_B : N := 5.
Definition F_CUSTOM_B : N := 6.
Definition F_COMP_ADD_B : N := 7.
Definition F_COMP_UPDATE_B : N := 8.
Definition F_COMP_DELETE_B : N := 9.

Definition flag_on (cfg : config) (f : N) : bool := memN f (cfg_flags cfg).

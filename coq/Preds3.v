(* Preds3.v — further clauses of the executable predicates, added after the proofs about Preds.v / Preds2.v were
   started (kept apart so that those files, and the theorems stated about them, stay as they are).

   C04, signed latency: "every request is answered exactly once ... a refused request changes nothing".  A
   signed-latency request is answered either at once (an error: refused) or later (one SIGNED_LATENCY_RESPONSE echoing
   its request id, after the ping rounds).  Clause 450: a SIGNED_LATENCY_RESPONSE delivered to a connection must echo the
   request id of the measurement that is RUNNING on that connection (the last signed-latency request that was accepted,
   i.e. that made the server issue a ping instead of an error, and that has not been answered yet); in particular it
   never echoes the id of a request that was refused (that request has had its one answer), and the running
   measurement is not renamed by a refused request.  No proofs in this file. *)
From hagall Require Export Preds2.

Record latq := { lq_run : gmap N N;        (* connection -> request id of the running measurement *)
                 lq_refused : gmap N (gset N) }.   (* connection -> request ids refused so far *)
Definition latq0 : latq := {| lq_run := ∅; lq_refused := ∅ |}.

Definition lat_responses (outs : list delivery) : list (N * N) :=      (* (connection, echoed rid) *)
  omap (λ d : delivery, match snd d with MSignedLatencyResp rid _ _ _ _ _ _ _ => Some (fst d, rid) | _ => None end) outs.

Definition P_C04_lat_event (cfg : config) (i : nat) (sp sp' : spec) (s : latq) (e : event) : latq * list violation :=
  (* 1. responses delivered in this event, against the state before it *)
  let resp := lat_responses (ev_outs e) in
  let bad := flat_map (λ cr : N * N,
                 if bool_decide (lq_run s !! fst cr = Some (snd cr)) &&
                    negb (bool_decide (snd cr ∈ default ∅ (lq_refused s !! fst cr)))
                 then [] else [viol i 450 [zn (fst cr); zn (snd cr)]]) resp in
  let run1 := fold_left (λ m cr, delete (fst cr : N) m) resp (lq_run s) in
  (* 2. what the consumed request does to the bookkeeping *)
  let s1 := {| lq_run := run1; lq_refused := lq_refused s |} in
  let s2 :=
    match stepped e with
    | Some (c, RSignedLatency rid _ _) =>
        if has_msg c (ev_outs e) (λ m, match m with MError r _ => r =? rid | _ => false end)
        then {| lq_run := lq_run s1; lq_refused := <[c := default ∅ (lq_refused s1 !! c) ∪ {[rid]}]> (lq_refused s1) |}
        else if has_msg c (ev_outs e) (λ m, match m with MPingReq _ => true | _ => false end)
        then {| lq_run := <[c := rid]> (lq_run s1); lq_refused := lq_refused s1 |}
        else s1
    | Some (c, RJoin _ _ _) =>
        (* a successful join gives the connection a new participant: its measurement is gone *)
        if is_Some_b (join_resp c (ev_outs e)) then {| lq_run := delete c (lq_run s1); lq_refused := lq_refused s1 |} else s1
    | _ => s1
    end in
  (s2, bad).

Definition P_C04_lat : pred := λ cfg t, xscan (P_C04_lat_event cfg) 0 spec0 latq0 t.

(* the predicate the C04 check evaluates: Preds2.P_C04 and the latency clause *)
Definition P_C04_full : pred := λ cfg t, P_C04 cfg t ++ P_C04_lat cfg t.

(* GridObs.v — what the C20 oracle computes besides the model itself: the comparison of a model
   state with a dumped implementation state, the conditioning margin of an insertion (how far the
   closest decision of the exact model is from flipping; used only to classify a model /
   implementation disagreement as ill-conditioned float32 rounding), the property predicate on a
   dumped state, and the tolerance tests of the float32 primitives against the exact references.
   No proofs here; nothing in this file is used by a theorem. *)
From Coq Require Import ZArith QArith Qround Qabs Qminmax List Bool.
From hagall Require Import Grid.
Import ListNotations.
Open Scope Q_scope.

Definition qclose (tol a b : Q) : bool := Qle_bool (Qabs (a - b)) tol.
Definition vclose (tol : Q) (a b : vec) : bool :=
  qclose tol (vx a) (vx b) && qclose tol (vy a) (vy b) && qclose tol (vz a) (vz b).

(* ------------------------------------------------------------------ state comparison *)
Fixpoint list_eqb (a b : list nat) : bool :=
  match a, b with
  | [], [] => true
  | x :: a', y :: b' => Nat.eqb x y && list_eqb a' b'
  | _, _ => false
  end.

Fixpoint row_diff (x : nat) (a b : list (list nat)) : option nat :=
  match a, b with
  | [], [] => None
  | ca :: a', cb :: b' => if list_eqb ca cb then row_diff (S x) a' b' else Some x
  | _, _ => Some x
  end.

Fixpoint cells_diff (y : nat) (a b : cells_t) : option (nat * nat) :=
  match a, b with
  | [], [] => None
  | ra :: a', rb :: b' =>
      match row_diff 0 ra rb with
      | Some x => Some (y, x)
      | None => cells_diff (S y) a' b'
      end
  | _, _ => Some (y, 0%nat)
  end.

Fixpoint planes_diff (tol : Q) (k : nat) (a b : list quad) : option nat :=
  match a, b with
  | [], [] => None
  | p :: a', q :: b' =>
      if vclose tol (qc p) (qc q) && vclose tol (qe p) (qe q) && vclose tol (qn p) (qn q) && (qmerges p =? qmerges q)%N
      then planes_diff tol (S k) a' b' else Some k
  | _, _ => Some k
  end.

(* codes: 1 res, 2 plane count, 3 merge count, 4..7 bounds, 8 cells (y, x), 9 planes (index) *)
Definition grid_diff (tol : Q) (m i : grid) : list (Z * Z * Z) :=
  (if (g_res m =? g_res i)%Z then [] else [(1, g_res m, g_res i)]%Z) ++
  (if (g_planecount m =? g_planecount i)%N then [] else [(2, Z.of_N (g_planecount m), Z.of_N (g_planecount i))]%Z) ++
  (if (g_mergecount m =? g_mergecount i)%N then [] else [(3, Z.of_N (g_mergecount m), Z.of_N (g_mergecount i))]%Z) ++
  (if (g_minx m =? g_minx i)%Z then [] else [(4, g_minx m, g_minx i)]%Z) ++
  (if (g_minz m =? g_minz i)%Z then [] else [(5, g_minz m, g_minz i)]%Z) ++
  (if (g_maxx m =? g_maxx i)%Z then [] else [(6, g_maxx m, g_maxx i)]%Z) ++
  (if (g_maxz m =? g_maxz i)%Z then [] else [(7, g_maxz m, g_maxz i)]%Z) ++
  (match cells_diff 0 (g_cells m) (g_cells i) with
   | None => [] | Some (y, x) => [(8, Z.of_nat y, Z.of_nat x)]%Z end) ++
  (match planes_diff tol 0 (g_planes m) (g_planes i) with
   | None => [] | Some k => [(9, Z.of_nat k, 0)]%Z end).

(* ------------------------------------------------------------------ property predicate on a state
   codes: 1 (id, y, x) not registered in an overlapped cell; 2 (id) footprint outside the bounds;
          3 plane count differs from the number of distinct stored planes *)
Definition check_state (tol : Q) (g : grid) : list (Z * Z * Z * Z) :=
  map (fun t : nat * nat * nat => let '(id, y, x) := t in (1, Z.of_nat id, Z.of_nat y, Z.of_nat x)%Z) (incomplete tol g) ++
  map (fun id => (2, Z.of_nat id, 0, 0)%Z) (out_of_bounds tol g) ++
  (if count_ok g then [] else [(3, Z.of_nat (length (all_ids g)), Z.of_N (g_planecount g), 0)]%Z).

(* a region result returned by the implementation for a covering query: every stored plane exactly once *)
Definition region_result_ok (g : grid) (ids : list nat) : bool :=
  nodup_b ids && same_set ids (seq 0 (length (g_planes g))).

(* ------------------------------------------------------------------ conditioning margins *)
Definition Qmin_list (l : list Q) : Q := fold_left Qmin l 1000.

Definition frac_dist (v : Q) : Q :=
  let f := v - inject_Z (Qfloor v) in Qmin f (1 - f).

(* floor / lattice decisions taken on the footprint of q *)
Definition quad_margin (q : quad) : Q :=
  Qmin_list [frac_dist (vx (qmin q)); frac_dist (vx (qmax q)); frac_dist (vz (qmin q)); frac_dist (vz (qmax q))].

Definition nz (q : Q) : list Q := if isz q then [] else [Qabs q].     (* an exact tie is also a float tie *)

(* decisions of one vertical probe from the centre of qm against plane p *)
Definition probe_margin (qm p : quad) : list Q :=
  let dy := vy (qc p) - vy (qc qm) in
  let cx := vx (qc qm) in let cz := vz (qc qm) in
  nz dy ++ [Qabs (Qabs dy - ray_reach); Qabs (Qabs dy - merge_epsilon);
            Qabs (cx + range_epsilon - vx (qmin p)); Qabs (cx - range_epsilon - vx (qmax p));
            Qabs (cz + range_epsilon - vz (qmin p)); Qabs (cz - range_epsilon - vz (qmax p));
            Qabs (vx (qmin p) - vx (qmax qm)); Qabs (vx (qmax p) - vx (qmin qm));
            Qabs (vz (qmin p) - vz (qmax qm)); Qabs (vz (qmax p) - vz (qmin qm))].

Fixpoint pair_margin (dys : list Q) : list Q :=
  match dys with
  | [] => []
  | d :: rest =>
      flat_map (fun d' => if Qeq_bool d d' && isz d then [] else [Qabs (Qabs d - Qabs d')]) rest ++ pair_margin rest
  end.

Definition centre_cell (g : grid) (qm : quad) : list nat :=
  get_cell (g_cells g) (Z.to_nat (cellz g (vz (qc qm)))) (Z.to_nat (cellx g (vx (qc qm)))).

Definition cell_planes (g : grid) (ids : list nat) : list quad :=
  flat_map (fun id => match nth_error (g_planes g) id with Some p => [p] | None => [] end) ids.

Definition iteration_margin (g : grid) (qm : quad) : Q :=
  let ps := cell_planes g (centre_cell g qm) in
  Qmin_list ([frac_dist (vx (qc qm)); frac_dist (vz (qc qm))] ++
             flat_map (probe_margin qm) ps ++
             pair_margin (map (fun p => vy (qc p) - vy (qc qm)) ps)).

(* follows the control flow of Grid.merge_loop (same decisions, same state transitions) and
   collects the margins *)
Fixpoint loop_margin (fuel : nat) (g : grid) (q : quad) (cur : qref) : Q :=
  match fuel with
  | O => 0
  | S fuel' =>
      match deref g q cur with
      | None => 0
      | Some qm =>
          let here := iteration_margin g qm in
          let up := grid_intersect g (vertical_ray (qc qm) ray_reach) in
          let down := grid_intersect g (vertical_ray (qc qm) (- ray_reach)) in
          match ires_hit up, ires_hit down with
          | None, None => here
          | hitUp, hitDown =>
              let hit := if ext_ltb (ires_t down) (ires_t up) then hitDown else hitUp in
              match hit with
              | None => here
              | Some h =>
                  match nth_error (g_planes g) h with
                  | None => here
                  | Some hq =>
                      if equal_eps (vy (qc hq)) (vy (qc qm)) merge_epsilon && overlap hq qm then
                        let g' := merge_quads g h qm in
                        match nth_error (g_planes g') h, deref g' q cur with
                        | Some hq', Some qm' =>
                            (* the footprint of the hit plane is recomputed BEFORE and after the blend *)
                            let moved := Qmin (quad_margin hq) (quad_margin hq') in
                            if veq_bool (qc hq') (qc qm') then Qmin here moved
                            else
                              let d := Qmax (Qabs (vx (qc hq') - vx (qc qm')))
                                            (Qmax (Qabs (vy (qc hq') - vy (qc qm'))) (Qabs (vz (qc hq') - vz (qc qm')))) in
                              Qmin (Qmin here moved) (Qmin d (loop_margin fuel' g' q (QOld h)))
                        | _, _ => here
                        end
                      else here
                  end
              end
          end
      end
  end.

Definition insert_margin (g : grid) (q : quad) : Q :=
  let g1 := expand (expand g (qmin q)) (qmax q) in
  Qmin (quad_margin q) (loop_margin merge_fuel g1 q QNew).

(* margin of a ray query through one cell: t against 0 and 1, the in-range tests, ties between planes *)
Definition ray_margin (g : grid) (r : ray) : Q :=
  let fx := vx (rfrom r) in let fz := vz (rfrom r) in
  let ids := get_cell (g_cells g) (Z.to_nat (cellz g fz)) (Z.to_nat (cellx g fx)) in
  let ps := cell_planes g ids in
  let dy := vy (rto r) - vy (rfrom r) in
  let ts := map (fun p => (vy (qc p) - vy (rfrom r)) / dy) ps in
  Qmin_list ([frac_dist fx; frac_dist fz] ++
             flat_map (fun t => [Qabs t; Qabs (t - 1)]) ts ++
             flat_map (fun p => [Qabs (fx + range_epsilon - vx (qmin p)); Qabs (fx - range_epsilon - vx (qmax p));
                                 Qabs (fz + range_epsilon - vz (qmin p)); Qabs (fz - range_epsilon - vz (qmax p))]) ps ++
             pair_margin ts).

(* ------------------------------------------------------------------ primitives: float32 vs exact *)
Definition two_pow (n : positive) : Q := inject_Z (Z.pow 2 (Zpos n)).
Definition rel_tol : Q := 1 # (Pos.pow 2 22).            (* 4 * 2^-24: three roundings and second order *)
Definition abs_tol : Q := 1 # (Pos.pow 2 140).           (* underflow of the products *)
Definition huge : Q := two_pow 127.                      (* beyond this a float32 expression may overflow *)

Definition sum_abs (a b : vec) : Q := Qabs (vx a * vx b) + Qabs (vy a * vy b) + Qabs (vz a * vz b).

(* result None = the implementation returned a non-finite float32 *)
Definition dot_ok (a b : vec) (r : option Q) : bool :=
  match r with
  | None => Qle_bool huge (sum_abs a b)
  | Some r => Qle_bool (Qabs (r - dot a b)) (rel_tol * sum_abs a b + abs_tol)
  end.

Definition comp_ok (p1 p2 : Q) (r : option Q) : bool :=     (* r ~ p1 - p2 *)
  match r with
  | None => Qle_bool huge (Qabs p1 + Qabs p2)
  | Some r => Qle_bool (Qabs (r - (p1 - p2))) (rel_tol * (Qabs p1 + Qabs p2) + abs_tol)
  end.

Definition cross_ok (a b : vec) (rx ry rz : option Q) : bool :=
  comp_ok (vy a * vz b) (vz a * vy b) rx &&
  comp_ok (vz a * vx b) (vx a * vz b) ry &&
  comp_ok (vx a * vy b) (vy a * vx b) rz.

(* normal of (c, e): unit length, parallel to and in the direction of the exact cross product
   (for a horizontal quad the exact normal is (0, 1, 0) and the test is |n - (0,1,0)| <= 2^-20) *)
Definition unit_tol : Q := 1 # (Pos.pow 2 20).
Definition normal_ok (c e : vec) (n : vec) : bool :=
  let pointA := vadd c (mkVec (vx e) (vy e) 0) in
  let pointB := vadd c (mkVec 0 (vy e) (vz e)) in
  let w := cross (vsub pointB c) (vsub pointA c) in
  let ww := dot w w in
  if isz ww then vclose unit_tol n w          (* zero vector stays as it is *)
  else
    let ex := calc_normal c e in
    if isz (vx w) && isz (vz w) then vclose unit_tol n ex
    else
      let nn := dot n n in
      let k := cross n w in
      qclose unit_tol nn 1 && Qlt_bool 0 (dot n w) && Qle_bool (dot k k) (unit_tol * unit_tol * ww).

(* overlap: the decision, and how close its closest comparison is to flipping *)
Definition overlap_margin (a b : quad) : Q :=
  Qmin_list [Qabs (vx (qmin a) - vx (qmax b)); Qabs (vx (qmax a) - vx (qmin b));
             Qabs (vz (qmin a) - vz (qmax b)); Qabs (vz (qmax a) - vz (qmin b))].

(* ray-quad: tolerance on t and margin of the hit decision *)
Definition ray_quad_t (r : ray) (q : quad) : option Q :=
  let dir := vsub (rto r) (rfrom r) in
  let den := dot (qn q) dir in
  if isz den then None else Some ((dot (qn q) (qc q) - dot (qn q) (rfrom r)) / den).

Definition ray_quad_ttol (r : ray) (q : quad) : Q :=
  let dir := vsub (rto r) (rfrom r) in
  let den := dot (qn q) dir in
  if isz den then 0
  else (1 # (Pos.pow 2 19)) * (sum_abs (qn q) (qc q) + sum_abs (qn q) (rfrom r)) / Qabs den
       + (1 # (Pos.pow 2 19)) * (sum_abs (qn q) dir / Qabs den) + (1 # (Pos.pow 2 19)).

Definition ray_quad_margin (r : ray) (q : quad) : Q :=
  let dir := vsub (rto r) (rfrom r) in
  match ray_quad_t r q with
  | None => 0
  | Some t =>
      let hp := vadd (rfrom r) (vmul dir t) in
      let mn := qmin q in let mx := qmax q in
      Qmin_list [Qabs t; Qabs (t - 1); Qabs (dot (qn q) dir);
                 Qabs (vx hp + range_epsilon - vx mn); Qabs (vx hp - range_epsilon - vx mx);
                 Qabs (vz hp + range_epsilon - vz mn); Qabs (vz hp - range_epsilon - vz mx)]
  end.

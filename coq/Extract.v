(* Extract.v — extraction of the executable model and the observation functions to OCaml.
   Only the directives of ExtrOcamlBasic are used (bool, option, unit, list, prod, sumbool,
   comparison -> native OCaml types); N, Z, positive, nat stay extracted inductive datatypes. *)
From hagall Require Import Preds2 Preds3 Purge.
Require Extraction.
Require ExtrOcamlBasic.
Extraction Language OCaml.
Extraction "model.ml" dec_op dec_msg dec_req dec_cfg dec_verdict enc_msg enc_req enc_verdict
  diff_trace pi_full P_none run pi_C14 P_C14
  pi_C02 P_C02 pi_C05 P_C05 pi_C06 P_C06 pi_C07 P_C07 pi_C10 P_C10 pi_C12 P_C12 pi_C13 P_C13 pi_C16 P_C16
  lift diff_trace_t pi_C01 P_C01 pi_C03 P_C03 pi_C04 P_C04 pi_C11 P_C11 pi_C17 P_C17 pi_C18 P_C18 run_P_C17_pair no_skip skip_limit tpi_C01 tpi_C05 pi_none P_C04_full run_P_C03_purge model_purge is_skip_code.

(* Extract.v — extraction of the executable model and the observation functions to OCaml.
   Only the directives of ExtrOcamlBasic are used (bool, option, unit, list, prod, sumbool,
   comparison -> native OCaml types); N, Z, positive, nat stay extracted inductive datatypes. *)
From hagall Require Import Obs.
Require Extraction.
Require ExtrOcamlBasic.
Extraction Language OCaml.
Extraction "model.ml" dec_op dec_msg dec_req dec_cfg dec_verdict enc_msg enc_req enc_verdict
  diff_trace pi_full P_none run pi_C14 P_C14.

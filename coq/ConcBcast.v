(* ConcBcast.v — interleaving semantics of Session.Broadcast / Session.BroadcastTo (models/session.go) racing the
   moves of connections between SEVERAL sessions (AddParticipant / RemoveParticipant), for the concurrent reading
   of C03 ("nothing a connection sends is observable by participants of a session the connection is not
   currently in").  Executable, total, no proofs in this file.

   A thread is one connection: websocket/handler.go handles the messages of a connection one after the other, so
   the requests of a connection form ONE sequential program; connections run concurrently.  For simplicity a
   connection has ONE id, which is also its participant id in whatever session it is in.
   One instruction = one critical section of package models (or one delivery):

     join of session s        a handler whose currentSession is set leaves it first:
                              RemoveParticipant on the old session (participantMutex, write)                ILeave c
                              AddParticipant on s (participantMutex, write); currentSession := s;
                              then the join response is sent to the connection                              IEnter c s
                                                                                      move c s = [ILeave c; IEnter c s]
     Broadcast(sender, msg)   participantMutex.RLock held over the whole loop: every other member of the
                              sender's current session is handed msg                                        IBroadcast c tag
     BroadcastTo(sender, msg, ids...)   the same, the members among ids only, each once, never the sender   IBroadcastTo c tag qs

   Before the repair (commit 24b0f8e) / seeded change: the recipients are read under the lock into a local slice
   and served AFTER the lock is released:
                              snapshot of the recipients (RLock ... RUnlock)                                IBcastSnapshot c tag
                                                                                                            IBcastToSnapshot c tag qs
        per remembered q      q.Responder.SendMsg(msg), no lock, whatever q's membership is by then         IBcastDeliver c s q tag
   The snapshot unfolds at run time: it pushes one IBcastDeliver per remembered recipient in front of the rest of
   the thread's program (the pushed instructions are the handler's continuation: the local slice and where the
   loop stands); every one of them is a scheduling point of its own.

   b_sess is Session.participants (its key set) per session id; b_cur is the handler's currentSession, per
   connection id (read and written by that connection's handler only).  ILeave of a connection that is in no session
   does nothing (the first join of a connection, a disconnect before any join).  A range over a Go map has no
   fixed order; the model delivers in the order of [elements]: no statement depends on the order.
   The log records what each instruction did, in execution order:
     EvJoined c s        c was added to s and sent the join response
     EvLeft c s          c was removed from s
     EvDeliver q s c tag q's Responder was handed the message tag that c sent in session s. *)
From hagall Require Import Base.

Inductive instr :=
| ILeave (c : N)
| IEnter (c s : N)
| IBroadcast (c tag : N)
| IBroadcastTo (c tag : N) (qs : list N)
| IBcastSnapshot (c tag : N)
| IBcastToSnapshot (c tag : N) (qs : list N)
| IBcastDeliver (c s q tag : N).

Inductive event :=
| EvJoined (c s : N)
| EvLeft (c s : N)
| EvDeliver (q s c tag : N).

Global Instance event_eq_dec : EqDecision event.
Proof. solve_decision. Defined.

(* the member sets, per session id *)
Notation sessions := (gmap N (gset N)).
Definition members (m : sessions) (s : N) : gset N := default ∅ (m !! s).
Definition add_member (s c : N) (m : sessions) : sessions := <[s := {[c]} ∪ members m s]> m.
Definition del_member (s c : N) (m : sessions) : sessions := <[s := members m s ∖ {[c]}]> m.

(* membership as determined by the log alone *)
Definition apply_event (m : sessions) (ev : event) : sessions :=
  match ev with
  | EvJoined c s => add_member s c m
  | EvLeft c s => del_member s c m
  | EvDeliver _ _ _ _ => m
  end.
Definition members_after (l : list event) : sessions := fold_left apply_event l ∅.

Record bstate := {
  b_sess : sessions;             (* keys of Session.participants, per session *)
  b_cur : gmap N N;              (* handler.currentSession, per connection *)
  b_thr : list (list instr);     (* thread i is the i-th connection: what it still has to execute *)
  b_log : list event             (* oldest first *)
}.

(* Broadcast: every member but the sender *)
Definition recipients (m : sessions) (s c : N) : list N := elements (members m s ∖ {[c]}).
(* BroadcastTo: the loop over participantIds with its isParticipantHandled set *)
Fixpoint addressed_go (m : sessions) (s c : N) (qs : list N) (handled : gset N) : list N :=
  match qs with
  | [] => []
  | q :: r =>
      if decide (q ∈ members m s ∧ q ≠ c ∧ q ∉ handled) then q :: addressed_go m s c r ({[q]} ∪ handled)
      else addressed_go m s c r handled
  end.
Definition addressed (m : sessions) (s c : N) (qs : list N) : list N := addressed_go m s c qs ∅.

(* one instruction on the shared state: new member sets, new currentSession map, instructions pushed in front
   of the rest of the thread's program, what is appended to the log *)
Definition exec (i : instr) (m : sessions) (cur : gmap N N) : sessions * gmap N N * list instr * list event :=
  match i with
  | ILeave c =>
      match cur !! c with
      | Some s => (del_member s c m, delete c cur, [], [EvLeft c s])
      | None => (m, cur, [], [])
      end
  | IEnter c s => (add_member s c m, <[c := s]> cur, [], [EvJoined c s])
  | IBroadcast c tag =>
      match cur !! c with
      | Some s => (m, cur, [], map (λ q, EvDeliver q s c tag) (recipients m s c))
      | None => (m, cur, [], [])
      end
  | IBroadcastTo c tag qs =>
      match cur !! c with
      | Some s => (m, cur, [], map (λ q, EvDeliver q s c tag) (addressed m s c qs))
      | None => (m, cur, [], [])
      end
  | IBcastSnapshot c tag =>
      match cur !! c with
      | Some s => (m, cur, map (λ q, IBcastDeliver c s q tag) (recipients m s c), [])
      | None => (m, cur, [], [])
      end
  | IBcastToSnapshot c tag qs =>
      match cur !! c with
      | Some s => (m, cur, map (λ q, IBcastDeliver c s q tag) (addressed m s c qs), [])
      | None => (m, cur, [], [])
      end
  | IBcastDeliver c s q tag => (m, cur, [], [EvDeliver q s c tag])
  end.

(* one step of thread [tid]; a finished or unknown thread does nothing *)
Definition step (st : bstate) (tid : nat) : bstate :=
  match b_thr st !! tid with
  | None => st
  | Some [] => st
  | Some (i :: rest) =>
      let r := exec i (b_sess st) (b_cur st) in
      {| b_sess := r.1.1.1; b_cur := r.1.1.2; b_thr := <[tid := r.1.2 ++ rest]> (b_thr st);
         b_log := b_log st ++ r.2 |}
  end.

Definition sched_run (st : bstate) (σ : list nat) : bstate := fold_left step σ st.

Definition binit (progs : list (list instr)) : bstate :=
  {| b_sess := ∅; b_cur := ∅; b_thr := progs; b_log := [] |}.

Definition complete (st : bstate) : bool := forallb (λ pr, match pr with [] => true | _ => false end) (b_thr st).

(* a join of session s as the handler performs it *)
Definition move (c s : N) : list instr := [ILeave c; IEnter c s].

(* ---------- the facts about the code that the theorems are conditional on ---------- *)
(* recipients are looked up AND served under the participant lock: no snapshot / deliver-later *)
Definition instr_atomic (i : instr) : bool :=
  match i with IBcastSnapshot _ _ | IBcastToSnapshot _ _ _ | IBcastDeliver _ _ _ _ => false | _ => true end.
Definition uses_atomic_broadcast (progs : list (list instr)) : bool := forallb (forallb instr_atomic) progs.

(* the shape of a connection's program: AddParticipant comes directly after the RemoveParticipant of the same
   connection ([jl] = the connection that has just left); no IBcastDeliver of its own, they are only pushed *)
Fixpoint wf_from (jl : option N) (prog : list instr) : bool :=
  match prog with
  | [] => true
  | i :: r =>
      match i with
      | ILeave c => wf_from (Some c) r
      | IEnter c _ => bool_decide (jl = Some c) && wf_from None r
      | IBcastDeliver _ _ _ _ => false
      | _ => wf_from None r
      end
  end.

Definition conn_of (i : instr) : N :=
  match i with
  | ILeave c | IEnter c _ | IBroadcast c _ | IBroadcastTo c _ _ | IBcastSnapshot c _ | IBcastToSnapshot c _ _
  | IBcastDeliver c _ _ _ => c
  end.
(* the connection ids a program acts as (ids it merely addresses do not count) *)
Definition parts (prog : list instr) : list N := map conn_of prog.

(* no connection id is used by two threads *)
Definition threads_disjoint (progs : list (list instr)) : bool :=
  forallb (λ ip : nat * list instr,
    forallb (λ jq : nat * list instr,
      (ip.1 =? jq.1)%nat || forallb (λ p, negb (bool_decide (p ∈ parts jq.2))) (parts ip.2))
      (imap pair progs))
    (imap pair progs).

Definition wellformed (progs : list (list instr)) : bool :=
  forallb (wf_from None) progs && threads_disjoint progs.

(* ---------- executable observers and judges (for examples and for a harness) ---------- *)
Definition obs_sessions (m : sessions) : list (N * list N) := map_to_list (elements <$> m).
Definition obs_cur (st : bstate) : list (N * N) := map_to_list (b_cur st).
Definition is_member (m : sessions) (s q : N) : bool := bool_decide (q ∈ members m s).

(* every delivery in [l], read from member sets [m] on, goes to a member and comes from a member *)
Fixpoint deliveries_ok (m : sessions) (l : list event) : bool :=
  match l with
  | [] => true
  | ev :: r =>
      match ev with
      | EvDeliver q s c _ => is_member m s q && is_member m s c
      | _ => true
      end && deliveries_ok (apply_event m ev) r
  end.
(* the receivers of tag sent by c in s, in order *)
Definition delivered_to (s c tag : N) (l : list event) : list N :=
  omap (λ ev, match ev with
              | EvDeliver q s' c' t => if decide (s' = s ∧ c' = c ∧ t = tag) then Some q else None
              | _ => None end) l.

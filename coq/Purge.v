(* Purge.v — the noninterference experiment of C03, as an executable judgement.

   "Apart from the session ids themselves, the messages the members of one session
   receive are the same whether or not other sessions exist and whatever happens in
   them" is decided by running a history twice: in full, and with the traffic of every
   connection outside a group [A] removed (connections of [A] never share a session
   with a connection outside it).  [P_purge A t1 t2] walks the full trace [t1] and the
   purged trace [t2] side by side and reports

     330  an operation of a connection outside [A] (or a tick of a session without
          members in [A]) delivered a message to a connection of [A];
     331  the connections of [A] receive different messages in the two runs (session
          ids and session uuids compared up to a bijection; everything else literally);
     332  the verdicts (accepted / connection ended) differ;
     333  the payload digests differ (what the [msg] abstraction leaves out, e.g. the
          planes in a dagaz answer);
     334  the membership relation of the two runs is not a renaming of session ids;

   and, when the experiment does not apply to the history, one of the codes >= 390
   (never a violation):

     391/392  the purged trace is not the purge of the full trace (harness error);
     397  a join names a session id whose liveness changed between send and step;
     398  a request of [A] uses a server-wide resource (ping ids, receipt channel);
     399  [A] is not separated: a session has members inside and outside [A].

   The scan stops at the first report.  [purge_hist] builds the purged history of a
   model run; proofs/Purge*.v show that the model never yields a code below 390. *)
From hagall Require Export Model Codec Spec Obs Preds.

(* an event together with the payload digests of its deliveries (missing = 0) *)
Definition devent : Type := event * list N.
Definition dtrace := list devent.
Definition with_dig0 (t : trace) : dtrace := map (λ e, (e, [])) t.

Definition grp (A : list N) (c : N) : bool := memN c A.

(* deliveries to connections of [A] (snapshots are not deliveries), in the canonical order of Obs.canon_outs:
   what the code leaves unordered (Go map iteration) is sorted *)
Definition keep (A : list N) (d : delivery) : bool :=
  grp A (fst d) && negb (match snd d with MSnap _ _ _ => true | _ => false end).
Definition outs_to (A : list N) (outs : list delivery) : list delivery :=
  canon_outs (List.filter (keep A) outs).

(* the non-zero payload digests of those deliveries: (recipient, message type, digest), by recipient *)
Fixpoint digs_raw (A : list N) (outs : list delivery) (dg : list N) : list (list Z) :=
  match outs with
  | [] => []
  | d :: outs' =>
      let g := hd 0 dg in
      let rest := digs_raw A outs' (tl dg) in
      if keep A d && negb (g =? 0) then [zn (fst d); hd 0%Z (enc_msg (snd d)); zn g] :: rest else rest
  end.
Definition digs_to (A : list N) (outs : list delivery) (dg : list N) : list (list Z) :=
  sort_lines (digs_raw A outs dg).

(* session of a connection according to the membership observer *)
Definition cur_of (m : members) (c : N) : option N := fst <$> m !! c.

(* the purged run's name of the full run's session [s]: defined while a connection of [A] is in [s] *)
Definition rho (A : list N) (m1 m2 : members) (s : N) : option N :=
  head (omap (λ c, if bool_decide (cur_of m1 c = Some s) then cur_of m2 c else None) A).

Definition live_in (A : list N) (m : members) (s : N) : bool :=
  existsb (λ c, bool_decide (cur_of m c = Some s)) A.

(* a connection outside [A] is in session [s] *)
Definition foreign_in (A : list N) (m : members) (s : N) : bool :=
  existsb (λ kv : N * (N * N), negb (grp A (fst kv)) && (fst (snd kv) =? s)) (map_to_list m).

Definition separated (A : list N) (m : members) : bool :=
  forallb (λ c, match cur_of m c with Some s => negb (foreign_in A m s) | None => true end) A.

(* the two membership maps restricted to [A] differ by a renaming of session ids only *)
Definition rho_ok (A : list N) (m1 m2 : members) : bool :=
  forallb (λ c,
    bool_decide (snd <$> m1 !! c = snd <$> m2 !! c) &&
    forallb (λ d, bool_decide ((cur_of m1 c = cur_of m1 d) ↔ (cur_of m2 c = cur_of m2 d))) A) A.

Definition relevant (A : list N) (m1 : members) (o : op) : bool :=
  match o with
  | OConnect c | OSend c _ | OStep c _ | ODisconnect c => grp A c
  | OTick s => live_in A m1 s
  | OSnap => false
  end.

Definition global_req (r : req) : bool :=
  match r with RPingResp _ | RSignedLatency _ _ _ | RReceipt _ _ _ _ => true | _ => false end.

(* requests correspond: literally, except that a join may name any numeric id (decided when it is consumed) *)
Definition req_match (r1 r2 : req) : bool :=
  match r1, r2 with
  | RJoin rid1 (SId _) ots1, RJoin rid2 (SId _) ots2 => (rid1 =? rid2) && (ots1 =? ots2)
  | _, _ => bool_decide (enc_req r1 = enc_req r2)
  end.

Definition op_match (A : list N) (m1 m2 : members) (o1 o2 : op) : bool :=
  match o1, o2 with
  | OConnect c, OConnect c' | ODisconnect c, ODisconnect c' | OStep c _, OStep c' _ => c =? c'
  | OSend c r, OSend c' r' => (c =? c') && req_match r r'
  | OTick s, OTick s' => bool_decide (rho A m1 m2 s = Some s')
  | _, _ => false
  end.

(* the join consumed now names corresponding sessions in the two runs:
   0 = yes; 397 = liveness changed since it was sent; 399 = it names a session of the others *)
Definition join_now (A : list N) (m1 m2 : members) (r1 r2 : option req) : Z :=
  match r1, r2 with
  | Some (RJoin _ (SId n) _), Some (RJoin _ (SId n') _) =>
      match rho A m1 m2 n with
      | Some s' => if n' =? s' then 0%Z else 397%Z
      | None => if foreign_in A m1 n then 399%Z else if live_in A m2 n' then 397%Z else 0%Z
      end
  | _, _ => 0%Z
  end.

Definition opt_req_match (r1 r2 : option req) : bool :=
  match r1, r2 with
  | Some a, Some b => req_match a b
  | None, None => true
  | _, _ => false
  end.

(* session uuids: a bijection built by first appearance *)
Definition uu_ok (uu : list (N * N)) (a b : N) : bool :=
  forallb (λ p : N * N, bool_decide ((fst p = a) ↔ (snd p = b))) uu.
Definition uu_add (uu : list (N * N)) (a b : N) : list (N * N) :=
  if existsb (λ p : N * N, fst p =? a) uu then uu else (a, b) :: uu.

Definition same_verdict (v1 v2 : verdict) : bool :=
  match v1, v2 with VOk, VOk | VErr, VErr | VSkip, VSkip | VPanic, VPanic => true | _, _ => false end.

Fixpoint outs_match (i : nat) (uu : list (N * N)) (l1 l2 : list delivery) : list (N * N) * list violation :=
  match l1, l2 with
  | [], [] => (uu, [])
  | d1 :: l1', d2 :: l2' =>
      if negb (fst d1 =? fst d2) then (uu, [viol i 331 [zn (fst d1); zn (fst d2)]])
      else
        let same :=
          match snd d1, snd d2 with
          | MJoinResp r1 _ u1 p1, MJoinResp r2 _ u2 p2 => (r1 =? r2) && (p1 =? p2) && uu_ok uu u1 u2
          | m1, m2 => bool_decide (enc_msg m1 = enc_msg m2)
          end in
        if negb same then (uu, [viol i 331 (zn (fst d1) :: hd 0%Z (enc_msg (snd d1)) :: hd 0%Z (enc_msg (snd d2)) :: [])])
        else
          let uu' := match snd d1, snd d2 with
                     | MJoinResp _ _ u1 _, MJoinResp _ _ u2 _ => uu_add uu u1 u2
                     | _, _ => uu end in
          outs_match i uu' l1' l2'
  | _, _ => (uu, [viol i 331 [Z.of_nat (length l1); Z.of_nat (length l2)]])
  end.

Definition is_snap_dev (e : devent) : bool := match ev_op (fst e) with OSnap => true | _ => false end.
Fixpoint skip_snaps (t : dtrace) : dtrace :=
  match t with
  | e :: t' => if is_snap_dev e then skip_snaps t' else t
  | [] => []
  end.

Record pst := { p_m1 : members; p_m2 : members; p_uu : list (N * N) }.
Definition pst0 : pst := {| p_m1 := ∅; p_m2 := ∅; p_uu := [] |}.

Fixpoint purge_scan (A : list N) (i : nat) (s : pst) (t1 t2 : dtrace) : list violation :=
  match t1 with
  | [] => match skip_snaps t2 with [] => [] | _ => [viol i 392 []] end
  | (e1, g1) :: t1' =>
      let m1' := obs_step (p_m1 s) e1 in
      if negb (relevant A (p_m1 s) (ev_op e1)) then
        if negb (separated A m1') then [viol i 399 []]
        else match outs_to A (ev_outs e1) with
        | d :: _ => [viol i 330 [zn (fst d); hd 0%Z (enc_msg (snd d))]]
        | [] => purge_scan A (S i) {| p_m1 := m1'; p_m2 := p_m2 s; p_uu := p_uu s |} t1' t2
        end
      else
        match skip_snaps t2 with
        | [] => [viol i 392 []]
        | (e2, g2) :: t2' =>
            if negb (op_match A (p_m1 s) (p_m2 s) (ev_op e1) (ev_op e2)) then [viol i 391 [0%Z]]
            else if negb (opt_req_match (ev_req e1) (ev_req e2)) then [viol i 391 [1%Z]]
            else if match ev_req e1 with Some r => global_req r | None => false end then [viol i 398 []]
            else
              let j := join_now A (p_m1 s) (p_m2 s) (ev_req e1) (ev_req e2) in
              if negb (j =? 0)%Z then [viol i j []]
              else
                let '(uu', vs) := outs_match i (p_uu s) (outs_to A (ev_outs e1)) (outs_to A (ev_outs e2)) in
                match vs with
                | _ :: _ => vs
                | [] =>
                    if negb (same_verdict (ev_verdict e1) (ev_verdict e2)) then [viol i 332 []]
                    else if negb (bool_decide (digs_to A (ev_outs e1) g1 = digs_to A (ev_outs e2) g2)) then [viol i 333 []]
                    else
                      let m2' := obs_step (p_m2 s) e2 in
                      if negb (separated A m1') then [viol i 399 []]
                      else if negb (rho_ok A m1' m2') then [viol i 334 []]
                      else purge_scan A (S i) {| p_m1 := m1'; p_m2 := m2'; p_uu := uu' |} t1' t2'
                end
        end
  end.

Definition P_purge (A : list N) (t1 t2 : dtrace) : list violation := purge_scan A 0 pst0 t1 t2.

Definition is_skip_code (c : Z) : bool := (390 <=? c)%Z.

(* ---------- the purged history of a model run ---------- *)
Definition dead_sid (n : N) : N := 1000000 + n.

Definition translate (A : list N) (m1 m2 : members) (o : op) : op :=
  match o with
  | OTick s => OTick (default s (rho A m1 m2 s))
  | OSend c (RJoin rid (SId n) ots) =>
      OSend c (RJoin rid (SId (default (dead_sid n) (rho A m1 m2 n))) ots)
  | _ => o
  end.

Definition event_of (cfg : config) (st : state) (o : op) : event * state :=
  let '(st', outs, v) := step cfg st o in
  ({| ev_op := o; ev_req := consumed st o; ev_outs := outs; ev_verdict := v |}, st').

Fixpoint purge_from (cfg : config) (A : list N) (st1 st2 : state) (m1 m2 : members) (h : list op) : list op :=
  match h with
  | [] => []
  | o :: h' =>
      let '(e1, st1') := event_of cfg st1 o in
      let m1' := obs_step m1 e1 in
      if relevant A m1 o then
        let o2 := translate A m1 m2 o in
        let '(e2, st2') := event_of cfg st2 o2 in
        o2 :: purge_from cfg A st1' st2' m1' (obs_step m2 e2) h'
      else purge_from cfg A st1' st2 m1' m2 h'
  end.

Definition purge_hist (cfg : config) (A : list N) (h : list op) : list op :=
  purge_from cfg A state0 state0 ∅ ∅ h.

(* the experiment on the model itself *)
Definition model_purge (cfg : config) (A : list N) (h : list op) : list violation :=
  P_purge A (with_dig0 (run cfg h)) (with_dig0 (run cfg (purge_hist cfg A h))).

(* entry point for implementation traces *)
Definition run_P_C03_purge (A : list N) (t1 t2 : dtrace) : list violation := P_purge A t1 t2.

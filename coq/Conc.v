(* Conc.v — interleaving semantics of HandleParticipantJoin / leaveSession (websocket/realtime.go) over the session
   registry (models/session.go SessionStore, Session.participants, models/id.go), at the granularity of the
   critical sections of package models.  Executable, total, no proofs in this file.

   One instruction = one critical section of the Go source together with the lock-free code that follows it:

     HandleParticipantJoin   GetByGlobalID            (store.mutex, read)          PGet
        (session id "")      NewID ; NewSession       (ids.mutex)                  PNewID
                             Add                      (store.mutex)                PAdd
                             NewParticipantID         (participantIDs.mutex)       PNewPID
                             AddParticipant           (participantMutex)           PAddP   then the answer is sent
                             HandleFrame, GetParticipants, Entities, ListAll, Broadcast: do not touch the
                             registry, the membership or an id generator of this model ("tau"; not represented)
     leaveSession            (UnsubscribeByParticipant, stopFrameHandling: tau)
                             RemoveParticipant        (participantMutex)           PRmP
                             (Broadcast: tau)
                             ParticipantCount         (participantMutex, read)     PCount      [unrepaired code only]
                             Remove                   (store.mutex; inside it ids.mutex for Reuse)  PRemove

   Remove is ONE instruction although it acquires ids.mutex while holding store.mutex: between the two
   acquisitions the thread holds store.mutex, so no other thread can read or write the registry map; the only
   thing another thread can do to the state of this model is NewID / Reuse on the id generator, and Remove touches the
   generator only in its inner section.  The instruction is therefore placed at the inner acquisition
   (the L3 harness reports the outer one as a step without effect).

   [fixed = false] is the code as it is; [fixed = true] is the code with work/fixes/conc-orphan-join.diff:
   RemoveParticipant marks the session dead under participantMutex when it empties it and reports that; only
   that departure unregisters; AddParticipant refuses a dead session (the join is answered NOT_FOUND).

   Session objects live in a heap indexed by incarnation number (the order of NewSession calls; on the Go side
   the UUID); the registry maps numeric ids to incarnations, as the Go map holds pointers. *)
From hagall Require Import Model.

Record srec := {
  r_id : N;                 (* Session.ID *)
  r_parts : gset N;         (* keys of Session.participants *)
  r_pgen : N;               (* participantIDs.currentID (never recycled) *)
  r_dead : bool             (* the repair's flag; stays false in the unrepaired code *)
}.
Definition srec0 (id : N) : srec := {| r_id := id; r_parts := ∅; r_pgen := 0; r_dead := false |}.

(* what a connection asks for, one request after the other *)
Inductive cop := KCreate | KJoin (sid : N) | KLeave.

(* answers to KCreate / KJoin *)
Inductive cans := AOk (sid inc pid : N) | ANotFound | AErr.

(* where a thread stands: the critical section it is about to enter, with the handler's local variables.
   [k] is what follows a departure: [None] nothing (disconnect), [Some None] the creation and [Some (Some sid)]
   the join that made the handler leave its current session first. *)
Inductive pc :=
| PIdle
| PGet (sid : option N)
| PNewID
| PAdd (inc : N)
| PNewPID (inc : N)
| PAddP (inc pid : N)
| PRmP (k : option (option N))
| PCount (inc : N) (k : option (option N))
| PRemove (inc : N) (k : option (option N)).

Record thread := {
  t_pc : pc;
  t_ops : list cop;                 (* requests not yet started *)
  t_cur : option (N * N * N);       (* currentSession / currentParticipant: (id answered, incarnation, pid) *)
  t_ans : list cans                 (* answers so far, oldest first *)
}.

Record cstate := {
  k_heap : gmap N srec;
  k_reg : gmap N N;                 (* SessionStore.sessions: numeric id -> incarnation *)
  k_ids : idgen;                    (* SessionStore.ids *)
  k_gauge : Z;                      (* session_count *)
  k_inc : N;                        (* incarnations allocated so far *)
  k_thr : gmap N thread
}.

Definition rid_of (h : gmap N srec) (inc : N) : N := match h !! inc with Some R => r_id R | None => 0 end.

(* the start of the next request: the part of the handler before its first critical section *)
Fixpoint load (cur : option (N * N * N)) (ops : list cop) (ans : list cans) : pc * list cop * list cans :=
  match ops with
  | [] => (PIdle, [], ans)
  | KLeave :: ops' =>
      match cur with Some _ => (PRmP None, ops', ans) | None => load cur ops' ans end
  | KCreate :: ops' =>
      match cur with Some _ => (PRmP (Some None), ops', ans) | None => (PGet None, ops', ans) end
  | KJoin sid :: ops' =>
      match cur with
      | Some (sid', _, _) =>
          if decide (sid' = sid) then load cur ops' (ans ++ [AErr])     (* SESSION_ALREADY_JOINED *)
          else (PRmP (Some (Some sid)), ops', ans)
      | None => (PGet (Some sid), ops', ans)
      end
  end.

Definition mk_thread (p : pc) (ops : list cop) (cur : option (N * N * N)) (ans : list cans) : thread :=
  {| t_pc := p; t_ops := ops; t_cur := cur; t_ans := ans |}.

(* the request is over: start the next one *)
Definition next_req (T : thread) (cur : option (N * N * N)) (ans : list cans) : thread :=
  let '(p, ops, ans') := load cur (t_ops T) ans in mk_thread p ops cur ans'.

(* the departure is over: clear the handler's fields, then go on with what caused it *)
Definition after_leave (T : thread) (k : option (option N)) : thread :=
  match k with
  | None => next_req T None (t_ans T)
  | Some s => mk_thread (PGet s) (t_ops T) None (t_ans T)
  end.

Definition set_thr (tid : N) (T : thread) (st : cstate) : cstate :=
  {| k_heap := k_heap st; k_reg := k_reg st; k_ids := k_ids st; k_gauge := k_gauge st; k_inc := k_inc st;
     k_thr := <[tid := T]> (k_thr st) |}.
Definition set_heap (inc : N) (R : srec) (st : cstate) : cstate :=
  {| k_heap := <[inc := R]> (k_heap st); k_reg := k_reg st; k_ids := k_ids st; k_gauge := k_gauge st;
     k_inc := k_inc st; k_thr := k_thr st |}.
Definition set_pc (p : pc) (T : thread) : thread := mk_thread p (t_ops T) (t_cur T) (t_ans T).

Definition with_parts (f : gset N → gset N) (R : srec) : srec :=
  {| r_id := r_id R; r_parts := f (r_parts R); r_pgen := r_pgen R; r_dead := r_dead R |}.
Definition with_pgen (g : N) (R : srec) : srec :=
  {| r_id := r_id R; r_parts := r_parts R; r_pgen := g; r_dead := r_dead R |}.
Definition with_dead (b : bool) (R : srec) : srec :=
  {| r_id := r_id R; r_parts := r_parts R; r_pgen := r_pgen R; r_dead := b |}.

(* one critical section of thread [tid]; [hint] resolves Go's choice among reusable ids in NewID.
   A thread that is idle (finished), unknown, or in a state that cannot arise (dangling incarnation) does nothing. *)
Definition step (fixed : bool) (st : cstate) (tid hint : N) : cstate :=
  match k_thr st !! tid with
  | None => st
  | Some T =>
    let h := k_heap st in
    match t_pc T with
    | PIdle => st
    | PGet None => set_thr tid (set_pc PNewID T) st                    (* "" never resolves *)
    | PGet (Some sid) =>
        match k_reg st !! sid with
        | Some inc => set_thr tid (set_pc (PNewPID inc) T) st
        | None => set_thr tid (next_req T (t_cur T) (t_ans T ++ [ANotFound])) st
        end
    | PNewID =>
        let '(id, g) := gen_new hint (k_ids st) in
        let inc := k_inc st + 1 in
        {| k_heap := <[inc := srec0 id]> h; k_reg := k_reg st; k_ids := g; k_gauge := k_gauge st; k_inc := inc;
           k_thr := <[tid := set_pc (PAdd inc) T]> (k_thr st) |}
    | PAdd inc =>
        {| k_heap := h; k_reg := <[rid_of h inc := inc]> (k_reg st); k_ids := k_ids st;
           k_gauge := (k_gauge st + 1)%Z; k_inc := k_inc st;
           k_thr := <[tid := set_pc (PNewPID inc) T]> (k_thr st) |}
    | PNewPID inc =>
        match h !! inc with
        | None => st
        | Some R =>
            let p := u32_succ (r_pgen R) in
            set_thr tid (set_pc (PAddP inc p) T) (set_heap inc (with_pgen p R) st)
        end
    | PAddP inc p =>
        match h !! inc with
        | None => st
        | Some R =>
            if fixed && r_dead R then
              set_thr tid (next_req T (t_cur T) (t_ans T ++ [ANotFound])) st
            else
              let cur := Some (r_id R, inc, p) in
              set_thr tid (next_req T cur (t_ans T ++ [AOk (r_id R) inc p]))
                      (set_heap inc (with_parts (λ ps, ps ∪ {[p]}) R) st)
        end
    | PRmP k =>
        match t_cur T with
        | None => st
        | Some (_, inc, p) =>
            match h !! inc with
            | None => st
            | Some R =>
                let R1 := with_parts (λ ps, ps ∖ {[p]}) R in
                if fixed then
                  if bool_decide (r_parts R1 = ∅) && negb (r_dead R) then
                    set_thr tid (set_pc (PRemove inc k) T) (set_heap inc (with_dead true R1) st)
                  else set_thr tid (after_leave T k) (set_heap inc R1 st)
                else set_thr tid (set_pc (PCount inc k) T) (set_heap inc R1 st)
            end
        end
    | PCount inc k =>
        match h !! inc with
        | None => st
        | Some R =>
            if decide (r_parts R = ∅) then set_thr tid (set_pc (PRemove inc k) T) st
            else set_thr tid (after_leave T k) st
        end
    | PRemove inc k =>
        (* delete(s.sessions, key); session.Close(); ids.Reuse(session.ID); gauge-- : by KEY, whatever is there *)
        let id := rid_of h inc in
        {| k_heap := h; k_reg := delete id (k_reg st); k_ids := gen_reuse id (k_ids st);
           k_gauge := (k_gauge st - 1)%Z; k_inc := k_inc st;
           k_thr := <[tid := after_leave T k]> (k_thr st) |}
    end
  end.

(* a schedule: thread choices, each with the hint for NewID *)
Definition sched_run (fixed : bool) (st : cstate) (σ : list (N * N)) : cstate :=
  fold_left (λ s c, step fixed s c.1 c.2) σ st.
Definition plain (l : list N) : list (N * N) := map (λ t, (t, 0)) l.

Definition idle (T : thread) : Prop := t_pc T = PIdle.
(* every thread has run all its requests to the end *)
Definition complete (st : cstate) : Prop := map_Forall (λ _ T, idle T) (k_thr st).

(* the initial state: nothing registered, thread i+1 runs the i-th program *)
Definition init_threads (progs : list (list cop)) : gmap N thread :=
  list_to_map (imap (λ i p, (N.of_nat (S i), next_req (mk_thread PIdle p None []) None [])) progs).
Definition cinit (progs : list (list cop)) : cstate :=
  {| k_heap := ∅; k_reg := ∅; k_ids := gen0; k_gauge := 0; k_inc := 0; k_thr := init_threads progs |}.

(* ---------- the property, at quiescence ---------- *)
(* a discoverable session is a live object filed under its own id with at least one participant *)
Definition reg_entry_ok (st : cstate) (id inc : N) : Prop :=
  match k_heap st !! inc with
  | Some R => r_id R = id ∧ r_parts R ≠ ∅ ∧ id ∉ g_reuse (k_ids st)
  | None => False
  end.
(* a session object with participants is discoverable *)
Definition obj_ok (st : cstate) (inc : N) (R : srec) : Prop :=
  r_parts R ≠ ∅ → k_reg st !! r_id R = Some inc.
(* a handler that was answered with success (and has not left since) is a participant of the object that the
   returned id resolves to *)
Definition member_ok (st : cstate) (T : thread) : Prop :=
  match t_cur T with
  | None => True
  | Some (sid, inc, p) =>
      k_reg st !! sid = Some inc ∧ match k_heap st !! inc with Some R => p ∈ r_parts R | None => False end
  end.
Definition registry_ok (st : cstate) : Prop :=
  map_Forall (reg_entry_ok st) (k_reg st) ∧
  map_Forall (obj_ok st) (k_heap st) ∧
  map_Forall (λ _ T, member_ok st T) (k_thr st) ∧
  k_gauge st = Z.of_nat (size (k_reg st)).

(* ---------- observables, for the comparison with the implementation ---------- *)
Definition obs_answers (st : cstate) : list (N * list cans) :=
  map (λ kv : N * thread, (kv.1, t_ans kv.2)) (map_to_list (k_thr st)).
Definition obs_registry (st : cstate) : list (N * N * list N) :=
  map (λ kv : N * N, (kv.1, kv.2, match k_heap st !! kv.2 with Some R => set_to_sorted (r_parts R) | None => [] end))
      (map_to_list (k_reg st)).
Definition obs_members (st : cstate) : list (N * (N * N * N) * bool * bool) :=
  omap (λ kv : N * thread,
          match t_cur kv.2 with
          | None => None
          | Some (sid, inc, p) =>
              Some (kv.1, (rid_of (k_heap st) inc, inc, p),
                    match k_heap st !! inc with Some R => bool_decide (p ∈ r_parts R) | None => false end,
                    bool_decide (k_reg st !! rid_of (k_heap st) inc = Some inc))
          end) (map_to_list (k_thr st)).
(* which instruction thread [tid] is about to execute, as the harness numbers them (0: none) *)
Definition pc_code (p : pc) : N :=
  match p with
  | PIdle => 0 | PGet _ => 1 | PNewID => 2 | PAdd _ => 3 | PNewPID _ => 4 | PAddP _ _ => 5
  | PRmP _ => 6 | PCount _ _ => 7 | PRemove _ _ => 9
  end.
Definition next_code (st : cstate) (tid : N) : N :=
  match k_thr st !! tid with Some T => pc_code (t_pc T) | None => 0 end.
Definition obs_idgen (st : cstate) : N * list N := (g_cur (k_ids st), set_to_sorted (g_reuse (k_ids st))).
Definition all_idle (st : cstate) : bool :=
  forallb (λ kv : N * thread, match t_pc kv.2 with PIdle => true | _ => false end) (map_to_list (k_thr st)).

(* Spec.v — the trace-determined specification state.

   Everything here is computed from what a client (or the harness) can observe:
   the consumed request, the deliveries and the verdict of every event.  It never
   looks at the model's state.  It is the abstract "simple map" spec the
   properties are stated against: who is where, which entities / components /
   subscriptions / actions / assets exist *according to the answers given*.
   Executable, no proofs in this file. *)
From hagall Require Export Model Codec.

Record spec := {
  sp_mem : gmap N (N * N);                  (* connection -> (session id, participant id) *)
  sp_uuid : gmap N N;                       (* live session id -> incarnation (uuid index) *)
  sp_seen : gset N;                         (* every uuid index ever handed out *)
  sp_ents : gmap (N * N) (ent_pb * bool);   (* (sid, eid) -> entity, persist *)
  sp_types : gmap (N * N) N;                (* (sid, name) -> type id *)
  sp_comps : gmap (N * N * N) N;            (* (sid, tid, eid) -> data *)
  sp_subs : gmap (N * N) (gset N);          (* (sid, tid) -> subscribed pids *)
  sp_acts : gmap (N * N * N) action;        (* (sid, eid, name) -> action *)
  sp_assets : gmap (N * N) asset;           (* (sid, eid) -> asset instance *)
  sp_pids : gmap N (gset N);                (* incarnation -> participant ids issued *)
  sp_eids : gmap N (gset N);                (* incarnation -> entity ids issued *)
  sp_iids : gmap N (gset N)                 (* incarnation -> asset instance ids issued *)
}.

Definition spec0 : spec :=
  {| sp_mem := ∅; sp_uuid := ∅; sp_seen := ∅; sp_ents := ∅; sp_types := ∅; sp_comps := ∅;
     sp_subs := ∅; sp_acts := ∅; sp_assets := ∅; sp_pids := ∅; sp_eids := ∅; sp_iids := ∅ |}.

(* ---------- reading the outputs of an event ---------- *)
Definition first_to {A} (c : N) (outs : list delivery) (f : msg → option A) : option A :=
  head (omap (λ d : delivery, if fst d =? c then f (snd d) else None) outs).

Definition join_resp (c : N) (outs : list delivery) : option (N * N * N * N) :=   (* rid sid uuid pid *)
  first_to c outs (λ m, match m with MJoinResp r s u p => Some (r, s, u, p) | _ => None end).
Definition error_code (c : N) (outs : list delivery) : option N :=
  first_to c outs (λ m, match m with MError _ k => Some k | _ => None end).
Definition has_error (c code : N) (outs : list delivery) : bool :=
  existsb (λ d, match d with (c', MError _ k) => (c' =? c) && (k =? code) | _ => false end) outs.
Definition has_msg (c : N) (outs : list delivery) (f : msg → bool) : bool :=
  existsb (λ d : delivery, (fst d =? c) && f (snd d)) outs.

(* ---------- membership ---------- *)
Definition sp_members (sp : spec) (sid : N) : list (N * N) :=     (* (pid, conn), ascending pid *)
  sort_by (λ pc, [zn (fst pc)])
          (omap (λ kv : N * (N * N), if fst (snd kv) =? sid then Some (snd (snd kv), fst kv) else None)
                (map_to_list (sp_mem sp))).
Definition sp_others (sp : spec) (sid p : N) : list (N * N) :=
  List.filter (λ pc, negb (fst pc =? p)) (sp_members sp sid).
Definition sp_live (sp : spec) (sid : N) : bool :=
  match sp_members sp sid with [] => false | _ => true end.

(* the non-persistent entities of (sid, p): what a departure removes; ascending *)
Definition sp_gone (sp : spec) (sid p : N) : list N :=
  sortN (omap (λ kv : (N * N) * (ent_pb * bool),
                 if (fst (fst kv) =? sid) && (ep_owner (fst (snd kv)) =? p) && negb (snd (snd kv))
                 then Some (snd (fst kv)) else None) (map_to_list (sp_ents sp))).

Definition set_mem (f : gmap N (N*N) → gmap N (N*N)) (sp : spec) : spec :=
  {| sp_mem := f (sp_mem sp); sp_uuid := sp_uuid sp; sp_seen := sp_seen sp; sp_ents := sp_ents sp;
     sp_types := sp_types sp; sp_comps := sp_comps sp; sp_subs := sp_subs sp; sp_acts := sp_acts sp;
     sp_assets := sp_assets sp; sp_pids := sp_pids sp; sp_eids := sp_eids sp; sp_iids := sp_iids sp |}.
Definition set_sents (f : gmap (N*N) (ent_pb*bool) → gmap (N*N) (ent_pb*bool)) (sp : spec) : spec :=
  {| sp_mem := sp_mem sp; sp_uuid := sp_uuid sp; sp_seen := sp_seen sp; sp_ents := f (sp_ents sp);
     sp_types := sp_types sp; sp_comps := sp_comps sp; sp_subs := sp_subs sp; sp_acts := sp_acts sp;
     sp_assets := sp_assets sp; sp_pids := sp_pids sp; sp_eids := sp_eids sp; sp_iids := sp_iids sp |}.
Definition set_scomps (f : gmap (N*N*N) N → gmap (N*N*N) N) (sp : spec) : spec :=
  {| sp_mem := sp_mem sp; sp_uuid := sp_uuid sp; sp_seen := sp_seen sp; sp_ents := sp_ents sp;
     sp_types := sp_types sp; sp_comps := f (sp_comps sp); sp_subs := sp_subs sp; sp_acts := sp_acts sp;
     sp_assets := sp_assets sp; sp_pids := sp_pids sp; sp_eids := sp_eids sp; sp_iids := sp_iids sp |}.
Definition set_ssubs (f : gmap (N*N) (gset N) → gmap (N*N) (gset N)) (sp : spec) : spec :=
  {| sp_mem := sp_mem sp; sp_uuid := sp_uuid sp; sp_seen := sp_seen sp; sp_ents := sp_ents sp;
     sp_types := sp_types sp; sp_comps := sp_comps sp; sp_subs := f (sp_subs sp); sp_acts := sp_acts sp;
     sp_assets := sp_assets sp; sp_pids := sp_pids sp; sp_eids := sp_eids sp; sp_iids := sp_iids sp |}.
Definition set_sacts (f : gmap (N*N*N) action → gmap (N*N*N) action) (sp : spec) : spec :=
  {| sp_mem := sp_mem sp; sp_uuid := sp_uuid sp; sp_seen := sp_seen sp; sp_ents := sp_ents sp;
     sp_types := sp_types sp; sp_comps := sp_comps sp; sp_subs := sp_subs sp; sp_acts := f (sp_acts sp);
     sp_assets := sp_assets sp; sp_pids := sp_pids sp; sp_eids := sp_eids sp; sp_iids := sp_iids sp |}.
Definition set_sassets (f : gmap (N*N) asset → gmap (N*N) asset) (sp : spec) : spec :=
  {| sp_mem := sp_mem sp; sp_uuid := sp_uuid sp; sp_seen := sp_seen sp; sp_ents := sp_ents sp;
     sp_types := sp_types sp; sp_comps := sp_comps sp; sp_subs := sp_subs sp; sp_acts := sp_acts sp;
     sp_assets := f (sp_assets sp); sp_pids := sp_pids sp; sp_eids := sp_eids sp; sp_iids := sp_iids sp |}.
Definition set_stypes (f : gmap (N*N) N → gmap (N*N) N) (sp : spec) : spec :=
  {| sp_mem := sp_mem sp; sp_uuid := sp_uuid sp; sp_seen := sp_seen sp; sp_ents := sp_ents sp;
     sp_types := f (sp_types sp); sp_comps := sp_comps sp; sp_subs := sp_subs sp; sp_acts := sp_acts sp;
     sp_assets := sp_assets sp; sp_pids := sp_pids sp; sp_eids := sp_eids sp; sp_iids := sp_iids sp |}.

Definition issued (m : gmap N (gset N)) (u : N) : gset N := default ∅ (m !! u).
Definition issue (u id : N) (m : gmap N (gset N)) : gmap N (gset N) := <[u := issued m u ∪ {[id]}]> m.

(* remove entity (sid, eid) with everything attached to it *)
Definition sp_remove_entity (sid eid : N) (sp : spec) : spec :=
  set_sassets (delete (sid, eid))
    (set_sacts (filter (λ kv : (N*N*N) * action, negb ((fst (fst (fst kv)) =? sid) && (snd (fst (fst kv)) =? eid))))
      (set_scomps (filter (λ kv : (N*N*N) * N, negb ((fst (fst (fst kv)) =? sid) && (snd (fst kv) =? eid))))
        (set_sents (delete (sid, eid)) sp))).

(* forget everything about session id [sid] (it ended) *)
Definition sp_purge (sid : N) (sp : spec) : spec :=
  {| sp_mem := sp_mem sp; sp_uuid := delete sid (sp_uuid sp); sp_seen := sp_seen sp;
     sp_ents := filter (λ kv : (N*N) * (ent_pb*bool), negb (fst (fst kv) =? sid)) (sp_ents sp);
     sp_types := filter (λ kv : (N*N) * N, negb (fst (fst kv) =? sid)) (sp_types sp);
     sp_comps := filter (λ kv : (N*N*N) * N, negb (fst (fst (fst kv)) =? sid)) (sp_comps sp);
     sp_subs := filter (λ kv : (N*N) * gset N, negb (fst (fst kv) =? sid)) (sp_subs sp);
     sp_acts := filter (λ kv : (N*N*N) * action, negb (fst (fst (fst kv)) =? sid)) (sp_acts sp);
     sp_assets := filter (λ kv : (N*N) * asset, negb (fst (fst kv) =? sid)) (sp_assets sp);
     sp_pids := sp_pids sp; sp_eids := sp_eids sp; sp_iids := sp_iids sp |}.

(* connection [c] leaves the session it is in (if any) *)
Definition depart (sp : spec) (c : N) : spec :=
  match sp_mem sp !! c with
  | None => sp
  | Some (sid, p) =>
    let sp1 := fold_right (sp_remove_entity sid) sp (sp_gone sp sid p) in
    let sp2 := set_ssubs (map_imap (λ k s, Some (if fst k =? sid then s ∖ {[p]} else s))) sp1 in
    let sp3 := set_mem (delete c) sp2 in
    if sp_live sp3 sid then sp3 else sp_purge sid sp3
  end.

Definition enter_spec (sp : spec) (c sid uuid pid : N) : spec :=
  let sp1 := set_mem (<[c := (sid, pid)]>) sp in
  {| sp_mem := sp_mem sp1; sp_uuid := <[sid := uuid]> (sp_uuid sp1); sp_seen := sp_seen sp1 ∪ {[uuid]};
     sp_ents := sp_ents sp1; sp_types := sp_types sp1; sp_comps := sp_comps sp1; sp_subs := sp_subs sp1;
     sp_acts := sp_acts sp1; sp_assets := sp_assets sp1;
     sp_pids := issue uuid pid (sp_pids sp1); sp_eids := sp_eids sp1; sp_iids := sp_iids sp1 |}.

Definition uuid_of (sp : spec) (sid : N) : N := default 0 (sp_uuid sp !! sid).

(* did the spec accept this fire-and-forget pose update? *)
Definition pose_accepted (sp : spec) (sid p eid : N) (po : option pose) : option (ent_pb * bool) :=
  match sp_ents sp !! (sid, eid), po with
  | Some (e, pe), Some _ => if ep_owner e =? p then Some (e, pe) else None
  | _, _ => None
  end.
Definition comp_update_accepted (sp : spec) (sid tid eid : N) : bool :=
  negb (tid =? 0) && negb (eid =? 0) &&
  match sp_ents sp !! (sid, eid), sp_comps sp !! (sid, tid, eid) with
  | Some _, Some _ => true | _, _ => false end.

(* the effect of a successfully answered (or silently applied) request of member (sid, p) on connection c *)
Definition spec_request (sp : spec) (c sid p : N) (r : req) (outs : list delivery) : spec :=
  match r with
  | REntityAdd rid persist flag po ots =>
      match first_to c outs (λ m, match m with MEntityAddResp r' e => if r' =? rid then Some e else None | _ => None end) with
      | Some eid =>
          let e := {| ep_id := eid; ep_owner := p; ep_pose := default zero_pose po; ep_flag := flag |} in
          let sp1 := set_sents (<[(sid, eid) := (e, persist)]>) sp in
          {| sp_mem := sp_mem sp1; sp_uuid := sp_uuid sp1; sp_seen := sp_seen sp1; sp_ents := sp_ents sp1;
             sp_types := sp_types sp1; sp_comps := sp_comps sp1; sp_subs := sp_subs sp1; sp_acts := sp_acts sp1;
             sp_assets := sp_assets sp1; sp_pids := sp_pids sp1;
             sp_eids := issue (uuid_of sp sid) eid (sp_eids sp1); sp_iids := sp_iids sp1 |}
      | None => sp
      end
  | REntityDelete rid eid ots =>
      if has_msg c outs (λ m, match m with MEntityDeleteResp r' => r' =? rid | _ => false end)
      then sp_remove_entity sid eid sp else sp
  | RPose eid po ots =>
      match pose_accepted sp sid p eid po, po with
      | Some (e, pe), Some ps =>
          set_sents (<[(sid, eid) := ({| ep_id := ep_id e; ep_owner := ep_owner e; ep_pose := ps; ep_flag := ep_flag e |}, pe)]>) sp
      | _, _ => sp
      end
  | RTypeAdd rid name =>
      match first_to c outs (λ m, match m with MTypeAddResp r' t => if r' =? rid then Some t else None | _ => None end) with
      | Some tid => set_stypes (<[(sid, name) := tid]>) sp
      | None => sp
      end
  | RCompAdd rid tid eid data ots =>
      if has_msg c outs (λ m, match m with MCompAddResp r' => r' =? rid | _ => false end)
      then set_scomps (<[(sid, tid, eid) := data]>) sp else sp
  | RCompDelete rid tid eid ots =>
      if has_msg c outs (λ m, match m with MCompDeleteResp r' => r' =? rid | _ => false end)
      then set_scomps (delete (sid, tid, eid)) sp else sp
  | RCompUpdate tid eid data ots =>
      if comp_update_accepted sp sid tid eid then set_scomps (<[(sid, tid, eid) := data]>) sp else sp
  | RSubscribe rid tid =>
      if has_msg c outs (λ m, match m with MSubResp r' => r' =? rid | _ => false end)
      then set_ssubs (λ m, <[(sid, tid) := default ∅ (m !! (sid, tid)) ∪ {[p]}]> m) sp else sp
  | RUnsubscribe rid tid =>
      if has_msg c outs (λ m, match m with MUnsubResp r' => r' =? rid | _ => false end)
      then set_ssubs (λ m, match m !! (sid, tid) with Some s => <[(sid, tid) := s ∖ {[p]}]> m | None => m end) sp else sp
  | RAction rid (Some a) ots =>
      if has_msg c outs (λ m, match m with MActionResp r' => r' =? rid | _ => false end)
      then set_sacts (<[(sid, a_eid a, a_name a) := a]>) sp else sp
  | RAssetAdd rid eid asset_id ots =>
      match first_to c outs (λ m, match m with MAssetAddResp r' i => if r' =? rid then Some i else None | _ => None end) with
      | Some iid =>
          let a := {| as_id := iid; as_asset := asset_id; as_pid := p; as_eid := eid |} in
          let sp1 := set_sassets (<[(sid, eid) := a]>) sp in
          {| sp_mem := sp_mem sp1; sp_uuid := sp_uuid sp1; sp_seen := sp_seen sp1; sp_ents := sp_ents sp1;
             sp_types := sp_types sp1; sp_comps := sp_comps sp1; sp_subs := sp_subs sp1; sp_acts := sp_acts sp1;
             sp_assets := sp_assets sp1; sp_pids := sp_pids sp1; sp_eids := sp_eids sp1;
             sp_iids := issue (uuid_of sp sid) iid (sp_iids sp1) |}
      | None => sp
      end
  | _ => sp
  end.

Definition spec_step (sp : spec) (e : event) : spec :=
  match ev_op e with
  | OStep c _ =>
      match ev_verdict e with
      | VErr | VPanic => depart sp c
      | _ =>
        match ev_req e with
        | Some (RJoin rid s ots) =>
            match join_resp c (ev_outs e) with
            | Some (_, sid, uuid, pid) => enter_spec (depart sp c) c sid uuid pid
            | None => if has_error c E_NOT_FOUND (ev_outs e) then depart sp c else sp
            end
        | Some r =>
            match sp_mem sp !! c with
            | Some (sid, p) => spec_request sp c sid p r (ev_outs e)
            | None => sp
            end
        | None => sp
        end
      end
  | OSend c _ => match ev_verdict e with VErr | VPanic => depart sp c | _ => sp end
  | ODisconnect c => depart sp c
  | _ => sp
  end.

(* fold a per-event checker along the trace, threading the spec (before / after the event) *)
Fixpoint sscan {A} (f : nat → spec → spec → event → list A) (i : nat) (sp : spec) (t : trace) : list A :=
  match t with
  | [] => []
  | e :: t' => let sp' := spec_step sp e in f i sp sp' e ++ sscan f (S i) sp' t'
  end.

Definition spec_after (t : trace) : spec := fold_left spec_step t spec0.

(* Preds2.v — predicates that carry their own observer state: C01 (views), C03, C04, C11, C17, C18.
   Same discipline as Preds.v: observations and the trace-determined spec only.  No proofs here. *)
From hagall Require Export Preds.

(* generic stateful scan: the checker sees spec before / after and its own state *)
Fixpoint xscan {St A} (f : nat → spec → spec → St → event → St * list A) (i : nat) (sp : spec) (s : St) (t : trace) : list A :=
  match t with
  | [] => []
  | e :: t' => let sp' := spec_step sp e in
               let '(s', out) := f i sp sp' s e in
               out ++ xscan f (S i) sp' s' t'
  end.

(* ================= C04: every request answered exactly once ================= *)
Definition req_rid (r : req) : option N :=
  match r with
  | RPing r | RSignedLatency r _ _ | RJoin r _ _ | REntityAdd r _ _ _ _ | REntityDelete r _ _ | RTypeAdd r _
  | RGetName r _ | RGetId r _ | RCompAdd r _ _ _ _ | RCompDelete r _ _ _ | RCompList r _ | RSubscribe r _
  | RUnsubscribe r _ | RReceipt r _ _ _ | RAction r _ _ | RAssetAdd r _ _ _ | RDagazQuery _ r => Some r
  | _ => None
  end.
Definition msg_rid (m : msg) : option N :=
  match m with
  | MPingResp r | MError r _ | MJoinResp r _ _ _ | MEntityAddResp r _ | MEntityDeleteResp r | MTypeAddResp r _
  | MGetNameResp r _ | MGetIdResp r _ | MCompAddResp r | MCompDeleteResp r | MCompListResp r _ | MSubResp r
  | MUnsubResp r | MReceiptResp r | MActionResp r | MAssetAddResp r _ | MSignedLatencyResp r _ _ _ _ _ _ _
  | MDagazResp _ r => Some r
  | _ => None
  end.
(* the success response that matches a request kind *)
Definition success_for (r : req) (m : msg) : bool :=
  match r, m with
  | RPing _, MPingResp _ | RJoin _ _ _, MJoinResp _ _ _ _ | REntityAdd _ _ _ _ _, MEntityAddResp _ _
  | REntityDelete _ _ _, MEntityDeleteResp _ | RTypeAdd _ _, MTypeAddResp _ _ | RGetName _ _, MGetNameResp _ _
  | RGetId _ _, MGetIdResp _ _ | RCompAdd _ _ _ _ _, MCompAddResp _ | RCompDelete _ _ _ _, MCompDeleteResp _
  | RCompList _ _, MCompListResp _ _ | RSubscribe _ _, MSubResp _ | RUnsubscribe _ _, MUnsubResp _
  | RReceipt _ _ _ _, MReceiptResp _ | RAction _ _ _, MActionResp _ | RAssetAdd _ _ _ _, MAssetAddResp _ _ => true
  | RDagazQuery k _, MDagazResp k' _ => k' =? k + 1
  | _, _ => false
  end.
Definition needs_session (r : req) : bool :=
  match r with
  | RPing _ | RJoin _ _ _ | RReceipt _ _ _ _ | RPingResp _ | RUndecodable _ | RUnknown _ => false
  | _ => true
  end.
Definition is_error_msg (m : msg) : bool := match m with MError _ _ => true | _ => false end.

(* the outcome the protocol defines, from the spec: Some 0 = success, Some code = that error,
   Some (-1) = no answer at all (request kind not served in this configuration, or answered later),
   None = either success or TOO_BUSY (the queue length is not observable) *)
Definition expected_outcome (cfg : config) (sp : spec) (c sid p : N) (r : req) : option Z :=
  match r with
  | RPing _ | REntityAdd _ _ _ _ _ => Some 0%Z
  | RJoin _ s _ =>
      match s with
      | SId n => if sid =? n then Some (zn E_ALREADY_JOINED)
                 else if sp_live (depart sp c) n then Some 0%Z else Some (zn E_NOT_FOUND)
      | SJunk _ => Some (zn E_NOT_FOUND)
      | SNew => Some 0%Z
      end
  | REntityDelete _ eid _ =>
      match sp_ents sp !! (sid, eid) with
      | None => Some (zn E_NOT_FOUND)
      | Some (ent, _) => if ep_owner ent =? p then Some 0%Z else Some (zn E_UNAUTHORIZED)
      end
  | RTypeAdd _ name => if name =? 0 then Some (zn E_BAD_REQUEST) else Some 0%Z
  | RGetName _ tid => if tid =? 0 then Some (zn E_BAD_REQUEST)
                      else if memN tid (spec_tids sp sid) then Some 0%Z else Some (zn E_NOT_FOUND)
  | RGetId _ name => if name =? 0 then Some (zn E_BAD_REQUEST)
                     else if is_Some_b (sp_types sp !! (sid, name)) then Some 0%Z else Some (zn E_NOT_FOUND)
  | RCompAdd _ tid eid _ _ =>
      Some (if (tid =? 0) || (eid =? 0) then zn E_BAD_REQUEST
            else if negb (is_Some_b (sp_ents sp !! (sid, eid))) then zn E_NOT_FOUND
            else if negb (memN tid (spec_tids sp sid)) then zn E_NOT_FOUND
            else if is_Some_b (sp_comps sp !! (sid, tid, eid)) then zn E_CONFLICT else 0%Z)
  | RCompDelete _ tid eid _ =>
      Some (if (tid =? 0) || (eid =? 0) then zn E_BAD_REQUEST
            else if negb (is_Some_b (sp_ents sp !! (sid, eid))) then zn E_NOT_FOUND
            else if negb (is_Some_b (sp_comps sp !! (sid, tid, eid))) then zn E_NOT_FOUND else 0%Z)
  | RCompList _ tid | RUnsubscribe _ tid => if tid =? 0 then Some (zn E_BAD_REQUEST) else Some 0%Z
  | RSubscribe _ tid => if tid =? 0 then Some (zn E_BAD_REQUEST)
                        else if memN tid (spec_tids sp sid) then Some 0%Z else Some (zn E_NOT_FOUND)
  | RReceipt _ a b d => if (a =? 0) || (b =? 0) || (d =? 0) then Some (zn E_BAD_REQUEST) else None
  | RAction _ ao _ =>
      if negb (cfg_vikja cfg) then Some (-1)%Z else
      Some (match ao with
            | None => zn E_BAD_REQUEST
            | Some a =>
                if (a_name a =? 0) || negb (is_Some_b (a_ts a)) then zn E_BAD_REQUEST
                else if negb (is_Some_b (sp_ents sp !! (sid, a_eid a))) then zn E_BAD_REQUEST
                else match sp_acts sp !! (sid, a_eid a, a_name a) with
                     | Some old => if ts_before (a_ts a) (a_ts old) then zn E_BAD_REQUEST else 0%Z
                     | None => 0%Z end
            end)
  | RAssetAdd _ eid aid _ =>
      if negb (cfg_odal cfg) then Some (-1)%Z else
      Some (if aid =? 0 then zn E_BAD_REQUEST
            else match sp_ents sp !! (sid, eid) with
                 | None => zn E_NOT_FOUND
                 | Some (ent, _) => if ep_owner ent =? p then 0%Z else zn E_UNAUTHORIZED end)
  | RDagazQuery _ _ => if cfg_dagaz cfg then Some 0%Z else Some (-1)%Z
  | RSignedLatency _ n w => if (n <? lat_min) || (lat_max <? n) || (w =? 0) then Some (zn E_BAD_REQUEST) else Some (-1)%Z
  | _ => Some (-1)%Z
  end.

(* C04's own observer state: the last hook snapshot and whether anything but refusals happened since *)
Record c04st := { q_snap : option (list (list Z)); q_clean : bool }.
Definition enc_dumps (ss : list sdump) : list (list Z) :=
  map eDump (sort_by (λ d, [zn (d_sid d)]) (map (λ d, canon_dump (dump_state_only d)) ss)).
Definition mutating_ok (r : req) : bool :=   (* kinds that change no session state even when they succeed *)
  match r with
  | RPing _ | RGetName _ _ | RGetId _ _ | RCompList _ _ | RDagazQuery _ _ | RUnknown _ => true
  | _ => false end.

Definition P_C04_event (cfg : config) (i : nat) (sp sp' : spec) (s : c04st) (e : event) : c04st * list violation :=
  match ev_op e with
  | OSnap =>
      match first_to 0 (ev_outs e) (λ m, match m with MSnap ss _ _ => Some (enc_dumps ss) | _ => None end) with
      | Some now =>
          ({| q_snap := Some now; q_clean := true |},
           match q_snap s with
           | Some before => if q_clean s then okv i (bool_decide (before = now)) 410 [] else []
           | None => [] end)
      | None => (s, [])
      end
  | OStep c _ =>
    match ev_req e with
    | None => (s, [])
    | Some r =>
      let outs := ev_outs e in
      let refused := existsb (λ d : delivery, is_error_msg (snd d)) outs && negb (is_Some_b (departure sp sp' e)) in
      let s' := {| q_snap := q_snap s; q_clean := q_clean s && (refused || mutating_ok r) &&
                                                  match ev_verdict e with VOk | VSkip => true | _ => false end |} in
      (s',
       match req_rid r with
       | None => []
       | Some rid =>
         let answers := List.filter (λ d : delivery, bool_decide (msg_rid (snd d) = Some rid)) outs in
         match sp_mem sp !! c with
         | Some (sid, p) =>
             match ev_verdict e with
             | VPanic => [viol i 409 [zn c; zn rid]]
             | _ =>
               let want := expected_outcome cfg sp c sid p r in
               (* answered at most once, to the requester only *)
               okv i (forallb (λ d : delivery, fst d =? c) answers) 401 [zn c; zn rid] ++
               match want with
               | Some (-1)%Z => okv i (bool_decide (answers = [])) 402 [zn c; zn rid]
               | _ =>
                   match answers with
                   | [a] =>
                       match snd a, want with
                       | MError _ k, Some w => okv i (bool_decide (zn k = w)) 403 [zn c; zn rid; zn k; w]
                       | MError _ k, None => okv i (k =? E_TOO_BUSY) 403 [zn c; zn rid; zn k]
                       | m, Some w => okv i (success_for r m && bool_decide (w = 0%Z)) 404 [zn c; zn rid; w]
                       | m, None => okv i (success_for r m) 404 [zn c; zn rid]
                       end
                   | _ => [viol i 405 [zn c; zn rid; Z.of_nat (length answers)]]
                   end
               end ++
               (* a refused request is relayed to no one *)
               (if refused then okv i (forallb (λ d : delivery, fst d =? c) outs) 406 [zn c; zn rid] else [])
             end
         | None =>
             if needs_session r then
               (* never executed: errors to the requester only, or nothing; no success, nobody else told *)
               okv i (forallb (λ d : delivery, (fst d =? c) && is_error_msg (snd d)) outs) 407 [zn c; zn rid] ++
               okv i (bool_decide (sp_mem sp' !! c = None)) 408 [zn c; zn rid]
             else
               match r with
               | RPing _ => okv i (same_lines outs [(c, MPingResp rid)]) 404 [zn c; zn rid]
               | RJoin _ s _ =>
                   let want := match s with SId n => if sp_live sp n then 0%Z else zn E_NOT_FOUND
                                          | SJunk _ => zn E_NOT_FOUND | SNew => 0%Z end in
                   match answers with
                   | [a] => okv i (fst a =? c) 401 [zn c; zn rid] ++
                            match snd a with
                            | MError _ k => okv i (bool_decide (zn k = want)) 403 [zn c; zn rid; zn k; want]
                            | m => okv i (success_for r m && bool_decide (want = 0%Z)) 404 [zn c; zn rid; want]
                            end
                   | _ => [viol i 405 [zn c; zn rid; Z.of_nat (length answers)]]
                   end
               | RReceipt _ a b d =>
                   match answers with
                   | [x] => okv i (fst x =? c) 401 [zn c; zn rid] ++
                            match snd x with
                            | MError _ k => okv i (if (a =? 0) || (b =? 0) || (d =? 0) then k =? E_BAD_REQUEST else k =? E_TOO_BUSY)
                                                403 [zn c; zn rid; zn k]
                            | m => okv i (success_for r m && negb ((a =? 0) || (b =? 0) || (d =? 0))) 404 [zn c; zn rid]
                            end
                   | _ => [viol i 405 [zn c; zn rid; Z.of_nat (length answers)]]
                   end
               | _ => []
               end
         end
       end ++ bad_msgs i 400 e)
    end
  | OTick _ | ODisconnect _ => ({| q_snap := q_snap s; q_clean := false |}, [])
  | OSend c _ => (match ev_verdict e with VOk | VSkip => s | _ => {| q_snap := q_snap s; q_clean := false |} end, [])
  | OConnect _ => (s, [])
  end.
Definition P_C04 : pred := λ cfg t, xscan (P_C04_event cfg) 0 spec0 {| q_snap := None; q_clean := false |} t.
(* projection: who is answered with what kind / code; snapshots of session state *)
Definition answer_shape (m : msg) : msg :=
  match m with
  | MJoinResp r _ _ _ => MJoinResp r 0 0 0 | MEntityAddResp r _ => MEntityAddResp r 0 | MTypeAddResp r _ => MTypeAddResp r 0
  | MGetNameResp r _ => MGetNameResp r 0 | MGetIdResp r _ => MGetIdResp r 0 | MCompListResp r _ => MCompListResp r []
  | MAssetAddResp r _ => MAssetAddResp r 0
  | MSnap ss g q => MSnap (map dump_state_only ss) 0 []
  | _ => m end.
Definition pi_C04 : proj :=
  λ e, map_outs answer_shape
    (proj_by (λ e, is_snap_ev e || match ev_req e with Some r => is_Some_b (req_rid r) | None => false end)
             (λ m, is_Some_b (msg_rid m) && negb (match m with MSignedLatencyResp _ _ _ _ _ _ _ _ => true | _ => false end)
                   || match m with MSnap _ _ _ => true | _ => false end) e).

(* ================= C03: sessions are isolated ================= *)
(* observer state: last snapshot per session, and the sessions touched since *)
Record c03st := { i_snap : list (N * list Z); i_touched : list N }.
Definition sid_of (sp : spec) (c : N) : list N := match sp_mem sp !! c with Some (s, _) => [s] | None => [] end.

Definition P_C03_event (cfg : config) (i : nat) (sp sp' : spec) (s : c03st) (e : event) : c03st * list violation :=
  match ev_op e with
  | OSnap =>
      match first_to 0 (ev_outs e) (λ m, match m with MSnap ss _ _ => Some ss | _ => None end) with
      | Some ss =>
          let now := map (λ d, (d_sid d, eDump (canon_dump (dump_state_only d)))) ss in
          ({| i_snap := now; i_touched := [] |},
           (* a session that nobody in it (and no tick of it) touched since the last snapshot is unchanged;
              compared only while the same incarnation is alive at both ends *)
           flat_map (λ sd : N * list Z,
             if memN (fst sd) (i_touched s) then []
             else match head (omap (λ x : N * list Z, if fst x =? fst sd then Some (snd x) else None) (i_snap s)) with
                  | Some before => okv i (bool_decide (before = snd sd)) 302 [zn (fst sd)]
                  | None => [] end) now)
      | None => (s, [])
      end
  | OTick sid => ({| i_snap := i_snap s; i_touched := sid :: i_touched s |}, [])
  | _ =>
    match actor e with
    | None => (s, [])
    | Some c =>
      let mine := sid_of sp c ++ sid_of sp' c in
      (* a session id that is (re)created or ended by this event counts as touched *)
      let s' := {| i_snap := i_snap s; i_touched := mine ++ i_touched s |} in
      let allowed (q : N) : bool :=
        (q =? c) || existsb (λ sid, existsb (λ pc : N*N, snd pc =? q) (sp_members sp sid ++ sp_members sp' sid)) mine in
      (s', flat_map (λ d : delivery, if allowed (fst d) then [] else [viol i 301 [zn c; zn (fst d); hd 0%Z (enc_msg (snd d))]])
                    (ev_outs e) ++ bad_msgs i 300 e)
    end
  end.
Definition P_C03 : pred := λ cfg t, xscan (P_C03_event cfg) 0 spec0 {| i_snap := []; i_touched := [] |} t.

(* ================= C11: pose updates in order, coalesced, latest arrives ================= *)
Record c11st := {
  u_last : gmap (N * N) N;          (* (conn, eid) -> origin timestamp of the latest pose dispatched and not yet flushed *)
  u_expect : gmap (N * N) (list N); (* (conn, eid) -> flushed updates the main loop has still to consume, in order *)
  u_deleted : gmap N (gset N)       (* observer connection -> entities whose deletion it was told (current episode) *)
}.
Definition c11_0 : c11st := {| u_last := ∅; u_expect := ∅; u_deleted := ∅ |}.
Definition drop_conn {A} (c : N) (m : gmap (N*N) A) : gmap (N*N) A := filter (λ kv : (N*N) * A, negb (fst (fst kv) =? c)) m.

Definition c11_deliveries (i : nat) (s : c11st) (outs : list delivery) : c11st * list violation :=
  fold_left (λ (acc : c11st * list violation) (d : delivery),
    let '(s, vs) := acc in
    let seen := default ∅ (u_deleted s !! fst d) in
    match snd d with
    | MPoseB _ eid _ => (s, vs ++ okv i (bool_decide (eid ∉ seen)) 1104 [zn (fst d); zn eid])
    | MEntityDeleteB _ eid => ({| u_last := u_last s; u_expect := u_expect s;
                                  u_deleted := <[fst d := seen ∪ {[eid]}]> (u_deleted s) |}, vs)
    | _ => (s, vs)
    end) outs (s, []).

Definition P_C11_event (cfg : config) (i : nat) (sp sp' : spec) (s : c11st) (e : event) : c11st * list violation :=
  (* membership changes reset what an observer has been told *)
  let reset (s : c11st) : c11st :=
    match actor e with
    | Some c => if negb (mem_changed sp sp' e c) then s
                else {| u_last := u_last s; u_expect := u_expect s; u_deleted := delete c (u_deleted s) |}
    | None => s end in
  let '(s1, v1) := c11_deliveries i s (ev_outs e) in
  let s1 := reset s1 in
  match ev_op e with
  | OSend c (RPose eid po ots) =>
      match ev_verdict e with
      | VOk => ({| u_last := <[(c, eid) := ots]> (u_last s1); u_expect := u_expect s1; u_deleted := u_deleted s1 |}, v1)
      | _ => (s1, v1) end
  | OTick sid =>
      let members := map snd (sp_members sp sid) in
      let moved := List.filter (λ kv : (N*N) * N, memN (fst (fst kv)) members) (map_to_list (u_last s1)) in
      ({| u_last := filter (λ kv : (N*N) * N, negb (memN (fst (fst kv)) members)) (u_last s1);
          u_expect := fold_right (λ (kv : (N*N) * N) m, <[fst kv := default [] (m !! fst kv) ++ [snd kv]]> m) (u_expect s1) moved;
          u_deleted := u_deleted s1 |}, v1)
  | OStep c _ =>
      let closed := match ev_verdict e with VErr | VPanic => true | _ => false end in
      let s2 := if closed then {| u_last := drop_conn c (u_last s1); u_expect := drop_conn c (u_expect s1);
                                  u_deleted := u_deleted s1 |} else s1 in
      match ev_req e with
      | Some (RPose eid po ots) =>
          let q := default [] (u_expect s1 !! (c, eid)) in
          let s3 := {| u_last := u_last s2; u_expect := <[(c, eid) := tl q]> (u_expect s2); u_deleted := u_deleted s2 |} in
          (s3, v1 ++
               (* what is consumed is the next flushed update of that entity: never reordered, repeated, or stale *)
               okv i (bool_decide (head q = Some ots)) 1101 [zn c; zn eid; zn ots] ++
               match sp_mem sp !! c with
               | None => []
               | Some (sid, p) =>
                   match ev_verdict e with
                   | VPanic => [viol i 1105 [zn c; zn eid]]
                   | _ =>
                     match pose_accepted sp sid p eid po, po with
                     | Some _, Some ps =>
                         if flag_on cfg F_POSE_B then [] else
                         okv i (same_lines (ev_outs e) (to_all (sp_others sp sid p) (MPoseB ots eid ps))) 1102 [zn c; zn eid; zn ots]
                     | _, _ => okv i (bool_decide (ev_outs e = [])) 1103 [zn c; zn eid; zn ots]
                     end
                   end
               end)
      | _ => (s2, v1)
      end
  | ODisconnect c =>
      ({| u_last := drop_conn c (u_last s1); u_expect := drop_conn c (u_expect s1); u_deleted := u_deleted s1 |}, v1)
  | OSnap =>
      (s1, v1 ++ snap_check cfg {| k_parts := false; k_ents := true; k_comps := false; k_acts := false; k_assets := false;
                                   k_types := false; k_subs := false; k_reg := false |} 1100 i sp e ++
           (* an update that a frame flushed must be in the connection's queue until it is consumed *)
           flat_map (λ d : delivery, match snd d with
             | MSnap _ _ q =>
                 flat_map (λ kv : (N * N) * list N,
                   match kv.2 with
                   | [] => []
                   | _ => if existsb (λ cn : N * N, (cn.1 =? kv.1.1) && (cn.2 =? 0)) q then [viol i 1106 [zn kv.1.1; zn kv.1.2]] else []
                   end) (map_to_list (u_expect s1))
             | _ => [] end) (ev_outs e))
  | _ => (s1, v1)
  end.
Definition P_C11_join (cfg : config) (i : nat) (sp sp' : spec) (e : event) : list violation :=
  match stepped e with
  | Some (c, RJoin _ _ _) =>
      match join_resp c (ev_outs e) with
      | Some (_, sid, _, _) => join_snapshot_check cfg {| k_parts := false; k_ents := true; k_comps := false; k_acts := false;
                                 k_assets := false; k_types := false; k_subs := false; k_reg := false |} 1100 i sp' c sid (ev_outs e)
      | None => [] end
  | _ => []
  end.
Definition P_C11 : pred := λ cfg t,
  xscan (λ i sp sp' s e, let '(s', v) := P_C11_event cfg i sp sp' s e in (s', v ++ P_C11_join cfg i sp sp' e ++ bad_msgs i 1100 e))
        0 spec0 c11_0 t.
Definition dump_poses_only (d : sdump) : sdump :=
  {| d_sid := d_sid d; d_uuid := 0; d_parts := []; d_ents := d_ents d; d_types := []; d_comps := [];
     d_subs := []; d_actions := []; d_assets := []; d_frames := 0 |}.
Definition pi_C11 : proj :=
  λ e, map_outs (λ m, match m with MSnap ss g q => MSnap (map dump_poses_only ss) 0 []
                                 | MSessionState ps es cs => MSessionState [] es [] | _ => m end)
    (proj_by (λ _, true) (λ m, match m with MPoseB _ _ _ | MEntityDeleteB _ _ | MSnap _ _ _ | MJoinResp _ _ _ _ | MSessionState _ _ _
                                           | MEntityAddResp _ _ | MEntityDeleteResp _ => true | _ => false end) e).

(* ================= C18: signed latency ================= *)
Record latm := { m_rid : N; m_n : N; m_wallet : N; m_uuid : N; m_issued : list N; m_answered : list N; m_done : bool }.
Definition c18st := gmap N latm.
Definition only_out (c : N) (outs : list delivery) : option msg :=
  match outs with [(c', m)] => if c' =? c then Some m else None | _ => None end.

Definition P_C18_event (cfg : config) (i : nat) (sp sp' : spec) (s : c18st) (e : event) : c18st * list violation :=
  let s := match actor e with
           | Some c => if negb (mem_changed sp sp' e c) then s else delete c s
           | None => s end in
  match stepped e with
  | Some (c, RSignedLatency rid n w) =>
      match sp_mem sp !! c with
      | None => (s, okv i (same_lines (ev_outs e) [(c, MError rid E_UNAUTHORIZED)]) 1801 [zn c; zn rid])
      | Some (sid, p) =>
          if (n <? lat_min) || (lat_max <? n) || (w =? 0)
          then (s, okv i (same_lines (ev_outs e) [(c, MError rid E_BAD_REQUEST)]) 1802 [zn c; zn rid; zn n; zn w])
          else match only_out c (ev_outs e) with
               | Some (MPingReq id) =>
                   (<[c := {| m_rid := rid; m_n := n; m_wallet := w; m_uuid := uuid_of sp sid; m_issued := [id];
                              m_answered := []; m_done := false |}]> s, [])
               | _ => (s, [viol i 1803 [zn c; zn rid; zn n]])
               end
      end
  | Some (c, RPingResp id) =>
      match sp_mem sp !! c with
      | None => (s, okv i (same_lines (ev_outs e) [(c, MError id E_UNAUTHORIZED)]) 1804 [zn c; zn id])
      | Some (sid, p) =>
          let refuse := (s, okv i (same_lines (ev_outs e) [(c, MError id E_INTERNAL)]) 1805 [zn c; zn id]) in
          match s !! c with
          | None => refuse
          | Some L =>
              if m_done L || negb (memN id (m_issued L)) || memN id (m_answered L) then refuse
              else
                let ans := m_answered L ++ [id] in
                if N.of_nat (length ans) <? m_n L then
                  match only_out c (ev_outs e) with
                  | Some (MPingReq id') =>
                      (<[c := {| m_rid := m_rid L; m_n := m_n L; m_wallet := m_wallet L; m_uuid := m_uuid L;
                                 m_issued := m_issued L ++ [id']; m_answered := ans; m_done := false |}]> s,
                       okv i (negb (memN id' (m_issued L))) 1806 [zn c; zn id'])
                  | _ => (s, [viol i 1807 [zn c; zn id; Z.of_nat (length ans); zn (m_n L)]])
                  end
                else
                  match only_out c (ev_outs e) with
                  | Some (MSignedLatencyResp rid cnt ids uuid client wallet stats sig) =>
                      (<[c := {| m_rid := m_rid L; m_n := m_n L; m_wallet := m_wallet L; m_uuid := m_uuid L;
                                 m_issued := m_issued L; m_answered := ans; m_done := true |}]> s,
                       okv i (rid =? m_rid L) 1808 [zn c; zn rid; zn (m_rid L)] ++
                       okv i ((cnt =? m_n L) && (N.of_nat (length ids) =? m_n L)) 1809 [zn c; zn cnt; zn (m_n L)] ++
                       okv i (bool_decide (sortN ids = sortN (m_issued L)) && bool_decide (NoDup ids)) 1810 [zn c] ++
                       okv i ((uuid =? m_uuid L) && (client =? c) && (wallet =? m_wallet L)) 1811 [zn c; zn uuid; zn client; zn wallet] ++
                       okv i stats 1812 [zn c] ++ okv i sig 1813 [zn c])
                  | _ => (s, [viol i 1814 [zn c; zn id]])
                  end
          end
      end
  | _ =>
      (* pings and latency reports are only ever sent in answer to the two requests above *)
      (s, flat_map (λ d : delivery, match snd d with
                     | MPingReq _ | MSignedLatencyResp _ _ _ _ _ _ _ _ => [viol i 1815 [zn (fst d)]]
                     | _ => [] end) (ev_outs e))
  end.
Definition P_C18 : pred := λ cfg t,
  xscan (λ i sp sp' s e, let '(s', v) := P_C18_event cfg i sp sp' s e in (s', v ++ bad_msgs i 1800 e)) 0 spec0 (∅ : c18st) t.
Definition pi_C18 : proj :=
  proj_by (λ e, match ev_req e with Some (RSignedLatency _ _ _ | RPingResp _ | RJoin _ _ _) => true | _ => false end)
          (λ m, match m with MPingReq _ | MSignedLatencyResp _ _ _ _ _ _ _ _ | MJoinResp _ _ _ _ => true
                             | MError _ k => (k =? E_UNAUTHORIZED) || (k =? E_BAD_REQUEST) || (k =? E_INTERNAL) | _ => false end).

(* ================= C17: feature flags ================= *)
Definition msg_class (m : msg) : option N :=
  match m with
  | MSessionState _ _ _ => Some F_SESSION_STATE | MJoinB _ _ => Some F_JOIN_B | MLeaveB _ => Some F_LEAVE_B
  | MEntityAddB _ _ => Some F_ENTITY_ADD_B | MEntityDeleteB _ _ => Some F_ENTITY_DELETE_B | MPoseB _ _ _ => Some F_POSE_B
  | MCustomB _ _ _ => Some F_CUSTOM_B | MCompAddB _ _ => Some F_COMP_ADD_B | MCompUpdateB _ _ => Some F_COMP_UPDATE_B
  | MCompDeleteB _ _ _ => Some F_COMP_DELETE_B | _ => None
  end.
Definition suppressed (cfg : config) (m : msg) : bool :=
  match msg_class m with Some f => flag_on cfg f | None => false end.
Definition filter_flags (cfg : config) (outs : list delivery) : list delivery :=
  List.filter (λ d : delivery, negb (suppressed cfg (snd d))) outs.
Definition hint_of (e : event) : N := match ev_op e with OStep _ h => h | _ => 0 end.

(* the same history run with no flag (t0) and under cfg's flags (tF) *)
Fixpoint P_C17_pair (cfg : config) (i : nat) (t0 tF : trace) : list violation :=
  match t0, tF with
  | a :: t0', b :: tF' =>
      if negb (hint_of a =? hint_of b) then []      (* the two runs recycled different session ids: not comparable further *)
      else
        okv i (bool_decide (enc_verdict (ev_verdict a) = enc_verdict (ev_verdict b))) 1701 [] ++
        okv i (bool_decide (map enc_delivery (canon_outs (filter_flags cfg (ev_outs a))) = map enc_delivery (canon_outs (ev_outs b))))
            1702 [Z.of_nat (length (ev_outs a)); Z.of_nat (length (ev_outs b))] ++
        okv i (forallb (λ d : delivery, negb (suppressed cfg (snd d))) (ev_outs b)) 1703 [] ++
        P_C17_pair cfg (S i) t0' tF'
  | [], [] => []
  | _, _ => [viol i 1704 []]
  end.
(* single-trace part: nothing of a suppressed class is ever delivered *)
Definition P_C17 : pred := λ cfg t,
  flat_map (λ ie : nat * event, okv (fst ie) (forallb (λ d : delivery, negb (suppressed cfg (snd d))) (ev_outs (snd ie))) 1703 [] ++
                                bad_msgs (fst ie) 1700 (snd ie))
           (imap (λ i e, (i, e)) t).

(* ================= C01: replicated views ================= *)
Record view := {
  v_sid : N; v_pid : N; v_parts : gset N; v_ents : gmap N ent_pb; v_comps : gmap (N * N) N;
  v_subd : gset N; v_synced : gset N; v_dirty : gset N;
  v_acts : gmap (N * N) action; v_assets : gmap N asset
}.
Definition views := gmap N view.
Definition vset_ents (f : gmap N ent_pb → gmap N ent_pb) (v : view) : view :=
  {| v_sid := v_sid v; v_pid := v_pid v; v_parts := v_parts v; v_ents := f (v_ents v); v_comps := v_comps v;
     v_subd := v_subd v; v_synced := v_synced v; v_dirty := v_dirty v; v_acts := v_acts v; v_assets := v_assets v |}.
Definition vset_parts (f : gset N → gset N) (v : view) : view :=
  {| v_sid := v_sid v; v_pid := v_pid v; v_parts := f (v_parts v); v_ents := v_ents v; v_comps := v_comps v;
     v_subd := v_subd v; v_synced := v_synced v; v_dirty := v_dirty v; v_acts := v_acts v; v_assets := v_assets v |}.
Definition vset_comps (f : gmap (N*N) N → gmap (N*N) N) (v : view) : view :=
  {| v_sid := v_sid v; v_pid := v_pid v; v_parts := v_parts v; v_ents := v_ents v; v_comps := f (v_comps v);
     v_subd := v_subd v; v_synced := v_synced v; v_dirty := v_dirty v; v_acts := v_acts v; v_assets := v_assets v |}.
Definition vset_acts (f : gmap (N*N) action → gmap (N*N) action) (v : view) : view :=
  {| v_sid := v_sid v; v_pid := v_pid v; v_parts := v_parts v; v_ents := v_ents v; v_comps := v_comps v;
     v_subd := v_subd v; v_synced := v_synced v; v_dirty := v_dirty v; v_acts := f (v_acts v); v_assets := v_assets v |}.
Definition vset_assets (f : gmap N asset → gmap N asset) (v : view) : view :=
  {| v_sid := v_sid v; v_pid := v_pid v; v_parts := v_parts v; v_ents := v_ents v; v_comps := v_comps v;
     v_subd := v_subd v; v_synced := v_synced v; v_dirty := v_dirty v; v_acts := v_acts v; v_assets := f (v_assets v) |}.
Definition vset_sync (subd synced dirty : gset N) (v : view) : view :=
  {| v_sid := v_sid v; v_pid := v_pid v; v_parts := v_parts v; v_ents := v_ents v; v_comps := v_comps v;
     v_subd := subd; v_synced := synced; v_dirty := dirty; v_acts := v_acts v; v_assets := v_assets v |}.
(* a client drops everything attached to an entity when it is told the entity is gone *)
Definition v_remove_entity (eid : N) (v : view) : view :=
  vset_assets (delete eid)
    (vset_acts (filter (λ kv : (N*N) * action, negb (fst (fst kv) =? eid)))
      (vset_comps (filter (λ kv : (N*N) * N, negb (snd (fst kv) =? eid))) (vset_ents (delete eid) v))).

(* a broadcast received: (can it be applied?, the view after applying it) *)
Definition view_recv (v : view) (m : msg) : bool * view :=
  match m with
  | MJoinB _ p => (bool_decide (p ∉ v_parts v), vset_parts (λ s, s ∪ {[p]}) v)
  | MLeaveB p => (bool_decide (p ∈ v_parts v), vset_parts (λ s, s ∖ {[p]}) v)
  | MEntityAddB _ e => (negb (is_Some_b (v_ents v !! ep_id e)), vset_ents (<[ep_id e := e]>) v)
  | MEntityDeleteB _ eid => (is_Some_b (v_ents v !! eid), v_remove_entity eid v)
  | MPoseB _ eid ps =>
      match v_ents v !! eid with
      | Some e => (true, vset_ents (<[eid := {| ep_id := ep_id e; ep_owner := ep_owner e; ep_pose := ps; ep_flag := ep_flag e |}]>) v)
      | None => (false, v) end
  | MCompAddB _ x =>
      (negb (bool_decide (cp_tid x ∈ v_synced v)) || negb (is_Some_b (v_comps v !! (cp_tid x, cp_eid x))),
       vset_comps (<[(cp_tid x, cp_eid x) := cp_data x]>) v)
  | MCompDeleteB _ tid eid =>
      (negb (bool_decide (tid ∈ v_synced v)) || is_Some_b (v_comps v !! (tid, eid)), vset_comps (delete (tid, eid)) v)
  | MCompUpdateB _ x =>
      (negb (bool_decide (cp_tid x ∈ v_synced v)) || is_Some_b (v_comps v !! (cp_tid x, cp_eid x)),
       vset_comps (<[(cp_tid x, cp_eid x) := cp_data x]>) v)
  | MActionB _ a => (is_Some_b (v_ents v !! a_eid a), vset_acts (<[(a_eid a, a_name a) := a]>) v)
  | MAssetAddB _ a => (is_Some_b (v_ents v !! as_eid a), vset_assets (<[as_eid a := a]>) v)
  | _ => (true, v)
  end.

(* what the requester itself learns from the answers to its own request (and from its own accepted
   fire-and-forget updates, guarded by what its view knows) *)
Definition view_own (v : view) (r : req) (outs : list msg) : view :=
  let has f := existsb f outs in
  match r with
  | REntityAdd rid persist flag po ots =>
      match head (omap (λ m, match m with MEntityAddResp _ x => Some x | _ => None end) outs) with
      | Some eid => vset_ents (<[eid := {| ep_id := eid; ep_owner := v_pid v; ep_pose := default zero_pose po; ep_flag := flag |}]>) v
      | None => v end
  | REntityDelete rid eid ots => if has (λ m, match m with MEntityDeleteResp _ => true | _ => false end) then v_remove_entity eid v else v
  | RPose eid (Some ps) ots =>
      match v_ents v !! eid with
      | Some e => if ep_owner e =? v_pid v
                  then vset_ents (<[eid := {| ep_id := ep_id e; ep_owner := ep_owner e; ep_pose := ps; ep_flag := ep_flag e |}]>) v else v
      | None => v end
  | RCompAdd rid tid eid data ots =>
      if has (λ m, match m with MCompAddResp _ => true | _ => false end) then vset_comps (<[(tid, eid) := data]>) v else v
  | RCompDelete rid tid eid ots =>
      if has (λ m, match m with MCompDeleteResp _ => true | _ => false end) then vset_comps (delete (tid, eid)) v else v
  | RCompUpdate tid eid data ots =>
      if negb (tid =? 0) && negb (eid =? 0) && is_Some_b (v_ents v !! eid) && is_Some_b (v_comps v !! (tid, eid))
      then vset_comps (<[(tid, eid) := data]>) v else v
  | RCompList rid tid =>
      match head (omap (λ m, match m with MCompListResp _ cs => Some cs | _ => None end) outs) with
      | Some cs =>
          let v1 := vset_comps (λ m, fold_right (λ (x : comp_pb) m, <[(cp_tid x, cp_eid x) := cp_data x]> m)
                                                (filter (λ kv : (N*N) * N, negb (fst (fst kv) =? tid)) m) cs) v in
          vset_sync (v_subd v1) (if bool_decide (tid ∈ v_subd v1) then v_synced v1 ∪ {[tid]} else v_synced v1) (v_dirty v1 ∖ {[tid]}) v1
      | None => v end
  | RSubscribe rid tid =>
      if has (λ m, match m with MSubResp _ => true | _ => false end)
      then vset_sync (v_subd v ∪ {[tid]}) (if bool_decide (tid ∈ v_dirty v) then v_synced v else v_synced v ∪ {[tid]}) (v_dirty v) v else v
  | RUnsubscribe rid tid =>
      if has (λ m, match m with MUnsubResp _ => true | _ => false end)
      then vset_sync (v_subd v ∖ {[tid]}) (v_synced v ∖ {[tid]}) (v_dirty v) v else v
  | RAction rid (Some a) ots =>
      if has (λ m, match m with MActionResp _ => true | _ => false end) then vset_acts (<[(a_eid a, a_name a) := a]>) v else v
  | RAssetAdd rid eid aid ots =>
      match head (omap (λ m, match m with MAssetAddResp _ x => Some x | _ => None end) outs) with
      | Some iid => vset_assets (<[eid := {| as_id := iid; as_asset := aid; as_pid := v_pid v; as_eid := eid |}]>) v
      | None => v end
  | _ => v
  end.

Definition view_init (sid pid : N) (outs : list msg) : view :=
  let st := head (omap (λ m, match m with MSessionState ps es cs => Some (ps, es, cs) | _ => None end) outs) in
  let acts := default [] (head (omap (λ m, match m with MVikjaState a => Some a | _ => None end) outs)) in
  let assets := default [] (head (omap (λ m, match m with MOdalState a => Some a | _ => None end) outs)) in
  let '(ps, es, cs) := default ([], [], []) st in
  {| v_sid := sid; v_pid := pid; v_parts := list_to_set ps;
     v_ents := list_to_map (map (λ x : ent_pb, (ep_id x, x)) es);
     v_comps := list_to_map (map (λ x : comp_pb, ((cp_tid x, cp_eid x), cp_data x)) cs);
     v_subd := ∅; v_synced := ∅; v_dirty := ∅;
     v_acts := list_to_map (map (λ a : action, ((a_eid a, a_name a), a)) acts);
     v_assets := list_to_map (map (λ a : asset, (as_eid a, a)) assets) |}.

(* the type a component change concerns, and whether the spec accepted it *)
Definition comp_change (sp : spec) (c sid p : N) (r : req) (outs : list delivery) : option (N * N) :=   (* tid, eid *)
  match r with
  | RCompAdd rid tid eid _ _ => if has_msg c outs (λ m, match m with MCompAddResp r' => r' =? rid | _ => false end) then Some (tid, eid) else None
  | RCompDelete rid tid eid _ => if has_msg c outs (λ m, match m with MCompDeleteResp r' => r' =? rid | _ => false end) then Some (tid, eid) else None
  | RCompUpdate tid eid _ _ => if comp_update_accepted sp sid tid eid then Some (tid, eid) else None
  | _ => None
  end.
Definition notif_about (tid eid : N) (m : msg) : bool :=
  match m with
  | MCompAddB _ x | MCompUpdateB _ x => (cp_tid x =? tid) && (cp_eid x =? eid)
  | MCompDeleteB _ t x => (t =? tid) && (x =? eid)
  | _ => false end.

Definition P_C01_event (cfg : config) (i : nat) (sp sp' : spec) (vs : views) (e : event) : views * list violation :=
  let outs := ev_outs e in
  let act := actor e in
  (* 1. broadcasts received by connections other than the actor *)
  let '(vs1, viol1) :=
    fold_left (λ (acc : views * list violation) (d : delivery),
      let '(vs, l) := acc in
      if bool_decide (Some (fst d) = act) then acc else
      match vs !! fst d with
      | None => acc
      | Some v => let '(ok, v') := view_recv v (snd d) in
                  (<[fst d := v']> vs, l ++ okv i ok 106 [zn (fst d); hd 0%Z (enc_msg (snd d))])
      end) outs (vs, []) in
  (* 2. the actor's own view *)
  let vs2 :=
    match act with
    | None => vs1
    | Some c =>
      let mine := map snd (List.filter (λ d : delivery, fst d =? c) outs) in
      let left := mem_changed sp sp' e c in
      match sp_mem sp' !! c with
      | None => delete c vs1
      | Some (sid, p) =>
          if left then <[c := view_init sid p mine]> vs1
          else match ev_req e, vs1 !! c with
               | Some (RJoin _ _ _), Some v =>
                   (* refused with ALREADY_JOINED: the modules hand their state again *)
                   let v1 := match head (omap (λ m, match m with MVikjaState a => Some a | _ => None end) mine) with
                             | Some a => vset_acts (λ _, list_to_map (map (λ a : action, ((a_eid a, a_name a), a)) a)) v | None => v end in
                   let v2 := match head (omap (λ m, match m with MOdalState a => Some a | _ => None end) mine) with
                             | Some a => vset_assets (λ _, list_to_map (map (λ a : asset, (as_eid a, a)) a)) v1 | None => v1 end in
                   <[c := v2]> vs1
               | Some r, Some v => <[c := view_own v r mine]> vs1
               | _, _ => vs1
               end
      end
    end in
  (* 3. a component change somebody was not told about: fine unless that participant is synced on the type *)
  let '(vs3, viol3) :=
    match stepped e with
    | Some (c, r) =>
        match sp_mem sp !! c with
        | Some (sid, p) =>
            match comp_change sp c sid p r outs with
            | Some (tid, eid) =>
                fold_left (λ (acc : views * list violation) (pc : N * N),
                  let '(vs, l) := acc in
                  if has_msg (snd pc) outs (notif_about tid eid) then acc else
                  match vs !! snd pc with
                  | None => acc
                  | Some v => if bool_decide (tid ∈ v_synced v) then (vs, l ++ [viol i 105 [zn (snd pc); zn tid; zn eid]])
                              else (<[snd pc := vset_sync (v_subd v) (v_synced v) (v_dirty v ∪ {[tid]}) v]> vs, l)
                  end) (sp_others sp sid p) (vs2, [])
            | None => (vs2, [])
            end
        | None => (vs2, [])
        end
    | None => (vs2, [])
    end in
  (* 4. at a hook snapshot: every member's view equals the server's state *)
  let viol4 :=
    match ev_op e with
    | OSnap =>
      flat_map (λ d : delivery, match snd d with
        | MSnap ss g q =>
          flat_map (λ d0 : sdump,
            let dd := canon_dump d0 in
            flat_map (λ pc : N * N,
              match vs3 !! snd pc with
              | None => [viol i 100 [zn (snd pc)]]
              | Some v =>
                  okv i (bool_decide (sortN (elements (v_parts v)) = d_parts dd)) 101 [zn (snd pc); zn (d_sid dd)] ++
                  okv i (bool_decide (sort_by eEnt (map snd (map_to_list (v_ents v))) = map fst (d_ents dd))) 102 [zn (snd pc); zn (d_sid dd)] ++
                  okv i (bool_decide (sort_by eComp (omap (λ kv : (N*N) * N, if bool_decide (fst (fst kv) ∈ v_synced v)
                             then Some {| cp_tid := fst (fst kv); cp_eid := snd (fst kv); cp_data := snd kv |} else None) (map_to_list (v_comps v)))
                           = List.filter (λ x, bool_decide (cp_tid x ∈ v_synced v)) (d_comps dd))) 103 [zn (snd pc); zn (d_sid dd)] ++
                  (if cfg_vikja cfg then okv i (bool_decide (sort_by eAction (map snd (map_to_list (v_acts v))) = d_actions dd)) 104 [zn (snd pc); zn (d_sid dd)] else []) ++
                  (if cfg_odal cfg then okv i (bool_decide (sort_by eAsset (map snd (map_to_list (v_assets v))) = d_assets dd)) 107 [zn (snd pc); zn (d_sid dd)] else [])
              end) (sp_members sp (d_sid dd))) ss
        | _ => [] end) outs
    | _ => []
    end in
  (* 5. a newcomer is handed exactly the state *)
  let viol5 :=
    match stepped e with
    | Some (c, RJoin _ _ _) =>
        match join_resp c outs with
        | Some (_, sid, _, _) => join_snapshot_check cfg sel_all 100 i sp' c sid outs
        | None => [] end
    | _ => []
    end in
  (vs3, viol1 ++ viol3 ++ viol4 ++ viol5 ++
        snap_check cfg {| k_parts := true; k_ents := true; k_comps := true; k_acts := true; k_assets := true;
                          k_types := false; k_subs := false; k_reg := false |} 100 i sp e ++ bad_msgs i 100 e).
Definition P_C01 : pred := λ cfg t, xscan (P_C01_event cfg) 0 spec0 (∅ : views) t.
Definition pi_C01 : proj :=
  λ e, map_outs (snap_only dump_state_only)
    (proj_by (λ _, true)
       (λ m, match m with
             | MJoinResp _ _ _ _ | MSessionState _ _ _ | MVikjaState _ | MOdalState _ | MJoinB _ _ | MLeaveB _ | MEntityAddB _ _
             | MEntityDeleteB _ _ | MPoseB _ _ _ | MCompAddB _ _ | MCompDeleteB _ _ _ | MCompUpdateB _ _ | MActionB _ _ | MAssetAddB _ _
             | MEntityAddResp _ _ | MEntityDeleteResp _ | MCompAddResp _ | MCompDeleteResp _ | MCompListResp _ _ | MSubResp _
             | MUnsubResp _ | MActionResp _ | MAssetAddResp _ _ | MSnap _ _ _ => true
             | _ => false end) e).

(* C03's projection: exactly the observations its predicate depends on, i.e. its verdicts *)
Definition viol_events (p : pred) (cfg : config) (t : trace) : trace :=
  let vs := p cfg t in
  imap (λ i e, {| ev_op := OSnap; ev_req := None;
                  ev_outs := omap (λ v : violation, if bool_decide (v_index v = i) then Some (0, MBad (v_code v) 0%Z) else None) vs;
                  ev_verdict := VOk |}) t.

(* ---------- trace-level projections and the comparison engine over them ---------- *)
Definition tproj := config → trace → trace.
Definition lift (π : proj) : tproj := λ _ t, map π t.
(* events on which a property's projection is not comparable because ANOTHER property's subject decides what
   happens (the pair of unprojected events is looked at): they are skipped by the comparison *)
Definition skipper := event → event → bool.
Definition no_skip : skipper := λ _ _, false.
Fixpoint mask (sk : skipper) (impl model pa pb : trace) : trace * trace :=
  match impl, model, pa, pb with
  | a :: impl', b :: model', x :: pa', y :: pb' =>
      let '(ra, rb) := mask sk impl' model' pa' pb' in
      if sk a b then (blank x :: ra, blank y :: rb) else (x :: ra, y :: rb)
  | _, _, _, _ => (pa, pb)
  end.
Definition diff_trace_t (cfg : config) (π : tproj) (sk : skipper) (impl : trace) : list mismatch :=
  let model := run cfg (map ev_op impl) in
  let '(pa, pb) := mask sk impl model (π cfg impl) (π cfg model) in
  diff_events pi_full 0 pa pb.
(* whether a custom message is within the size limit is C14's subject: the other properties do not compare a
   custom-message event on which implementation and model disagree about TOO_LARGE *)
Definition too_large_ev (e : event) : bool :=
  existsb (λ d : delivery, match snd d with MError _ k => k =? E_TOO_LARGE | _ => false end) (ev_outs e).
Definition skip_limit : skipper :=
  λ a b, match ev_req a with Some (RCustom _ _ _) => negb (Bool.eqb (too_large_ev a) (too_large_ev b)) | _ => false end.
Definition pi_C03 : tproj := viol_events P_C03.
(* C17 is decided on the implementation alone (a flagged run against its own flag-free twin, P_C17_pair, and the
   regenerated flag table); nothing of a single flagged trace is compared with the model, so that a change which
   breaks another property equally with and without flags does not disturb C17's check *)
Definition pi_none : proj := blank.
Definition pi_C17 : proj := pi_none.

(* keep an event only if the spec-aware test says it is the property's business *)
Fixpoint sfilter (keep : spec → event → bool) (π : proj) (sp : spec) (t : trace) : trace :=
  match t with
  | [] => []
  | e :: t' => (if keep sp e then π e else blank e) :: sfilter keep π (spec_step sp e) t'
  end.

(* C05: joins and snapshots, and the owner-restricted requests whose target is NOT the requester's own live entity
   (what an owner's own accepted request relays is C02's / C11's subject) *)
Definition c05_keep (sp : spec) (e : event) : bool :=
  is_snap_ev e ||
  match ev_op e, ev_req e with
  | OStep c _, Some r =>
      match r with
      | RJoin _ _ _ | REntityAdd _ _ _ _ _ => true
      | REntityDelete _ eid _ | RPose eid _ _ | RAssetAdd _ eid _ _ =>
          match sp_mem sp !! c with
          | Some (sid, p) => match sp_ents sp !! (sid, eid) with
                             | Some (ent, _) => negb (ep_owner ent =? p)
                             | None => true end
          | None => false
          end
      | _ => false
      end
  | _, _ => false
  end.
Definition tpi_C05 : tproj := λ _ t, sfilter c05_keep pi_C05 spec0 t.

(* C01: the views themselves, not the messages that build them: at every snapshot the canonical encoding of every
   member's view next to the server's state, and at every event the broadcasts that could not be applied *)
Definition enc_view (c : N) (v : view) : list Z :=
  [zn c; zn (v_sid v); zn (v_pid v)] ++ eNs (sortN (elements (v_parts v))) ++
  eL eEnt (sort_by eEnt (map snd (map_to_list (v_ents v)))) ++
  eL eComp (sort_by eComp (omap (λ kv : (N*N) * N, if bool_decide (fst (fst kv) ∈ v_synced v)
        then Some {| cp_tid := fst (fst kv); cp_eid := snd (fst kv); cp_data := snd kv |} else None) (map_to_list (v_comps v)))) ++
  eL eAction (sort_by eAction (map snd (map_to_list (v_acts v)))) ++
  eL eAsset (sort_by eAsset (map snd (map_to_list (v_assets v)))).
Fixpoint views_trace (cfg : config) (i : nat) (sp : spec) (vs : views) (t : trace) : trace :=
  match t with
  | [] => []
  | e :: t' =>
      let sp' := spec_step sp e in
      let '(vs', viol) := P_C01_event cfg i sp sp' vs e in
      let marks := omap (λ v : violation, if bool_decide (v_code v = 106%Z) then Some (0, MBad 106 (hd 0%Z (v_info v))) else None) viol in
      let snap := match ev_op e with
                  | OSnap => omap (λ d : delivery, match snd d with MSnap ss _ _ => Some (0, MSnap (map dump_state_only ss) 0 []) | _ => None end) (ev_outs e) ++
                             map (λ cv : N * view, (fst cv, MCustomB 0 0 (map Z.to_N (map Z.abs (enc_view (fst cv) (snd cv))))))
                                 (sort_by (λ cv : N * view, [zn (fst cv)]) (map_to_list vs'))
                  | _ => [] end in
      {| ev_op := OSnap; ev_req := None; ev_outs := marks ++ snap; ev_verdict := VOk |} :: views_trace cfg (S i) sp' vs' t'
  end.
Definition tpi_C01 : tproj := λ cfg t, views_trace cfg 0 spec0 ∅ t.
Definition run_P_C17_pair (cfg : config) (t0 tF : trace) : list violation := P_C17_pair cfg 0 t0 tF.

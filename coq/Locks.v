(* Locks.v — executable definitions for property C09 (no proofs here).

   Part 1: lockset consistency of a table of field accesses (the table is
           regenerated from the Go sources into GenLocks.v on every run).
   Part 2: lock-order ranks over a table of (held lock -> acquired lock) edges.
   Part 3: an abstract lock machine: any number of threads, each a list of
           [Acq l | Rel l | Step]; exclusive, non re-entrant locks (a Go RWMutex
           is treated as exclusive for ordering: with Go's writer preference a
           nested read lock can deadlock exactly like a write lock).

   Style: plain standard library.  No axioms.  All names are interned to [N] by
   the translator (GenLocks.v carries the name tables as comments/strings). *)
From Coq Require Import NArith List Bool.
Import ListNotations.
Open Scope N_scope.

(* ------------------------------------------------------------------ part 1 *)

(* a lock class is (struct type, mutex field), interned *)
Definition lockclass := N.

Record access := mkAccess {
  a_field  : N;                        (* interned (struct class, field) *)
  a_write  : bool;                     (* write (incl. map/slice content update) or read *)
  a_exempt : bool;                     (* constructor write on a fresh object, or confined to one goroutine
                                          (hand-justified whitelist + thread-reachability check by the translator) *)
  a_held   : list (lockclass * bool);  (* must-held lock classes; true = exclusively (Lock), false = shared (RLock) *)
  a_site   : N                         (* interned function + file:line *)
}.

Definition holds_b (a : access) (l : lockclass) : bool :=
  existsb (fun p => N.eqb (fst p) l) (a_held a).

Definition holds_excl_b (a : access) (l : lockclass) : bool :=
  existsb (fun p => N.eqb (fst p) l && snd p) (a_held a).

(* [l] protects [a] in the mode [a] needs *)
Definition guards_b (a : access) (l : lockclass) : bool :=
  if a_write a then holds_excl_b a l else holds_b a l.

(* two accesses conflict when they touch the same field, one of them writes and
   neither is exempt *)
Definition conflict_b (a b : access) : bool :=
  N.eqb (a_field a) (a_field b) && (a_write a || a_write b)
  && negb (a_exempt a) && negb (a_exempt b).

(* a common lock class, held by both, exclusively by the writer(s) *)
Definition common_guard_b (a b : access) : bool :=
  existsb (fun p => guards_b a (fst p) && guards_b b (fst p)) (a_held a).

Definition pair_ok_b (a b : access) : bool :=
  negb (conflict_b a b) || common_guard_b a b.

Definition lockset_consistent_b (tbl : list access) : bool :=
  forallb (fun a => forallb (fun b => pair_ok_b a b) tbl) tbl.

(* the failing pairs (site of a, site of b), for diagnostics *)
Definition lockset_failures (tbl : list access) : list (N * N * N) :=
  flat_map (fun a => flat_map (fun b => if pair_ok_b a b then [] else [(a_field a, a_site a, a_site b)]) tbl) tbl.

(* Prop-level reading of the same notions (used in the statement of soundness) *)
Definition holds (a : access) (l : lockclass) : Prop := exists x, In (l, x) (a_held a).
Definition exclusive (a : access) (l : lockclass) : Prop := In (l, true) (a_held a).

(* ------------------------------------------------------------------ part 2 *)

Record edge := mkEdge {
  e_from : lockclass;    (* a lock class held ... *)
  e_to   : lockclass;    (* ... while this one is acquired (directly or through calls/callbacks) *)
  e_site : N
}.

Definition rank_fun := lockclass -> N.

Definition rank_ok (rank : rank_fun) (es : list edge) : bool :=
  forallb (fun e => N.ltb (rank (e_from e)) (rank (e_to e))) es.

(* rank table: association list, missing = 0 *)
Fixpoint lookup_rank (tbl : list (lockclass * N)) (l : lockclass) : N :=
  match tbl with
  | [] => 0
  | (k, v) :: t => if N.eqb k l then v else lookup_rank t l
  end.

Definition edge_nodes (es : list edge) : list lockclass :=
  flat_map (fun e => [e_from e; e_to e]) es.

(* one relaxation round: rank'(v) = max (rank v) (1 + rank u) over edges u -> v *)
Definition relax (es : list edge) (r : list (lockclass * N)) : list (lockclass * N) :=
  map (fun kv =>
         let v := fst kv in
         (v, fold_left (fun acc e => if N.eqb (e_to e) v then N.max acc (1 + lookup_rank r (e_from e)) else acc)
                       es (snd kv)))
      r.

Fixpoint iterate {A} (f : A -> A) (n : nat) (x : A) : A :=
  match n with O => x | S n' => iterate f n' (f x) end.

(* longest-path ranks after |nodes| rounds; correct (rank_ok holds) iff the graph is acyclic —
   which [rank_ok] re-checks, so nothing about this function needs to be trusted *)
Definition compute_rank_table (es : list edge) : list (lockclass * N) :=
  let nodes := edge_nodes es in
  iterate (relax es) (length nodes) (map (fun v => (v, 0)) nodes).

Definition compute_rank (es : list edge) : rank_fun :=
  lookup_rank (compute_rank_table es).

(* ------------------------------------------------------------------ part 3 *)

Inductive instr := Acq (l : lockclass) | Rel (l : lockclass) | Step.

Definition prog := list instr.

Record thread := mkThread { t_prog : prog; t_held : list lockclass }.

Definition config := list thread.

Definition memN (x : N) (l : list N) : bool := existsb (N.eqb x) l.

Fixpoint removeN (x : N) (l : list N) : list N :=
  match l with
  | [] => []
  | y :: t => if N.eqb x y then removeN x t else y :: removeN x t
  end.

(* is lock [l] held by some thread of the configuration? *)
Definition locked_b (cfg : config) (l : lockclass) : bool :=
  existsb (fun t => memN l (t_held t)) cfg.

(* the step thread [t] can take in configuration [cfg] (None: finished or blocked) *)
Definition step_thread (cfg : config) (t : thread) : option thread :=
  match t_prog t with
  | [] => None
  | Step :: p => Some (mkThread p (t_held t))
  | Rel l :: p => Some (mkThread p (removeN l (t_held t)))
  | Acq l :: p => if locked_b cfg l then None else Some (mkThread p (l :: t_held t))
  end.

Fixpoint replace_nth {A} (n : nat) (x : A) (l : list A) : list A :=
  match l, n with
  | [], _ => []
  | _ :: t, O => x :: t
  | y :: t, S n' => y :: replace_nth n' x t
  end.

(* thread number [i] takes a step *)
Definition thread_step (i : nat) (cfg cfg' : config) : Prop :=
  exists t t', nth_error cfg i = Some t /\ step_thread cfg t = Some t' /\ cfg' = replace_nth i t' cfg.

Definition init_config (progs : list prog) : config := map (fun p => mkThread p []) progs.

Inductive reachable (progs : list prog) : config -> Prop :=
| reach_init : reachable progs (init_config progs)
| reach_step : forall cfg cfg' i, reachable progs cfg -> thread_step i cfg cfg' -> reachable progs cfg'.

Definition all_finished (cfg : config) : Prop := forall t, In t cfg -> t_prog t = [].

(* static discipline of one program, checked along the program with the set of locks it holds:
   every acquisition is of a lock whose rank is strictly above the rank of every lock held
   (so in particular not held already), and the program ends holding nothing *)
Fixpoint prog_ok_from (rank : rank_fun) (held : list lockclass) (p : prog) : bool :=
  match p with
  | [] => match held with [] => true | _ => false end
  | Step :: p' => prog_ok_from rank held p'
  | Rel l :: p' => prog_ok_from rank (removeN l held) p'
  | Acq l :: p' => forallb (fun h => N.ltb (rank h) (rank l)) held && prog_ok_from rank (l :: held) p'
  end.

Definition prog_ok (rank : rank_fun) (p : prog) : bool := prog_ok_from rank [] p.

(* the (held, acquired) pairs a program exhibits — what the translator's [lock_edges] over-approximates *)
Fixpoint prog_pairs_from (held : list lockclass) (p : prog) : list (lockclass * lockclass) :=
  match p with
  | [] => []
  | Step :: p' => prog_pairs_from held p'
  | Rel l :: p' => prog_pairs_from (removeN l held) p'
  | Acq l :: p' => map (fun h => (h, l)) held ++ prog_pairs_from (l :: held) p'
  end.

Definition prog_pairs (p : prog) : list (lockclass * lockclass) := prog_pairs_from [] p.

(* the program ends holding nothing *)
Fixpoint balanced_from (held : list lockclass) (p : prog) : bool :=
  match p with
  | [] => match held with [] => true | _ => false end
  | Step :: p' => balanced_from held p'
  | Rel l :: p' => balanced_from (removeN l held) p'
  | Acq l :: p' => balanced_from (l :: held) p'
  end.

Definition balanced (p : prog) : bool := balanced_from [] p.

Definition edge_pairs (es : list edge) : list (lockclass * lockclass) :=
  map (fun e => (e_from e, e_to e)) es.

(* a program never re-acquires a lock it holds (needed besides the pairs: a self pair (l,l) is in
   [prog_pairs] when it does, so covering by an irreflexively ranked table excludes it) *)

(* ------------------------------------------------------------------ part 4: blocking operations under a lock *)

(* a blocking operation (channel send) performed while a lock is held: (held lock class, channel class, site) *)
Record blocking := mkBlocking { b_held : lockclass; b_chan : N; b_site : N }.

(* every blocking operation under a lock is on a channel of the reviewed list *)
Definition blocking_ok (allowed : list N) (bs : list blocking) : bool :=
  forallb (fun b => memN (b_chan b) allowed) bs.

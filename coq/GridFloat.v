(* GridFloat.v — bit-exact executable model of the float32 vector primitives of
   /repo/modules/dagaz/math.go (Add, Sub, Mul, Dot, Cross on Vector3f) over Flocq's IEEE-754
   binary32.  Executable definitions only; the error bounds against the exact-rational references
   of Grid.v are proved in proofs/GridFloatProofs.v and stated in Properties/C20float.v; the
   extracted code is the bit-exact oracle of oracle/c20f.

   Faithfulness conventions
   * a Go float32 is a Flocq [binary32] (sign, 8 exponent bits, 23 fraction bits); every Go
     operator `+`, `-`, `*` on float32 is the IEEE-754 operation rounded to nearest, ties to even
     ([mode_NE]), i.e. [b32_plus mode_NE], [b32_minus mode_NE], [b32_mult mode_NE].
   * Go parses `a.x*b.x + a.y*b.y + a.z*b.z` as ((a.x*b.x) + (a.y*b.y)) + (a.z*b.z); every
     intermediate value is rounded to float32 (the Go specification demands float32 rounding of
     each typed float32 operation except that an implementation MAY fuse x*y + z; the amd64
     compiler with the default GOAMD64=v1 never fuses; arm64, ppc64, s390x, riscv64 and
     GOAMD64=v3 do.  This model is the unfused evaluation).
   * the payload of a NaN result follows Flocq's [binop_nan_pl32] (first NaN operand, else the
     default quiet NaN); Go/amd64 payloads are whatever SSE produces.  The oracle therefore
     identifies all NaNs. *)
From Coq Require Import ZArith QArith.
From Flocq Require Import Core IEEE754.BinarySingleNaN IEEE754.Binary IEEE754.Bits.

(* ------------------------------------------------------------------ scalars *)
Definition fadd : binary32 -> binary32 -> binary32 := b32_plus mode_NE.
Definition fsub : binary32 -> binary32 -> binary32 := b32_minus mode_NE.
Definition fmul : binary32 -> binary32 -> binary32 := b32_mult mode_NE.

(* ------------------------------------------------------------------ vectors (math.go: Vector3f) *)
Record vec32 := mkVec32 { fx : binary32; fy : binary32; fz : binary32 }.

(* func Add(a, b Vector3f) Vector3f { return Vector3f{a.x + b.x, a.y + b.y, a.z + b.z} } *)
Definition add32 (a b : vec32) : vec32 :=
  mkVec32 (fadd (fx a) (fx b)) (fadd (fy a) (fy b)) (fadd (fz a) (fz b)).

(* func Sub(a, b Vector3f) Vector3f { return Vector3f{a.x - b.x, a.y - b.y, a.z - b.z} } *)
Definition sub32 (a b : vec32) : vec32 :=
  mkVec32 (fsub (fx a) (fx b)) (fsub (fy a) (fy b)) (fsub (fz a) (fz b)).

(* func Mul(a Vector3f, s float32) Vector3f { return Vector3f{a.x * s, a.y * s, a.z * s} } *)
Definition mul32 (a : vec32) (s : binary32) : vec32 :=
  mkVec32 (fmul (fx a) s) (fmul (fy a) s) (fmul (fz a) s).

(* func (a *Vector3f) Dot(b Vector3f) float32 { return a.x*b.x + a.y*b.y + a.z*b.z } *)
Definition dot32 (a b : vec32) : binary32 :=
  fadd (fadd (fmul (fx a) (fx b)) (fmul (fy a) (fy b))) (fmul (fz a) (fz b)).

(* func Cross(a, b Vector3f) Vector3f {
     return Vector3f{a.y*b.z - a.z*b.y, a.z*b.x - a.x*b.z, a.x*b.y - a.y*b.x} } *)
Definition cross32 (a b : vec32) : vec32 :=
  mkVec32 (fsub (fmul (fy a) (fz b)) (fmul (fz a) (fy b)))
          (fsub (fmul (fz a) (fx b)) (fmul (fx a) (fz b)))
          (fsub (fmul (fx a) (fy b)) (fmul (fy a) (fx b))).

(* ------------------------------------------------------------------ 32-bit patterns
   math.Float32bits / math.Float32frombits as integers in [0, 2^32) *)
Definition f32_of_bits (b : Z) : binary32 := b32_of_bits (b mod 4294967296)%Z.
Definition bits_of_f32 (x : binary32) : Z := bits_of_b32 x.

Definition vec32_of_bits (x y z : Z) : vec32 := mkVec32 (f32_of_bits x) (f32_of_bits y) (f32_of_bits z).
Definition bits_of_vec32 (v : vec32) : Z * Z * Z := (bits_of_f32 (fx v), bits_of_f32 (fy v), bits_of_f32 (fz v)).

Definition is_nan32 (x : binary32) : bool := is_nan 24 128 x.
Definition is_finite32 (x : binary32) : bool := is_finite 24 128 x.
Definition finite_vec32 (v : vec32) : bool := is_finite32 (fx v) && is_finite32 (fy v) && is_finite32 (fz v).

(* bit-exact comparison of a model value with a 32-bit pattern; all NaNs are identified *)
Definition same_bits (x : binary32) (b : Z) : bool :=
  if is_nan32 x then is_nan32 (f32_of_bits b) else (bits_of_f32 x =? b mod 4294967296)%Z.

(* the two entry points of the oracle: inputs and the implementation's result as bit patterns *)
Definition dot_bits (ax ay az bx by_ bz : Z) : Z :=
  bits_of_f32 (dot32 (vec32_of_bits ax ay az) (vec32_of_bits bx by_ bz)).
Definition cross_bits (ax ay az bx by_ bz : Z) : Z * Z * Z :=
  bits_of_vec32 (cross32 (vec32_of_bits ax ay az) (vec32_of_bits bx by_ bz)).
Definition dot_agrees (ax ay az bx by_ bz r : Z) : bool :=
  same_bits (dot32 (vec32_of_bits ax ay az) (vec32_of_bits bx by_ bz)) r.
Definition cross_agrees (ax ay az bx by_ bz rx ry rz : Z) : bool :=
  let c := cross32 (vec32_of_bits ax ay az) (vec32_of_bits bx by_ bz) in
  same_bits (fx c) rx && same_bits (fy c) ry && same_bits (fz c) rz.

(* ------------------------------------------------------------------ the exact rational a float32 denotes
   (the link to the exact-arithmetic references Grid.dot / Grid.cross and to the tolerance tests
   GridObs.dot_ok / GridObs.cross_ok).  Written so that it is syntactically the value that
   Grid.Q_of_f32bits computes from the bit pattern (proofs/GridFloatProofs.v: Q_of_f32bits_bits). *)
Definition Qval (x : binary32) : Q :=
  match x with
  | B754_finite _ _ s m e _ =>
      let mag := match e with
                 | Z0 => inject_Z (Zpos m)
                 | Zpos p => inject_Z (Zpos m * Z.pow 2 (Zpos p))
                 | Zneg p => Qred (Zpos m # Pos.pow 2 p)
                 end in
      if s then Qopp mag else mag
  | _ => 0%Q
  end.

(* None = not a finite float32 (the convention of GridObs.dot_ok / cross_ok) *)
Definition Qres (x : binary32) : option Q := if is_finite32 x then Some (Qval x) else None.

(* Preds.v — the executable property predicates P_C over traces and their projections π_C.
   A predicate sees only observations (ops, consumed requests, deliveries, verdicts, hook
   snapshots) and the trace-determined spec of Spec.v; never the model state.
   No proofs in this file. *)
From hagall Require Export Obs.

Definition actor (e : event) : option N :=
  match ev_op e with OStep c _ | OSend c _ | ODisconnect c => Some c | _ => None end.
Definition lines (l : list delivery) : list (list Z) := sort_lines (map enc_delivery l).
Definition sel (f : msg → bool) (outs : list delivery) : list delivery := List.filter (λ d, f (snd d)) outs.
Definition to_all (targets : list (N * N)) (m : msg) : list delivery := map (λ pc : N * N, (snd pc, m)) targets.
Definition same_lines (a b : list delivery) : bool := bool_decide (lines a = lines b).
Definition stepped (e : event) : option (N * req) :=
  match ev_op e, ev_req e, ev_verdict e with
  | OStep c _, Some r, (VOk | VSkip) => Some (c, r)
  | _, _, _ => None
  end.
Definition okv (i : nat) (b : bool) (code : Z) (info : list Z) : list violation :=
  if b then [] else [viol i code info].

(* did connection [c]'s membership change in this event?  A successful join always is a change,
   even when the new session recycles the old numeric id and hands out the same participant id. *)
Definition rejoined (e : event) (c : N) : bool :=
  match ev_op e, ev_req e with
  | OStep c' _, Some (RJoin _ _ _) => (c' =? c) && is_Some_b (join_resp c (ev_outs e))
  | _, _ => false end.
Definition mem_changed (sp sp' : spec) (e : event) (c : N) : bool :=
  negb (bool_decide (sp_mem sp !! c = sp_mem sp' !! c)) || rejoined e c.

(* the departure an event causes: (connection, session, participant) *)
Definition departure (sp sp' : spec) (e : event) : option (N * N * N) :=
  match actor e with
  | Some c => match sp_mem sp !! c with
              | Some (sid, p) => if mem_changed sp sp' e c then Some (c, sid, p) else None
              | None => None end
  | None => None
  end.

Definition departure_expected (cfg : config) (sp : spec) (sid p : N) : list delivery :=
  let rest := sp_others sp sid p in
  (if flag_on cfg F_ENTITY_DELETE_B then []
   else flat_map (λ eid, to_all rest (MEntityDeleteB 0 eid)) (sp_gone sp sid p)) ++
  (if flag_on cfg F_LEAVE_B then [] else to_all rest (MLeaveB p)).

(* ---------- the state handed to a joiner vs the spec ---------- *)
Definition spec_ents (sp : spec) (sid : N) : list (ent_pb * bool) :=
  sort_by (λ eb, eEnt (fst eb))
    (omap (λ kv : (N*N) * (ent_pb*bool), if fst (fst kv) =? sid then Some (snd kv) else None) (map_to_list (sp_ents sp))).
Definition spec_comps (sp : spec) (sid : N) : list comp_pb :=
  sort_by eComp
    (omap (λ kv : (N*N*N) * N, if fst (fst (fst kv)) =? sid
                               then Some {| cp_tid := snd (fst (fst kv)); cp_eid := snd (fst kv); cp_data := snd kv |}
                               else None) (map_to_list (sp_comps sp))).
Definition spec_types (sp : spec) (sid : N) : list (N * N) :=      (* (tid, name) *)
  sort_by (λ tn, [zn (fst tn); zn (snd tn)])
    (omap (λ kv : (N*N) * N, if fst (fst kv) =? sid then Some (snd kv, snd (fst kv)) else None) (map_to_list (sp_types sp))).
Definition spec_subs (sp : spec) (sid : N) : list (N * N) :=       (* (tid, pid) *)
  sort_by (λ tp, [zn (fst tp); zn (snd tp)])
    (flat_map (λ kv : (N*N) * gset N, if fst (fst kv) =? sid then map (λ p, (snd (fst kv), p)) (elements (snd kv)) else [])
              (map_to_list (sp_subs sp))).
Definition spec_acts (sp : spec) (sid : N) : list action :=
  sort_by eAction
    (omap (λ kv : (N*N*N) * action, if fst (fst (fst kv)) =? sid then Some (snd kv) else None) (map_to_list (sp_acts sp))).
Definition spec_assets (sp : spec) (sid : N) : list asset :=
  sort_by eAsset
    (omap (λ kv : (N*N) * asset, if fst (fst kv) =? sid then Some (snd kv) else None) (map_to_list (sp_assets sp))).
Definition spec_tids (sp : spec) (sid : N) : list N := map fst (spec_types sp sid).
Definition subs_at (sp : spec) (sid tid : N) : gset N := default ∅ (sp_subs sp !! (sid, tid)).

(* which parts of the joiner's snapshot to check *)
Record snapsel := { k_parts : bool; k_ents : bool; k_comps : bool; k_acts : bool; k_assets : bool;
                    k_types : bool; k_subs : bool; k_reg : bool }.
Definition sel_all : snapsel := {| k_parts := true; k_ents := true; k_comps := true; k_acts := true;
  k_assets := true; k_types := true; k_subs := true; k_reg := true |}.
Definition sel_none : snapsel := {| k_parts := false; k_ents := false; k_comps := false; k_acts := false;
  k_assets := false; k_types := false; k_subs := false; k_reg := false |}.

(* join answered with success: SessionState / VIKJA_STATE / ODAL_STATE against the spec after the event *)
Definition join_snapshot_check (cfg : config) (k : snapsel) (base : Z) (i : nat) (sp' : spec) (c sid : N)
    (outs : list delivery) : list violation :=
  (if flag_on cfg F_SESSION_STATE then [] else
   match first_to c outs (λ m, match m with MSessionState ps es cs => Some (ps, es, cs) | _ => None end) with
   | None => if k_parts k || k_ents k || k_comps k then [viol i (base + 10) [zn c; zn sid]] else []
   | Some (ps, es, cs) =>
       okv i (negb (k_parts k) || bool_decide (sortN ps = map fst (sp_members sp' sid))) (base + 11) [zn c; zn sid] ++
       okv i (negb (k_ents k) || bool_decide (sort_by eEnt es = map fst (spec_ents sp' sid))) (base + 12) [zn c; zn sid] ++
       okv i (negb (k_comps k) || bool_decide (sort_by eComp cs = spec_comps sp' sid)) (base + 13) [zn c; zn sid]
   end) ++
  (if cfg_vikja cfg && k_acts k then
     match first_to c outs (λ m, match m with MVikjaState a => Some a | _ => None end) with
     | None => [viol i (base + 14) [zn c; zn sid]]
     | Some a => okv i (bool_decide (sort_by eAction a = spec_acts sp' sid)) (base + 15) [zn c; zn sid]
     end else []) ++
  (if cfg_odal cfg && k_assets k then
     match first_to c outs (λ m, match m with MOdalState a => Some a | _ => None end) with
     | None => [viol i (base + 16) [zn c; zn sid]]
     | Some a => okv i (bool_decide (sort_by eAsset a = spec_assets sp' sid)) (base + 17) [zn c; zn sid] ++
                 okv i (bool_decide (NoDup (map as_eid a))) (base + 18) [zn c; zn sid]
     end else []).

(* a hook snapshot against the spec *)
Definition live_sids (sp : spec) : list N :=
  sortN (elements (list_to_set (map (λ kv : N * (N*N), fst (snd kv)) (map_to_list (sp_mem sp))) : gset N)).

Definition dump_check (cfg : config) (k : snapsel) (base : Z) (i : nat) (sp : spec) (d0 : sdump) : list violation :=
  let d := canon_dump d0 in
  let sid := d_sid d in
  okv i (negb (k_parts k) || bool_decide (d_parts d = map fst (sp_members sp sid))) (base + 21) [zn sid] ++
  okv i (negb (k_ents k) || bool_decide (d_ents d = spec_ents sp sid)) (base + 22) [zn sid] ++
  okv i (negb (k_comps k) || bool_decide (d_comps d = spec_comps sp sid)) (base + 23) [zn sid] ++
  okv i (negb (k_types k) || bool_decide (d_types d = spec_types sp sid)) (base + 24) [zn sid] ++
  okv i (negb (k_subs k) || bool_decide (d_subs d = spec_subs sp sid)) (base + 25) [zn sid] ++
  okv i (negb (k_acts k && cfg_vikja cfg) || bool_decide (d_actions d = spec_acts sp sid)) (base + 26) [zn sid] ++
  okv i (negb (k_assets k && cfg_odal cfg) || bool_decide (d_assets d = spec_assets sp sid)) (base + 27) [zn sid] ++
  okv i (negb (k_reg k) || bool_decide (Some (d_uuid d) = sp_uuid sp !! sid)) (base + 28) [zn sid].

Definition snap_check (cfg : config) (k : snapsel) (base : Z) (i : nat) (sp : spec) (e : event) : list violation :=
  match ev_op e with
  | OSnap =>
    flat_map (λ d : delivery, match snd d with
      | MSnap ss g q =>
          flat_map (dump_check cfg k base i sp) ss ++
          (if k_reg k then
             okv i (bool_decide (sortN (map d_sid ss) = live_sids sp)) (base + 29) [Z.of_nat (length ss)] ++
             okv i (bool_decide (NoDup (map d_sid ss))) (base + 30) [] ++
             okv i (bool_decide (g = Z.of_nat (length (live_sids sp)))) (base + 31) [g]
           else [])
      | _ => [] end) (ev_outs e)
  | _ => []
  end.

(* a harness-reported anomaly anywhere is a violation of the property whose observation it spoils *)
Definition bad_msgs (i : nat) (base : Z) (e : event) : list violation :=
  flat_map (λ d : delivery, match snd d with MBad c a => [viol i (base + 99) [c; a]] | _ => [] end) (ev_outs e).

(* ================= C02: each accepted change relayed exactly once ================= *)
Definition is_relay (untargeted : bool) (m : msg) : bool :=
  match m with
  | MJoinB _ _ | MLeaveB _ | MEntityAddB _ _ | MEntityDeleteB _ _ | MPoseB _ _ _ | MActionB _ _ | MAssetAddB _ _ => true
  | MCustomB _ _ _ => untargeted
  | _ => false
  end.
Definition untargeted_req (e : event) : bool :=
  match ev_req e with Some (RCustom (_ :: _) _ _) => false | _ => true end.

Definition request_expected (cfg : config) (sp sp' : spec) (c sid p : N) (r : req) (outs : list delivery) : list delivery :=
  let rest := sp_others sp sid p in
  match r with
  | REntityAdd rid _ _ _ ots =>
      match first_to c outs (λ m, match m with MEntityAddResp r' e => if r' =? rid then Some e else None | _ => None end) with
      | Some eid => match sp_ents sp' !! (sid, eid) with
                    | Some (ent, _) => if flag_on cfg F_ENTITY_ADD_B then [] else to_all rest (MEntityAddB ots ent)
                    | None => [] end
      | None => []
      end
  | REntityDelete rid eid ots =>
      if has_msg c outs (λ m, match m with MEntityDeleteResp r' => r' =? rid | _ => false end)
      then (if flag_on cfg F_ENTITY_DELETE_B then [] else to_all rest (MEntityDeleteB ots eid)) else []
  | RPose eid po ots =>
      match pose_accepted sp sid p eid po, po with
      | Some _, Some ps => if flag_on cfg F_POSE_B then [] else to_all rest (MPoseB ots eid ps)
      | _, _ => []
      end
  | RCustom [] body ots =>
      (* whether the size limit refuses it is C14's subject: here, accepted = not answered TOO_LARGE *)
      if has_error c E_TOO_LARGE outs || flag_on cfg F_CUSTOM_B then [] else to_all rest (MCustomB ots p body)
  | RAction rid (Some a) ots =>
      if has_msg c outs (λ m, match m with MActionResp r' => r' =? rid | _ => false end)
      then to_all rest (MActionB ots a) else []
  | RAssetAdd rid eid _ ots =>
      match first_to c outs (λ m, match m with MAssetAddResp r' x => if r' =? rid then Some x else None | _ => None end),
            sp_assets sp' !! (sid, eid) with
      | Some _, Some a => to_all rest (MAssetAddB ots a)
      | _, _ => []
      end
  | _ => []
  end.

Definition relay_expected (cfg : config) (sp sp' : spec) (e : event) : list delivery :=
  (match departure sp sp' e with Some (_, sid, p) => departure_expected cfg sp sid p | None => [] end) ++
  match stepped e with
  | Some (c, RJoin rid s ots) =>
      match join_resp c (ev_outs e) with
      | Some (_, sid, _, pid) => if flag_on cfg F_JOIN_B then [] else to_all (sp_others sp' sid pid) (MJoinB ots pid)
      | None => []
      end
  | Some (c, r) =>
      match sp_mem sp !! c with
      | Some (sid, p) => request_expected cfg sp sp' c sid p r (ev_outs e)
      | None => []
      end
  | None => []
  end.

Definition P_C02_event (cfg : config) (i : nat) (sp sp' : spec) (e : event) : list violation :=
  let got := sel (is_relay (untargeted_req e)) (ev_outs e) in
  let want := relay_expected cfg sp sp' e in
  okv i (same_lines got want) 201
      [Z.of_nat (length got); Z.of_nat (length want); match actor e with Some c => zn c | None => (-1)%Z end] ++
  bad_msgs i 200 e.
Definition P_C02 : pred := λ cfg t, sscan (P_C02_event cfg) 0 spec0 t.
Definition pi_C02 : proj := proj_by (λ _, true) (λ m, is_relay true m || match m with MJoinResp _ _ _ _ | MEntityAddResp _ _
  | MEntityDeleteResp _ | MActionResp _ | MAssetAddResp _ _ => true | _ => false end).

(* ================= C06: a departure removes exactly ... ================= *)
Definition is_leave_class (m : msg) : bool :=
  match m with MLeaveB _ | MEntityDeleteB 0 _ => true | _ => false end.
Definition P_C06_event (cfg : config) (i : nat) (sp sp' : spec) (e : event) : list violation :=
  let got := sel is_leave_class (ev_outs e) in
  match departure sp sp' e with
  | None => okv i (bool_decide (got = [])) 601 [Z.of_nat (length got)]
  | Some (c, sid, p) =>
      let rest := sp_others sp sid p in
      let gone := if flag_on cfg F_ENTITY_DELETE_B then [] else sp_gone sp sid p in
      (* nobody but the remaining members is told *)
      okv i (forallb (λ d : delivery, existsb (λ pc : N*N, snd pc =? fst d) rest) got) 602 [zn c; zn sid; zn p] ++
      flat_map (λ pc : N * N,
        let mine := map snd (List.filter (λ d : delivery, fst d =? snd pc) got) in
        let dels := omap (λ m, match m with MEntityDeleteB 0 x => Some x | _ => None end) mine in
        let leaves := omap (λ m, match m with MLeaveB x => Some x | _ => None end) mine in
        okv i (bool_decide (sortN dels = gone)) 603 [zn (snd pc); zn p; Z.of_nat (length dels); Z.of_nat (length gone)] ++
        (if flag_on cfg F_LEAVE_B then okv i (bool_decide (leaves = [])) 604 [zn (snd pc); zn p]
         else okv i (bool_decide (leaves = [p])) 604 [zn (snd pc); zn p; Z.of_nat (length leaves)] ++
              okv i (match last mine with Some (MLeaveB _) => true | _ => false end) 605 [zn (snd pc); zn p]))
        rest
  end ++
  snap_check cfg {| k_parts := true; k_ents := true; k_comps := true; k_acts := true; k_assets := true;
                    k_types := false; k_subs := true; k_reg := false |} 600 i sp e ++
  (* persistent entities are handed to later joiners *)
  match stepped e with
  | Some (c, RJoin _ _ _) =>
      match join_resp c (ev_outs e) with
      | Some (_, sid, _, _) => join_snapshot_check cfg {| k_parts := true; k_ents := true; k_comps := true; k_acts := true;
                                 k_assets := true; k_types := false; k_subs := false; k_reg := false |} 600 i sp' c sid (ev_outs e)
      | None => []
      end
  | _ => []
  end ++ bad_msgs i 600 e.
Definition P_C06 : pred := λ cfg t, sscan (P_C06_event cfg) 0 spec0 t.
Definition snap_only (f : sdump → sdump) (m : msg) : msg :=
  match m with MSnap ss g q => MSnap (map f ss) 0 [] | _ => m end.
Definition map_outs (f : msg → msg) : proj :=
  λ e, {| ev_op := ev_op e; ev_req := ev_req e; ev_outs := map (λ d : delivery, (fst d, f (snd d))) (ev_outs e);
          ev_verdict := ev_verdict e |}.
Definition dump_state_only (d : sdump) : sdump :=
  {| d_sid := d_sid d; d_uuid := 0; d_parts := d_parts d; d_ents := d_ents d; d_types := []; d_comps := d_comps d;
     d_subs := d_subs d; d_actions := d_actions d; d_assets := d_assets d; d_frames := 0 |}.
Definition pi_C06 : proj :=
  λ e, map_outs (snap_only dump_state_only)
    (proj_by (λ _, true) (λ m, is_leave_class m || match m with MSnap _ _ _ | MJoinResp _ _ _ _ | MSessionState _ _ _
       | MVikjaState _ | MOdalState _ => true | _ => false end) e).

(* ================= C07: joinable exactly while it has members ================= *)
Definition P_C07_event (cfg : config) (i : nat) (sp sp' : spec) (e : event) : list violation :=
  snap_check cfg {| k_parts := true; k_ents := false; k_comps := false; k_acts := false; k_assets := false;
                    k_types := false; k_subs := false; k_reg := true |} 700 i sp e ++
  match stepped e with
  | Some (c, RJoin rid s ots) =>
      let spd := depart sp c in
      let jr := join_resp c (ev_outs e) in
      match s with
      | SId n =>
          if match sp_mem sp !! c with Some (cur, _) => cur =? n | None => false end then
            okv i (has_error c E_ALREADY_JOINED (ev_outs e) && negb (is_Some_b jr)) 701 [zn c; zn n]
          else if sp_live spd n then
            match jr with
            | Some (_, sid, uuid, pid) =>
                okv i ((sid =? n) && bool_decide (sp_uuid spd !! n = Some uuid)) 702 [zn c; zn n; zn sid; zn uuid] ++
                okv i (bool_decide (pid ∉ issued (sp_pids spd) uuid)) 703 [zn c; zn n; zn pid]
            | None => [viol i 704 [zn c; zn n]]
            end
          else
            okv i (has_error c E_NOT_FOUND (ev_outs e) && negb (is_Some_b jr)) 705 [zn c; zn n]
      | SJunk k => okv i (has_error c E_NOT_FOUND (ev_outs e) && negb (is_Some_b jr)) 706 [zn c; zn k]
      | SNew =>
          match jr with
          | Some (_, sid, uuid, pid) =>
              okv i (negb (sp_live spd sid)) 707 [zn c; zn sid] ++
              okv i (bool_decide (uuid ∉ sp_seen spd)) 708 [zn c; zn sid; zn uuid] ++
              (* starts empty *)
              (if flag_on cfg F_SESSION_STATE then [] else
               okv i (has_msg c (ev_outs e) (λ m, match m with MSessionState ps [] [] => bool_decide (ps = [pid]) | _ => false end))
                   709 [zn c; zn sid; zn pid])
          | None => [viol i 710 [zn c]]
          end
      end
  | _ => []
  end ++ bad_msgs i 700 e.
Definition P_C07 : pred := λ cfg t, sscan (P_C07_event cfg) 0 spec0 t.
Definition dump_registry_only (d : sdump) : sdump :=
  {| d_sid := d_sid d; d_uuid := d_uuid d; d_parts := d_parts d; d_ents := []; d_types := []; d_comps := [];
     d_subs := []; d_actions := []; d_assets := []; d_frames := 0 |}.
Definition is_join_req (e : event) : bool := match ev_req e with Some (RJoin _ _ _) => true | _ => false end.
Definition is_snap_ev (e : event) : bool := match ev_op e with OSnap => true | _ => false end.
Definition pi_C07 : proj :=
  λ e, map_outs (λ m, match m with
                      | MSnap ss g q => MSnap (map dump_registry_only ss) g []
                      | MSessionState ps es cs => MSessionState ps [] []
                      | _ => m end)
    (proj_by (λ e, is_join_req e || is_snap_ev e)
             (λ m, match m with MSnap _ _ _ | MJoinResp _ _ _ _ | MSessionState _ _ _ => true
                                | MError _ k => (k =? E_NOT_FOUND) || (k =? E_ALREADY_JOINED) | _ => false end) e).

(* ================= C10: ids never collide ================= *)
Definition type_name_of (sp : spec) (sid tid : N) : option N :=
  head (omap (λ tn : N * N, if fst tn =? tid then Some (snd tn) else None) (spec_types sp sid)).
Definition P_C10_event (cfg : config) (i : nat) (sp sp' : spec) (e : event) : list violation :=
  match stepped e with
  | Some (c, RJoin rid s ots) =>
      match join_resp c (ev_outs e) with
      | Some (_, sid, uuid, pid) =>
          let spd := depart sp c in
          okv i (bool_decide (pid ∉ issued (sp_pids spd) uuid)) 1001 [zn c; zn sid; zn pid] ++
          (* a live session keeps its incarnation; a session id is live at most once *)
          okv i (match sp_uuid spd !! sid with Some u => u =? uuid | None => bool_decide (uuid ∉ sp_seen spd) end)
              1002 [zn c; zn sid; zn uuid]
      | None => []
      end
  | Some (c, r) =>
      match sp_mem sp !! c with
      | None => []
      | Some (sid, p) =>
        let u := uuid_of sp sid in
        match r with
        | REntityAdd rid _ _ _ _ =>
            match first_to c (ev_outs e) (λ m, match m with MEntityAddResp _ x => Some x | _ => None end) with
            | Some eid => okv i (bool_decide (eid ∉ issued (sp_eids sp) u)) 1003 [zn c; zn sid; zn eid]
            | None => [] end
        | RAssetAdd rid _ _ _ =>
            match first_to c (ev_outs e) (λ m, match m with MAssetAddResp _ x => Some x | _ => None end) with
            | Some iid => okv i (bool_decide (iid ∉ issued (sp_iids sp) u)) 1004 [zn c; zn sid; zn iid]
            | None => [] end
        | RTypeAdd rid name =>
            match first_to c (ev_outs e) (λ m, match m with MTypeAddResp _ x => Some x | _ => None end) with
            | Some tid =>
                match sp_types sp !! (sid, name) with
                | Some t0 => okv i (t0 =? tid) 1005 [zn c; zn sid; zn name; zn tid; zn t0]
                | None => okv i (negb (memN tid (spec_tids sp sid)) && negb (tid =? 0)) 1006 [zn c; zn sid; zn name; zn tid]
                end
            | None => [] end
        | RGetName rid tid =>
            if tid =? 0 then [] else
            match first_to c (ev_outs e) (λ m, match m with MGetNameResp _ x => Some x | _ => None end), type_name_of sp sid tid with
            | Some n, Some n0 => okv i (n =? n0) 1007 [zn c; zn sid; zn tid; zn n; zn n0]
            | Some n, None => [viol i 1007 [zn c; zn sid; zn tid; zn n; (-1)%Z]]
            | None, Some n0 => [viol i 1008 [zn c; zn sid; zn tid; zn n0]]
            | None, None => okv i (has_error c E_NOT_FOUND (ev_outs e)) 1008 [zn c; zn sid; zn tid]
            end
        | RGetId rid name =>
            if name =? 0 then [] else
            match first_to c (ev_outs e) (λ m, match m with MGetIdResp _ x => Some x | _ => None end), sp_types sp !! (sid, name) with
            | Some t, Some t0 => okv i (t =? t0) 1009 [zn c; zn sid; zn name; zn t; zn t0]
            | Some t, None => [viol i 1009 [zn c; zn sid; zn name; zn t; (-1)%Z]]
            | None, Some t0 => [viol i 1010 [zn c; zn sid; zn name; zn t0]]
            | None, None => okv i (has_error c E_NOT_FOUND (ev_outs e)) 1010 [zn c; zn sid; zn name]
            end
        | _ => []
        end
      end
  | None => []
  end ++
  (* ids inside every SessionState handed out are pairwise distinct *)
  flat_map (λ d : delivery, match snd d with
    | MSessionState ps es cs => okv i (bool_decide (NoDup ps) && bool_decide (NoDup (map ep_id es))) 1011 [zn (fst d)]
    | MOdalState a => okv i (bool_decide (NoDup (map as_id a))) 1012 [zn (fst d)]
    | _ => [] end) (ev_outs e) ++
  snap_check cfg {| k_parts := false; k_ents := false; k_comps := false; k_acts := false; k_assets := false;
                    k_types := true; k_subs := false; k_reg := true |} 1000 i sp e ++ bad_msgs i 1000 e.
Definition P_C10 : pred := λ cfg t, sscan (P_C10_event cfg) 0 spec0 t.
Definition dump_ids_only (d : sdump) : sdump :=
  {| d_sid := d_sid d; d_uuid := d_uuid d; d_parts := d_parts d; d_ents := []; d_types := d_types d; d_comps := [];
     d_subs := []; d_actions := []; d_assets := []; d_frames := 0 |}.
Definition pi_C10 : proj :=
  λ e, map_outs (λ m, match m with
                      | MSnap ss g q => MSnap (map dump_ids_only ss) g []
                      | MSessionState ps es cs => MSessionState ps (map (λ x, {| ep_id := ep_id x; ep_owner := 0; ep_pose := []; ep_flag := 0 |}) es) []
                      | MOdalState a => MOdalState (map (λ x, {| as_id := as_id x; as_asset := 0; as_pid := 0; as_eid := 0 |}) a)
                      | _ => m end)
    (proj_by (λ _, true)
             (λ m, match m with MSnap _ _ _ | MJoinResp _ _ _ _ | MSessionState _ _ _ | MOdalState _ | MEntityAddResp _ _
                                | MAssetAddResp _ _ | MTypeAddResp _ _ | MGetNameResp _ _ | MGetIdResp _ _ => true
                                | MError _ k => k =? E_NOT_FOUND | _ => false end) e).

(* ================= C05: only the creator ... ================= *)
Definition P_C05_event (cfg : config) (i : nat) (sp sp' : spec) (e : event) : list violation :=
  match stepped e with
  | Some (c, r) =>
    match sp_mem sp !! c with
    | None => []
    | Some (sid, p) =>
      let outs := ev_outs e in
      match r with
      | REntityDelete rid eid ots =>
          match sp_ents sp !! (sid, eid) with
          | None => okv i (same_lines outs [(c, MError rid E_NOT_FOUND)]) 501 [zn c; zn eid]
          | Some (ent, _) =>
              if ep_owner ent =? p
              then okv i (has_msg c outs (λ m, match m with MEntityDeleteResp r' => r' =? rid | _ => false end)) 502 [zn c; zn eid]
              else okv i (same_lines outs [(c, MError rid E_UNAUTHORIZED)]) 503 [zn c; zn eid; zn p; zn (ep_owner ent)]
          end
      | RPose eid po ots =>
          match pose_accepted sp sid p eid po with
          | Some _ => []
          | None => okv i (bool_decide (outs = [])) 504 [zn c; zn eid; zn p]
          end
      | RAssetAdd rid eid aid ots =>
          if negb (cfg_odal cfg) then [] else
          if aid =? 0 then [] else
          match sp_ents sp !! (sid, eid) with
          | None => okv i (same_lines outs [(c, MError rid E_NOT_FOUND)]) 505 [zn c; zn eid]
          | Some (ent, _) =>
              if ep_owner ent =? p
              then okv i (has_msg c outs (λ m, match m with MAssetAddResp r' _ => r' =? rid | _ => false end)) 506 [zn c; zn eid]
              else okv i (same_lines outs [(c, MError rid E_UNAUTHORIZED)]) 507 [zn c; zn eid; zn p; zn (ep_owner ent)]
          end
      | RJoin rid s ots =>
          (* ownership can never be acquired later: the participant id handed out is new in this incarnation,
             and the entities shown to the joiner keep their recorded owners *)
          match join_resp c outs with
          | Some (_, sid', uuid, pid) =>
              okv i (bool_decide (pid ∉ issued (sp_pids (depart sp c)) uuid)) 508 [zn c; zn sid'; zn pid] ++
              join_snapshot_check cfg {| k_parts := false; k_ents := true; k_comps := false; k_acts := false; k_assets := true;
                                         k_types := false; k_subs := false; k_reg := false |} 500 i sp' c sid' outs
          | None => []
          end
      | _ => []
      end
    end
  | None => []
  end ++
  match stepped e with
  | Some (c, RJoin rid s ots) =>
      match sp_mem sp !! c, join_resp c (ev_outs e) with
      | None, Some (_, sid', uuid, pid) =>
          okv i (bool_decide (pid ∉ issued (sp_pids sp) uuid)) 508 [zn c; zn sid'; zn pid] ++
          join_snapshot_check cfg {| k_parts := false; k_ents := true; k_comps := false; k_acts := false; k_assets := true;
                                     k_types := false; k_subs := false; k_reg := false |} 500 i sp' c sid' (ev_outs e)
      | _, _ => []
      end
  | _ => []
  end ++
  snap_check cfg {| k_parts := false; k_ents := true; k_comps := false; k_acts := false; k_assets := true;
                    k_types := false; k_subs := false; k_reg := false |} 500 i sp e ++ bad_msgs i 500 e.
Definition P_C05 : pred := λ cfg t, sscan (P_C05_event cfg) 0 spec0 t.
Definition is_owner_req (e : event) : bool :=
  match ev_req e with Some (REntityDelete _ _ _ | RPose _ _ _ | RAssetAdd _ _ _ _ | RJoin _ _ _ | REntityAdd _ _ _ _ _) => true | _ => false end.
Definition dump_ents_only (d : sdump) : sdump :=
  {| d_sid := d_sid d; d_uuid := 0; d_parts := []; d_ents := d_ents d; d_types := []; d_comps := [];
     d_subs := []; d_actions := []; d_assets := d_assets d; d_frames := 0 |}.
Definition pi_C05 : proj :=
  λ e, map_outs (λ m, match m with MSnap ss g q => MSnap (map dump_ents_only ss) 0 []
                                 | MSessionState ps es cs => MSessionState [] es [] | _ => m end)
    (proj_by (λ e, is_owner_req e || is_snap_ev e)
       (λ m, match m with MSnap _ _ _ | MJoinResp _ _ _ _ | MSessionState _ _ _ | MOdalState _ | MEntityAddResp _ _
                          | MEntityDeleteResp _ | MEntityDeleteB _ _ | MPoseB _ _ _ | MAssetAddResp _ _ | MAssetAddB _ _ => true
                          | MError _ k => (k =? E_NOT_FOUND) || (k =? E_UNAUTHORIZED) | _ => false end) e).

(* ================= C12: components behave as a map ================= *)
Definition outcome (c rid : N) (outs : list delivery) (succ : msg → bool) : Z :=
  (* 0 = success response, code = error code, -1 = neither *)
  if has_msg c outs succ then 0%Z
  else match first_to c outs (λ m, match m with MError r' k => if r' =? rid then Some k else None | _ => None end) with
       | Some k => zn k | None => (-1)%Z end.
Definition P_C12_event (cfg : config) (i : nat) (sp sp' : spec) (e : event) : list violation :=
  match stepped e with
  | Some (c, r) =>
    match sp_mem sp !! c with
    | None => []
    | Some (sid, p) =>
      let outs := ev_outs e in
      match r with
      | RCompAdd rid tid eid data ots =>
          let want := if (tid =? 0) || (eid =? 0) then zn E_BAD_REQUEST
                      else if negb (is_Some_b (sp_ents sp !! (sid, eid))) then zn E_NOT_FOUND
                      else if negb (memN tid (spec_tids sp sid)) then zn E_NOT_FOUND
                      else if is_Some_b (sp_comps sp !! (sid, tid, eid)) then zn E_CONFLICT else 0%Z in
          let got := outcome c rid outs (λ m, match m with MCompAddResp r' => r' =? rid | _ => false end) in
          okv i (bool_decide (got = want)) 1201 [zn c; zn tid; zn eid; got; want]
      | RCompDelete rid tid eid ots =>
          let want := if (tid =? 0) || (eid =? 0) then zn E_BAD_REQUEST
                      else if negb (is_Some_b (sp_ents sp !! (sid, eid))) then zn E_NOT_FOUND
                      else if negb (is_Some_b (sp_comps sp !! (sid, tid, eid))) then zn E_NOT_FOUND else 0%Z in
          let got := outcome c rid outs (λ m, match m with MCompDeleteResp r' => r' =? rid | _ => false end) in
          okv i (bool_decide (got = want)) 1202 [zn c; zn tid; zn eid; got; want]
      | RCompUpdate tid eid data ots =>
          if comp_update_accepted sp sid tid eid then [] else okv i (bool_decide (outs = [])) 1203 [zn c; zn tid; zn eid]
      | RCompList rid tid =>
          if tid =? 0 then [] else
          match first_to c outs (λ m, match m with MCompListResp r' cs => if r' =? rid then Some cs else None | _ => None end) with
          | Some cs => okv i (bool_decide (sort_by eComp cs = List.filter (λ x, cp_tid x =? tid) (spec_comps sp sid)))
                           1204 [zn c; zn tid; Z.of_nat (length cs)]
          | None => [viol i 1205 [zn c; zn tid]]
          end
      | RTypeAdd rid name =>
          match first_to c outs (λ m, match m with MTypeAddResp _ x => Some x | _ => None end), sp_types sp !! (sid, name) with
          | Some tid, Some t0 => okv i (t0 =? tid) 1206 [zn c; zn name; zn tid; zn t0]
          | _, _ => []
          end
      | RGetName rid tid =>
          if tid =? 0 then [] else
          match first_to c outs (λ m, match m with MGetNameResp _ x => Some x | _ => None end) with
          | Some n => okv i (bool_decide (sp_types sp !! (sid, n) = Some tid)) 1207 [zn c; zn tid; zn n]
          | None => okv i (negb (memN tid (spec_tids sp sid))) 1207 [zn c; zn tid]
          end
      | RGetId rid name =>
          if name =? 0 then [] else
          match first_to c outs (λ m, match m with MGetIdResp _ x => Some x | _ => None end) with
          | Some t => okv i (bool_decide (sp_types sp !! (sid, name) = Some t)) 1208 [zn c; zn name; zn t]
          | None => okv i (negb (is_Some_b (sp_types sp !! (sid, name)))) 1208 [zn c; zn name]
          end
      | _ => []
      end
    end
  | None => []
  end ++
  match stepped e with
  | Some (c, RJoin _ _ _) =>
      match join_resp c (ev_outs e) with
      | Some (_, sid, _, _) => join_snapshot_check cfg {| k_parts := false; k_ents := false; k_comps := true; k_acts := false;
                                 k_assets := false; k_types := false; k_subs := false; k_reg := false |} 1200 i sp' c sid (ev_outs e)
      | None => [] end
  | _ => []
  end ++
  snap_check cfg {| k_parts := false; k_ents := false; k_comps := true; k_acts := false; k_assets := false;
                    k_types := true; k_subs := false; k_reg := false |} 1200 i sp e ++ bad_msgs i 1200 e.
Definition P_C12 : pred := λ cfg t, sscan (P_C12_event cfg) 0 spec0 t.
Definition dump_comps_only (d : sdump) : sdump :=
  {| d_sid := d_sid d; d_uuid := 0; d_parts := []; d_ents := []; d_types := d_types d; d_comps := d_comps d;
     d_subs := []; d_actions := []; d_assets := []; d_frames := 0 |}.
Definition is_comp_msg (m : msg) : bool :=
  match m with MCompAddResp _ | MCompDeleteResp _ | MCompListResp _ _ | MTypeAddResp _ _ | MGetNameResp _ _ | MGetIdResp _ _
             | MCompUpdateB _ _ | MEntityAddResp _ _ | MEntityDeleteResp _ | MJoinResp _ _ _ _ | MSnap _ _ _ | MSessionState _ _ _ => true
             | MError _ k => (k =? E_NOT_FOUND) || (k =? E_CONFLICT) || (k =? E_BAD_REQUEST) | _ => false end.
Definition pi_C12 : proj :=
  λ e, map_outs (λ m, match m with MSnap ss g q => MSnap (map dump_comps_only ss) 0 []
                                 | MSessionState ps es cs => MSessionState [] [] cs | _ => m end)
    (proj_by (λ e, is_snap_ev e || match ev_req e with
        | Some (RCompAdd _ _ _ _ _ | RCompDelete _ _ _ _ | RCompUpdate _ _ _ _ | RCompList _ _ | RTypeAdd _ _ | RGetName _ _
               | RGetId _ _ | REntityAdd _ _ _ _ _ | REntityDelete _ _ _ | RJoin _ _ _) => true | _ => false end) is_comp_msg e).

(* ================= C13: notifications follow subscriptions ================= *)
Definition is_notif (m : msg) : bool :=
  match m with MCompAddB _ _ | MCompDeleteB _ _ _ | MCompUpdateB _ _ => true | _ => false end.
Definition count_to (cq : N) (l : list delivery) : nat := length (List.filter (λ d : delivery, fst d =? cq) l).
Definition P_C13_event (cfg : config) (i : nat) (sp sp' : spec) (e : event) : list violation :=
  let notifs := sel is_notif (ev_outs e) in
  match stepped e with
  | Some (c, r) =>
    match sp_mem sp !! c with
    | None => okv i (bool_decide (notifs = [])) 1301 [zn c]
    | Some (sid, p) =>
      let outs := ev_outs e in
      let check (tid : N) (accepted suppressed updates_only : bool) (is_mine : msg → bool) : list violation :=
        let mine := sel is_mine outs in
        let S := subs_at sp sid tid in
        okv i (bool_decide (length mine = length notifs)) 1302 [zn c; zn tid] ++
        if negb accepted || suppressed then okv i (bool_decide (mine = [])) 1303 [zn c; zn tid]
        else
          okv i (count_to c mine =? 0)%nat 1304 [zn c; zn tid] ++
          (if decide (S = ∅) then okv i (bool_decide (mine = [])) 1305 [zn c; zn tid] else []) ++
          flat_map (λ pc : N * N,
            if bool_decide (fst pc ∈ S) then okv i (count_to (snd pc) mine =? 1)%nat 1306 [zn c; zn tid; zn (fst pc)]
            else if updates_only then okv i (count_to (snd pc) mine =? 0)%nat 1307 [zn c; zn tid; zn (fst pc)]
            else okv i (count_to (snd pc) mine <=? 1)%nat 1308 [zn c; zn tid; zn (fst pc)]) (sp_others sp sid p) ++
          okv i (forallb (λ d : delivery, existsb (λ pc : N*N, snd pc =? fst d) (sp_others sp sid p)) mine) 1309 [zn c; zn tid] in
      match r with
      | RCompAdd rid tid eid data ots =>
          check tid (has_msg c outs (λ m, match m with MCompAddResp r' => r' =? rid | _ => false end)) (flag_on cfg F_COMP_ADD_B) false
                (λ m, match m with MCompAddB o x => (o =? ots) && (cp_tid x =? tid) && (cp_eid x =? eid) && (cp_data x =? data) | _ => false end)
      | RCompDelete rid tid eid ots =>
          check tid (has_msg c outs (λ m, match m with MCompDeleteResp r' => r' =? rid | _ => false end)) (flag_on cfg F_COMP_DELETE_B) false
                (λ m, match m with MCompDeleteB o t x => (o =? ots) && (t =? tid) && (x =? eid) | _ => false end)
      | RCompUpdate tid eid data ots =>
          check tid (comp_update_accepted sp sid tid eid) (flag_on cfg F_COMP_UPDATE_B) true
                (λ m, match m with MCompUpdateB o x => (o =? ots) && (cp_tid x =? tid) && (cp_eid x =? eid) && (cp_data x =? data) | _ => false end)
      | RSubscribe rid tid =>
          okv i (bool_decide (notifs = [])) 1301 [zn c] ++
          if (tid =? 0) || memN tid (spec_tids sp sid) then []
          else okv i (has_error c E_NOT_FOUND outs && negb (has_msg c outs (λ m, match m with MSubResp _ => true | _ => false end)))
                   1310 [zn c; zn tid]
      | _ => okv i (bool_decide (notifs = [])) 1301 [zn c]
      end
    end
  | None => okv i (bool_decide (notifs = [])) 1301 []
  end ++
  snap_check cfg {| k_parts := false; k_ents := false; k_comps := false; k_acts := false; k_assets := false;
                    k_types := false; k_subs := true; k_reg := false |} 1300 i sp e ++ bad_msgs i 1300 e.
Definition P_C13 : pred := λ cfg t, sscan (P_C13_event cfg) 0 spec0 t.
Definition dump_subs_only (d : sdump) : sdump :=
  {| d_sid := d_sid d; d_uuid := 0; d_parts := []; d_ents := []; d_types := []; d_comps := [];
     d_subs := d_subs d; d_actions := []; d_assets := []; d_frames := 0 |}.
(* only the property's own clauses: update notifications entirely; add / delete notifications only at
   subscribers and at the sender (what non-subscribers get is neither required nor forbidden) *)
Definition pi_C13 : proj :=
  λ e, map_outs (λ m, match m with MSnap ss g q => MSnap (map dump_subs_only ss) 0 [] | _ => m end)
    (proj_by (λ _, true) (λ m, match m with MCompUpdateB _ _ | MSubResp _ | MUnsubResp _ | MSnap _ _ _ | MJoinResp _ _ _ _
                                           | MCompAddResp _ | MCompDeleteResp _ => true | _ => false end) e).

(* ================= C16: actions keep the latest timestamp; one asset per entity ================= *)
Definition P_C16_event (cfg : config) (i : nat) (sp sp' : spec) (e : event) : list violation :=
  match stepped e with
  | Some (c, r) =>
    match sp_mem sp !! c with
    | None => []
    | Some (sid, p) =>
      let outs := ev_outs e in
      match r with
      | RAction rid ao ots =>
          if negb (cfg_vikja cfg) then okv i (bool_decide (outs = [])) 1601 [zn c] else
          let got := outcome c rid outs (λ m, match m with MActionResp r' => r' =? rid | _ => false end) in
          let want := match ao with
                      | None => zn E_BAD_REQUEST
                      | Some a =>
                          if (a_name a =? 0) || negb (is_Some_b (a_ts a)) then zn E_BAD_REQUEST
                          else if negb (is_Some_b (sp_ents sp !! (sid, a_eid a))) then zn E_BAD_REQUEST
                          else match sp_acts sp !! (sid, a_eid a, a_name a) with
                               | Some old => if ts_before (a_ts a) (a_ts old) then zn E_BAD_REQUEST else 0%Z
                               | None => 0%Z end
                      end in
          okv i (bool_decide (got = want)) 1602 [zn c; got; want] ++
          (* accepted => relayed to every other member, refused => to nobody *)
          let rel := sel (λ m, match m with MActionB _ _ => true | _ => false end) outs in
          match ao with
          | Some a => okv i (same_lines rel (if bool_decide (got = 0%Z) then to_all (sp_others sp sid p) (MActionB ots a) else []))
                          1603 [zn c; got]
          | None => okv i (bool_decide (rel = [])) 1603 [zn c; got]
          end
      | RAssetAdd rid eid aid ots =>
          if negb (cfg_odal cfg) then okv i (bool_decide (outs = [])) 1604 [zn c] else
          let got := match first_to c outs (λ m, match m with MAssetAddResp r' x => if r' =? rid then Some x else None | _ => None end) with
                     | Some _ => 0%Z
                     | None => outcome c rid outs (λ _, false) end in
          let want := if aid =? 0 then zn E_BAD_REQUEST
                      else match sp_ents sp !! (sid, eid) with
                           | None => zn E_NOT_FOUND
                           | Some (ent, _) => if ep_owner ent =? p then 0%Z else zn E_UNAUTHORIZED end in
          okv i (bool_decide (got = want)) 1605 [zn c; zn eid; got; want] ++
          match first_to c outs (λ m, match m with MAssetAddResp r' x => if r' =? rid then Some x else None | _ => None end) with
          | Some iid => okv i (bool_decide (iid ∉ issued (sp_iids sp) (uuid_of sp sid))) 1606 [zn c; zn eid; zn iid]
          | None => []
          end
      | _ => []
      end
    end
  | None => []
  end ++
  match stepped e with
  | Some (c, RJoin _ _ _) =>
      match join_resp c (ev_outs e) with
      | Some (_, sid, _, _) => join_snapshot_check cfg {| k_parts := false; k_ents := false; k_comps := false; k_acts := true;
                                 k_assets := true; k_types := false; k_subs := false; k_reg := false |} 1600 i sp' c sid (ev_outs e)
      | None => [] end
  | _ => []
  end ++
  snap_check cfg {| k_parts := false; k_ents := false; k_comps := false; k_acts := true; k_assets := true;
                    k_types := false; k_subs := false; k_reg := false |} 1600 i sp e ++ bad_msgs i 1600 e.
Definition P_C16 : pred := λ cfg t, sscan (P_C16_event cfg) 0 spec0 t.
Definition dump_mods_only (d : sdump) : sdump :=
  {| d_sid := d_sid d; d_uuid := 0; d_parts := []; d_ents := []; d_types := []; d_comps := [];
     d_subs := []; d_actions := d_actions d; d_assets := d_assets d; d_frames := 0 |}.
Definition pi_C16 : proj :=
  λ e, map_outs (λ m, match m with MSnap ss g q => MSnap (map dump_mods_only ss) 0 [] | _ => m end)
    (proj_by (λ e, is_snap_ev e || match ev_req e with
        | Some (RAction _ _ _ | RAssetAdd _ _ _ _ | REntityAdd _ _ _ _ _ | REntityDelete _ _ _ | RJoin _ _ _) => true | _ => false end)
       (λ m, match m with MSnap _ _ _ | MJoinResp _ _ _ _ | MVikjaState _ | MOdalState _ | MActionResp _ | MActionB _ _
                          | MAssetAddResp _ _ | MAssetAddB _ _ | MEntityAddResp _ _ | MEntityDeleteResp _ => true
                          | MError _ k => (k =? E_NOT_FOUND) || (k =? E_UNAUTHORIZED) || (k =? E_BAD_REQUEST) | _ => false end) e).

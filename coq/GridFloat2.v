(* GridFloat2.v — bit-exact executable models of three more functions of
   /repo/modules/dagaz/math.go over Flocq's IEEE-754 binary32 / binary64:

     calculateNormal            -> normal32     (float64 arithmetic, result rounded to float32)
     doHorizontalPlanesOverlap  -> overlap32    (float32)
     IntersectQuad              -> intersect32  (float32; InRangeWithEpsilon -> in_range32)

   Executable definitions only (same conventions as GridFloat.v: every Go operator on a typed
   float is the IEEE-754 operation rounded to nearest, ties to even; no fused multiply-add; all
   NaNs are identified).  Proofs: proofs/GridFloat2Proofs.v; statements: Properties/C20float2.v.

   Conventions specific to this file
   * float64(x) for a float32 x is exact ([f64_of_f32]); float32(x) for a float64 x rounds to
     nearest even, overflowing to an infinity ([f32_of_f64]).  Flocq 4.1 has no conversion between
     formats: both are [binary_normalize] on the (signed mantissa, exponent) of the finite
     argument, and the identity on zeros / infinities.  A NaN becomes the default quiet NaN of the
     target format (payloads are not modelled).
   * Go comparisons: `a >= b`, `a <= b` are false when an operand is a NaN; `a != b` is true. *)
From Coq Require Import ZArith QArith Bool.
From Flocq Require Import Core IEEE754.BinarySingleNaN IEEE754.Binary IEEE754.Bits.
From hagall Require Import GridFloat.

(* ------------------------------------------------------------------ formats *)
Definition P24 : Prec_gt_0 24 := eq_refl.
Definition PE128 : Prec_lt_emax 24 128 := eq_refl.
Definition P53 : Prec_gt_0 53 := eq_refl.
Definition PE1024 : Prec_lt_emax 53 1024 := eq_refl.

Definition nan32 : binary32 := proj1_sig default_nan_pl32.
Definition nan64 : binary64 := proj1_sig default_nan_pl64.

(* float64(x), x float32 *)
Definition f64_of_f32 (x : binary32) : binary64 :=
  match x with
  | B754_zero _ _ s => B754_zero 53 1024 s
  | B754_infinity _ _ s => B754_infinity 53 1024 s
  | B754_nan _ _ _ _ _ => nan64
  | B754_finite _ _ s m e _ => binary_normalize 53 1024 P53 PE1024 mode_NE (cond_Zopp s (Zpos m)) e s
  end.

(* float32(x), x float64 *)
Definition f32_of_f64 (x : binary64) : binary32 :=
  match x with
  | B754_zero _ _ s => B754_zero 24 128 s
  | B754_infinity _ _ s => B754_infinity 24 128 s
  | B754_nan _ _ _ _ _ => nan32
  | B754_finite _ _ s m e _ => binary_normalize 24 128 P24 PE128 mode_NE (cond_Zopp s (Zpos m)) e s
  end.

(* ------------------------------------------------------------------ float64 scalars *)
Definition dadd : binary64 -> binary64 -> binary64 := b64_plus mode_NE.
Definition dmul : binary64 -> binary64 -> binary64 := b64_mult mode_NE.
Definition ddiv : binary64 -> binary64 -> binary64 := b64_div mode_NE.
Definition dsqrt : binary64 -> binary64 := b64_sqrt mode_NE.      (* math.Sqrt: correctly rounded *)
Definition dneg : binary64 -> binary64 := b64_opp.
Definition zero64 : binary64 := B754_zero 53 1024 false.
(* x != y *)
Definition dne (x y : binary64) : bool :=
  match b64_compare x y with Some Eq => false | _ => true end.

(* ------------------------------------------------------------------ calculateNormal
   func calculateNormal(c Vector3f, e Vector3f) Vector3f {
     ex, ey, ez := float64(e.x), float64(e.y), float64(e.z)
     nx, ny, nz := -ez*ey, ez*ex, -ey*ex
     if length := math.Sqrt(nx*nx + ny*ny + nz*nz); length != 0 {
       nx, ny, nz = nx/length, ny/length, nz/length
     }
     return Vector3f{float32(nx), float32(ny), float32(nz)} }
   (the center c is not used by the repaired function) *)
Definition normal64 (e : vec32) : binary64 * binary64 * binary64 :=
  let ex := f64_of_f32 (fx e) in
  let ey := f64_of_f32 (fy e) in
  let ez := f64_of_f32 (fz e) in
  (dmul (dneg ez) ey, dmul ez ex, dmul (dneg ey) ex).

Definition length64 (nx ny nz : binary64) : binary64 :=
  dsqrt (dadd (dadd (dmul nx nx) (dmul ny ny)) (dmul nz nz)).

Definition normal32 (c e : vec32) : vec32 :=
  let '(nx, ny, nz) := normal64 e in
  let len := length64 nx ny nz in
  if dne len zero64
  then mkVec32 (f32_of_f64 (ddiv nx len)) (f32_of_f64 (ddiv ny len)) (f32_of_f64 (ddiv nz len))
  else mkVec32 (f32_of_f64 nx) (f32_of_f64 ny) (f32_of_f64 nz).

(* ------------------------------------------------------------------ float32 comparisons *)
Definition fge (x y : binary32) : bool :=
  match b32_compare x y with Some Gt | Some Eq => true | _ => false end.
Definition fle (x y : binary32) : bool :=
  match b32_compare x y with Some Lt | Some Eq => true | _ => false end.
Definition fne (x y : binary32) : bool :=
  match b32_compare x y with Some Eq => false | _ => true end.
Definition fdiv : binary32 -> binary32 -> binary32 := b32_div mode_NE.

(* ------------------------------------------------------------------ Quad, Ray *)
Record quad32 := mkQuad32 { q32c : vec32; q32e : vec32; q32n : vec32 }.   (* Center, Extents, Normal *)
Record ray32 := mkRay32 { r32from : vec32; r32to : vec32 }.

(* NewQuadFromProtobuf *)
Definition new_quad32 (c e : vec32) : quad32 := mkQuad32 c e (normal32 c e).

(* ------------------------------------------------------------------ doHorizontalPlanesOverlap
     minA := Sub(a.Center, a.Extents); maxA := Add(a.Center, a.Extents)
     minB := Sub(b.Center, b.Extents); maxB := Add(b.Center, b.Extents)
     if minA.x >= maxB.x { return false }
     if maxA.x <= minB.x { return false }
     if minA.z >= maxB.z { return false }
     if maxA.z <= minB.z { return false }
     return true *)
Definition overlap32 (a b : quad32) : bool :=
  let minA := sub32 (q32c a) (q32e a) in
  let maxA := add32 (q32c a) (q32e a) in
  let minB := sub32 (q32c b) (q32e b) in
  let maxB := add32 (q32c b) (q32e b) in
  if fge (fx minA) (fx maxB) then false
  else if fle (fx maxA) (fx minB) then false
  else if fge (fz minA) (fz maxB) then false
  else if fle (fz maxA) (fz minB) then false
  else true.

(* ------------------------------------------------------------------ InRangeWithEpsilon
     return value+epsilon >= min && value-epsilon <= max *)
Definition in_range32 (value lo hi eps : binary32) : bool :=
  fge (fadd value eps) lo && fle (fsub value eps) hi.

(* the constants of IntersectQuad as float32 *)
Definition eps32 : binary32 := f32_of_bits 953267991.        (* float32(0.0001) = 0x38D1B717 *)
Definition zero32 : binary32 := B754_zero 24 128 false.
Definition one32 : binary32 := f32_of_bits 1065353216.       (* 1.0  = 0x3F800000 *)
Definition mone32 : binary32 := f32_of_bits 3212836864.      (* -1.0 = 0xBF800000 *)

(* ------------------------------------------------------------------ IntersectQuad
     rayDir := Sub(r.To, r.From)
     denominator := q.Normal.Dot(rayDir)
     if denominator != 0 {
       t := (q.Normal.Dot(q.Center) - q.Normal.Dot(r.From)) / denominator
       if t >= 0 && t <= 1 {
         hitPoint := Add(r.From, Mul(rayDir, t))
         minPoint := Sub(q.Center, q.Extents); maxPoint := Add(q.Center, q.Extents)
         if InRangeWithEpsilon(hitPoint.x, minPoint.x, maxPoint.x, 0.0001) && ... y ... && ... z ... {
           return true, t } } }
     return false, -1 *)
Definition intersect32 (r : ray32) (q : quad32) : bool * binary32 :=
  let dir := sub32 (r32to r) (r32from r) in
  let den := dot32 (q32n q) dir in
  if fne den zero32 then
    let t := fdiv (fsub (dot32 (q32n q) (q32c q)) (dot32 (q32n q) (r32from r))) den in
    if fge t zero32 && fle t one32 then
      let hp := add32 (r32from r) (mul32 dir t) in
      let mn := sub32 (q32c q) (q32e q) in
      let mx := add32 (q32c q) (q32e q) in
      if in_range32 (fx hp) (fx mn) (fx mx) eps32
         && in_range32 (fy hp) (fy mn) (fy mx) eps32
         && in_range32 (fz hp) (fz mn) (fz mx) eps32
      then (true, t) else (false, mone32)
    else (false, mone32)
  else (false, mone32).

(* ------------------------------------------------------------------ entry points on bit patterns
   (math.Float32bits of every float32 involved, as integers in [0, 2^32)) *)
Definition normal_bits (cx cy cz ex ey ez : Z) : Z * Z * Z :=
  bits_of_vec32 (normal32 (vec32_of_bits cx cy cz) (vec32_of_bits ex ey ez)).
Definition normal_agrees (cx cy cz ex ey ez rx ry rz : Z) : bool :=
  let n := normal32 (vec32_of_bits cx cy cz) (vec32_of_bits ex ey ez) in
  same_bits (fx n) rx && same_bits (fy n) ry && same_bits (fz n) rz.

(* a quad from the bit patterns of its center, extents and normal (9 integers) *)
Definition quad32_of_bits (cx cy cz ex ey ez nx ny nz : Z) : quad32 :=
  mkQuad32 (vec32_of_bits cx cy cz) (vec32_of_bits ex ey ez) (vec32_of_bits nx ny nz).
Definition ray32_of_bits (fx_ fy_ fz_ tx ty tz : Z) : ray32 :=
  mkRay32 (vec32_of_bits fx_ fy_ fz_) (vec32_of_bits tx ty tz).

(* the overlap decision of two quads given by center and extents (the normal is not used) *)
Definition overlap_bits (acx acy acz aex aey aez bcx bcy bcz bex bey bez : Z) : bool :=
  overlap32 (quad32_of_bits acx acy acz aex aey aez 0 0 0) (quad32_of_bits bcx bcy bcz bex bey bez 0 0 0).

(* IntersectQuad on bit patterns: (hit, bits of t) *)
Definition intersect_bits (r : ray32) (q : quad32) : bool * Z :=
  let '(h, t) := intersect32 r q in (h, bits_of_f32 t).
Definition intersect_agrees (r : ray32) (q : quad32) (hit : bool) (tbits : Z) : bool :=
  let '(h, t) := intersect32 r q in Bool.eqb h hit && same_bits t tbits.

(* ------------------------------------------------------------------ executable preconditions
   (the hypotheses of the theorems of Properties/C20float2.v as boolean tests on the inputs, so
   that a harness can select the inputs on which the conclusions must hold of the Go code) *)
Definition is_zero32 (x : binary32) : bool :=
  match x with B754_zero _ _ _ => true | _ => false end.                      (* +0 or -0 *)
Definition pos32 (x : binary32) : bool :=                                      (* finite and > 0 *)
  is_finite32 x && negb (Bsign 24 128 x) && negb (is_zero32 x).
Definition c64 : binary32 := f32_of_bits 1115684864.                           (* 64.0 = 0x42800000 *)
Definition abs_le64 (x : binary32) : bool := fle x c64 && fge x (b32_opp c64). (* finite, |x| <= 64 *)
Definition vec_le64 (v : vec32) : bool := abs_le64 (fx v) && abs_le64 (fy v) && abs_le64 (fz v).

(* a horizontal quad of property C20: coordinates bounded by 64, e.y = +-0, e.x > 0, e.z > 0 *)
Definition horizontal_input (c e : vec32) : bool :=
  vec_le64 c && vec_le64 e && pos32 (fx e) && is_zero32 (fy e) && pos32 (fz e).

(* the vertical ray through the centre c: From = (cx, cy + 1, cz), To = (cx, cy - 1, cz), the
   ordinates computed in float32 *)
Definition vray (c : vec32) : ray32 :=
  mkRay32 (mkVec32 (fx c) (fadd (fy c) one32) (fz c)) (mkVec32 (fx c) (fsub (fy c) one32) (fz c)).

(* at least two non-zero components, all finite *)
Definition nonzero32 (x : binary32) : bool := is_finite32 x && negb (is_zero32 x).
Definition two_nonzero (e : vec32) : bool :=
  finite_vec32 e &&
  ((nonzero32 (fz e) && nonzero32 (fy e)) || (nonzero32 (fz e) && nonzero32 (fx e)) ||
   (nonzero32 (fy e) && nonzero32 (fx e))).

(* Grid.v — executable model of modules/dagaz (grid_spatial_partition.go, math.go) over exact
   rationals.  No proofs here (see proofs/GridProofs.v); the extracted code is the oracle of C20.

   Faithfulness conventions
   * float32 values are modelled by the exact rational they denote; the float32 constants of the Go
     code (MERGE_EPSILON, the blend factor 0.2, the in-range epsilon 0.0001) are the exact rationals
     of their float32 values (tied to the sources by GenGrid.v, see Properties/C20.v).
   * a plane is identified by its insertion index into [g_planes] (Go: pointer identity of the
     heap copy of the InsertQuad parameter).  A cell holds the list of indices in Go slice order.
   * RegularGrid.Min / Max are modelled as integers: the Go code only ever assigns them
     0 / float32(resolution) and adds or subtracts float32(count*resolution); Min.y = Max.y = 0.
   * (uint)(math.Floor(x)) is [Z.to_nat (Qfloor x)]; for x < 0 Go yields an implementation-defined
     huge value — outside the domain of the theorems (bounds invariant), modelled where it matters
     for the stepping path of IntersectQuad by [uint_of_Z].
   * the `for {}` merge loop of InsertQuad has no bound in Go; the model takes [merge_fuel]
     iterations and then behaves as if quadToMerge were nil (nothing appended).  All theorems hold
     for every value of the fuel.
   * normalisation needs a square root: [normalize] is exact for vectors along a coordinate axis
     (the normal of every horizontal quad) and leaves other vectors un-normalised. *)
From Coq Require Import ZArith QArith Qround Qabs Qminmax List Bool Lia.
Import ListNotations.
Open Scope Q_scope.

(* ------------------------------------------------------------------ constants *)
Definition merge_epsilon : Q := 5033165 # 8388608.          (* float32(0.6)    *)
Definition merge_blend   : Q := 13421773 # 67108864.        (* float32(0.2)    *)
Definition range_epsilon : Q := 13743895 # 137438953472.    (* float32(0.0001) *)
Definition ray_reach     : Q := 13421773 # 8388608.         (* MERGE_EPSILON + 1.0, exact in float32 *)
Definition module_resolution : Z := 2.                      (* NewRegularGrid(1, 1, 2) in Module.Init *)

Definition Qlt_bool (a b : Q) : bool := negb (Qle_bool b a).

(* ------------------------------------------------------------------ vectors (math.go) *)
Record vec := mkVec { vx : Q; vy : Q; vz : Q }.

Definition vadd (a b : vec) := mkVec (vx a + vx b) (vy a + vy b) (vz a + vz b).
Definition vsub (a b : vec) := mkVec (vx a - vx b) (vy a - vy b) (vz a - vz b).
Definition vmul (a : vec) (s : Q) := mkVec (vx a * s) (vy a * s) (vz a * s).
Definition vred (a : vec) := mkVec (Qred (vx a)) (Qred (vy a)) (Qred (vz a)).
Definition dot (a b : vec) : Q := vx a * vx b + vy a * vy b + vz a * vz b.
Definition cross (a b : vec) : vec :=
  mkVec (vy a * vz b - vz a * vy b) (vz a * vx b - vx a * vz b) (vx a * vy b - vy a * vx b).
Definition veq_bool (a b : vec) : bool :=
  Qeq_bool (vx a) (vx b) && Qeq_bool (vy a) (vy b) && Qeq_bool (vz a) (vz b).
Definition Qsgn (q : Q) : Q := inject_Z (Z.sgn (Qnum q)).
Definition isz (q : Q) : bool := Qeq_bool q 0.

(* NormalizeInPlace: exact along the axes; length 0 leaves the vector unchanged (Qsgn 0 = 0) *)
Definition normalize (v : vec) : vec :=
  if isz (vx v) && isz (vz v) then mkVec 0 (Qsgn (vy v)) 0
  else if isz (vy v) && isz (vz v) then mkVec (Qsgn (vx v)) 0 0
  else if isz (vx v) && isz (vy v) then mkVec 0 0 (Qsgn (vz v))
  else v.

(* calculateNormal *)
Definition calc_normal (c e : vec) : vec :=
  let pointA := vadd c (mkVec (vx e) (vy e) 0) in
  let pointB := vadd c (mkVec 0 (vy e) (vz e)) in
  let vectorA := vsub pointA c in
  let vectorB := vsub pointB c in
  normalize (cross vectorB vectorA).

Record quad := mkQuad { qc : vec; qe : vec; qn : vec; qmerges : N }.
Record ray := mkRay { rfrom : vec; rto : vec }.

(* NewQuadFromProtobuf *)
Definition new_quad (c e : vec) (mc : N) : quad := mkQuad c e (calc_normal c e) mc.

Definition qmin (q : quad) : vec := vsub (qc q) (qe q).
Definition qmax (q : quad) : vec := vadd (qc q) (qe q).

(* doHorizontalPlanesOverlap *)
Definition overlap (a b : quad) : bool :=
  let minA := qmin a in let maxA := qmax a in
  let minB := qmin b in let maxB := qmax b in
  if Qle_bool (vx maxB) (vx minA) then false
  else if Qle_bool (vx maxA) (vx minB) then false
  else if Qle_bool (vz maxB) (vz minA) then false
  else if Qle_bool (vz maxA) (vz minB) then false
  else true.

(* InRangeWithEpsilon *)
Definition in_range (value lo hi eps : Q) : bool :=
  Qle_bool lo (value + eps) && Qle_bool (value - eps) hi.

(* EqualWithEpsilon *)
Definition equal_eps (a b eps : Q) : bool := Qle_bool (Qabs (a - b)) eps.

(* IntersectQuad(r, q) of math.go: Some t on a hit (Go: true, t), None otherwise (Go: false, -1) *)
Definition ray_quad (r : ray) (q : quad) : option Q :=
  let dir := vsub (rto r) (rfrom r) in
  let den := dot (qn q) dir in
  if isz den then None
  else
    let t := (dot (qn q) (qc q) - dot (qn q) (rfrom r)) / den in
    if Qle_bool 0 t && Qle_bool t 1 then
      let hp := vadd (rfrom r) (vmul dir t) in
      let mn := qmin q in let mx := qmax q in
      if in_range (vx hp) (vx mn) (vx mx) range_epsilon
         && in_range (vy hp) (vy mn) (vy mx) range_epsilon
         && in_range (vz hp) (vz mn) (vz mx) range_epsilon
      then Some t else None
    else None.

(* ------------------------------------------------------------------ the grid *)
Definition cells_t := list (list (list nat)).

Record grid := mkGrid {
  g_res : Z;                       (* Resolution *)
  g_planecount : N;                (* PlaneCount *)
  g_mergecount : N;                (* MergeCount *)
  g_minx : Z; g_minz : Z;          (* Min.x, Min.z *)
  g_maxx : Z; g_maxz : Z;          (* Max.x, Max.z *)
  g_cells : cells_t;               (* Grid[row = z index][column = x index] *)
  g_planes : list quad             (* the heap: plane index -> current value *)
}.

Definition nrows (g : grid) : nat := length (g_cells g).
Definition ncols (g : grid) : nat := length (hd [] (g_cells g)).     (* len(grid.Grid[0]) *)

(* NewRegularGrid(numCols, numRows, resolution) *)
Definition new_grid (numCols numRows : nat) (res : Z) : grid :=
  let numCols := match numCols with O => 1%nat | _ => numCols end in
  let numRows := match numRows with O => 1%nat | _ => numRows end in
  let res := if (res <=? 0)%Z then 1%Z else res in
  mkGrid res 0 0 0 0 res res (repeat (repeat [] numCols) numRows) [].

Definition get_cell (cs : cells_t) (y x : nat) : list nat := nth x (nth y cs []) [].

Fixpoint upd_nth {A} (n : nat) (f : A -> A) (l : list A) : list A :=
  match l, n with
  | [], _ => []
  | a :: l', O => f a :: l'
  | a :: l', S n' => a :: upd_nth n' f l'
  end.

Definition upd_cell (cs : cells_t) (y x : nat) (f : list nat -> list nat) : cells_t :=
  upd_nth y (upd_nth x f) cs.

(* (v - Min) / Resolution, floored *)
Definition cell_coord (res mn : Z) (v : Q) : Z :=
  Qfloor ((v - inject_Z mn) / inject_Z res).
Definition cellx (g : grid) (v : Q) : Z := cell_coord (g_res g) (g_minx g) v.
Definition cellz (g : grid) (v : Q) : Z := cell_coord (g_res g) (g_minz g) v.

(* ExpandToFitPoint *)
Definition ceil_div (a b : Z) : Z := (- ((- a) / b))%Z.      (* math.Ceil(a / b), b > 0 *)

Definition expand (g : grid) (p : vec) : grid :=
  let px := vx p in let pz := vz p in
  let mnx := inject_Z (g_minx g) in let mxx := inject_Z (g_maxx g) in
  let mnz := inject_Z (g_minz g) in let mxz := inject_Z (g_maxz g) in
  let inx := Qle_bool mnx px && Qlt_bool px mxx in
  let inz := Qle_bool mnz pz && Qlt_bool pz mxz in
  if inx && inz then g
  else
    let xCount0 :=
      if inx then 0%Z
      else if Qlt_bool px mnx then Z.abs (Qfloor (px - mnx))
      else (Qfloor (Qabs (px - mxx)) + 1)%Z in
    let yCount0 :=
      if inz then 0%Z
      else if Qlt_bool pz mnz then Z.abs (Qfloor (pz - mnz))
      else (Qfloor (Qabs (pz - mxz)) + 1)%Z in
    let xCountZ := ceil_div xCount0 (g_res g) in
    let yCountZ := ceil_div yCount0 (g_res g) in
    let xCount := Z.to_nat xCountZ in
    let yCount := Z.to_nat yCountZ in
    let curRowCount := ncols g in
    let left := Qlt_bool px mnx in
    let up := Qlt_bool pz mnz in
    let cells1 :=
      if left then map (fun row => repeat [] xCount ++ row) (g_cells g)
      else map (fun row => row ++ repeat [] xCount) (g_cells g) in
    let newrow := repeat ([] : list nat) (xCount + curRowCount) in
    let cells2 :=
      if up then repeat newrow yCount ++ cells1
      else cells1 ++ repeat newrow yCount in
    mkGrid (g_res g) (g_planecount g) (g_mergecount g)
      (if left then g_minx g - xCountZ * g_res g else g_minx g)%Z
      (if up then g_minz g - yCountZ * g_res g else g_minz g)%Z
      (if left then g_maxx g else g_maxx g + xCountZ * g_res g)%Z
      (if up then g_maxz g else g_maxz g + yCountZ * g_res g)%Z
      cells2 (g_planes g).

(* ------------------------------------------------------------------ RegularGrid.IntersectQuad *)
Inductive ext := Fin (q : Q) | PInf.           (* a float32 that is finite or +Inf *)
Definition ext_ltb (a b : ext) : bool :=
  match a, b with
  | Fin x, Fin y => Qlt_bool x y
  | Fin _, PInf => true
  | PInf, _ => false
  end.

(* the `for i := 0; i < len(cell); i++` scan keeping the smallest t (first wins on ties) *)
Fixpoint scan_cell (r : ray) (planes : list quad) (ids : list nat) (best : option nat) (tmin : ext)
  : option nat * ext :=
  match ids with
  | [] => (best, tmin)
  | id :: rest =>
      match nth_error planes id with
      | Some q =>
          match ray_quad r q with
          | Some t => if ext_ltb (Fin t) tmin then scan_cell r planes rest (Some id) (Fin t)
                      else scan_cell r planes rest best tmin
          | None => scan_cell r planes rest best tmin
          end
      | None => scan_cell r planes rest best tmin
      end
  end.

(* result of RegularGrid.IntersectQuad: the hit (or nil) and t; or a run-time panic *)
Inductive ires := IRes (hit : option nat) (t : ext) | IPanic.

Definition miss : ires := IRes None (Fin (-1)).

(* single-cell path (rayDir.Length() == 0 after dropping y) *)
Definition intersect_cell (g : grid) (r : ray) : ires :=
  let cx := cellx g (vx (rfrom r)) in
  let cy := cellz g (vz (rfrom r)) in
  if (cx <? 0)%Z || (Z.of_nat (ncols g) <=? cx)%Z then miss
  else if (cy <? 0)%Z || (Z.of_nat (nrows g) <=? cy)%Z then miss
  else
    let '(best, tmin) := scan_cell r (g_planes g) (get_cell (g_cells g) (Z.to_nat cy) (Z.to_nat cx)) None PInf in
    IRes best tmin.

(* a float32 delta that may be finite, +Inf or NaN (division by a zero direction component) *)
Inductive dlt := DFin (q : Q) | DInf | DNaN.

Definition uint_of_Z (z : Z) : Z := if (z <? 0)%Z then (18446744073709551616 + z)%Z else z.   (* amd64 *)

Definition step_fuel : nat := 2000.

(* clampCell: a cell coordinate to an index of a row or column of [n] cells *)
Definition clamp_cell (z : Z) (n : nat) : nat :=
  if (z <=? 0)%Z then 0%nat else if (Z.of_nat n - 1 <? z)%Z then (n - 1)%nat else Z.to_nat z.

(* the Bresenham-like loop (cell indices clamped into the grid, as the code does since the repair of F4) *)
Fixpoint step_loop (fuel : nat) (g : grid) (r : ray) (fx fz dx dz : Q) (dtx dty : dlt) (t : Q) : ires :=
  match fuel with
  | O => IPanic                      (* not reached for bounded inputs; see step_fuel *)
  | S fuel' =>
      let hx := fx + dx * t in
      let hz := fz + dz * t in
      let cellX := clamp_cell (cellx g hx) (ncols g) in
      let cellY := clamp_cell (cellz g hz) (nrows g) in
      let '(best, tmin) := scan_cell r (g_planes g) (get_cell (g_cells g) cellY cellX) None PInf in
      match best with
      | Some id => IRes (Some id) tmin
      | None =>
          (* if t+deltaTX < t+deltaTY { t += deltaTX } else { t += deltaTY } *)
          let next :=
            match dtx, dty with
            | DFin a, DFin b => if Qlt_bool a b then Some (t + a) else Some (t + b)
            | DFin a, DInf => Some (t + a)
            | DFin _, DNaN => None
            | _, DFin b => Some (t + b)
            | _, _ => None
            end in
          match next with
          | None => miss                      (* t became Inf or NaN *)
          | Some t' => if Qlt_bool 1 t' then miss else step_loop fuel' g r fx fz dx dz dtx dty t'
          end
      end
  end.

Definition intersect_step (g : grid) (r : ray) : ires :=
  let fx := vx (rfrom r) in let fz := vz (rfrom r) in
  let dx := vx (rto r) - fx in let dz := vz (rto r) - fz in
  let mnx := inject_Z (g_minx g) in let mxx := inject_Z (g_maxx g) in
  let mnz := inject_Z (g_minz g) in let mxz := inject_Z (g_maxz g) in
  (* entry parameter along x: None = `return nil, -1` *)
  let xt : option Q :=
    if Qlt_bool fx mnx then (if Qlt_bool dx (mnx - fx) then None else Some ((mnx - fx) / dx))
    else if Qlt_bool mxx fx then (if Qlt_bool (mxx - fx) dx then None else Some ((mxx - fx) / dx))
    else Some 0 in
  match xt with
  | None => miss
  | Some xt =>
    let zt : option Q :=
      if Qlt_bool fz mnz then (if Qlt_bool dz (mnz - fz) then None else Some ((mnz - fz) / dz))
      else if Qlt_bool mxz fz then (if Qlt_bool (mxz - fz) dz then None else Some ((mxz - fz) / dz))
      else Some 0 in
    match zt with
    | None => miss
    | Some zt =>
      let delta (lo hi f d : Q) (n : nat) : dlt :=
        if isz d then (if Qeq_bool lo f || Qeq_bool hi f then DNaN else DInf)
        else DFin (Qabs ((hi - f) / d - (lo - f) / d) / inject_Z (Z.of_nat n)) in
      let dtx := delta mnx mxx fx dx (ncols g) in
      let dty := delta mnz mxz fz dz (nrows g) in
      let t0 := if Qlt_bool zt xt then xt else zt in
      step_loop step_fuel g r fx fz dx dz dtx dty t0
    end
  end.

Definition grid_intersect (g : grid) (r : ray) : ires :=
  let dx := vx (rto r) - vx (rfrom r) in
  let dz := vz (rto r) - vz (rfrom r) in
  if isz dx && isz dz then intersect_cell g r else intersect_step g r.

(* ------------------------------------------------------------------ mergeQuads *)
Definition range_incl (a b : nat) : list nat := seq a (S b - a).     (* a, a+1, …, b *)
Definition range_excl (a b : nat) : list nat := seq a (b - a).       (* a, …, b-1  *)

Fixpoint find_idx (id : nat) (l : list nat) : option nat :=
  match l with
  | [] => None
  | a :: l' => if Nat.eqb a id then Some O else option_map S (find_idx id l')
  end.

(* removeQuadFromCell: overwrite the first occurrence with the last element, drop the last *)
Definition swap_remove (id : nat) (l : list nat) : list nat :=
  match find_idx id l with
  | None => l
  | Some i => removelast (upd_nth i (fun _ => last l O) l)
  end.

Definition strip (cs : cells_t) (ys xs : list nat) (f : list nat -> list nat) : cells_t :=
  fold_left (fun cs y => fold_left (fun cs x => upd_cell cs y x f) xs cs) ys cs.

Definition footprint (g : grid) (q : quad) : nat * nat * nat * nat :=
  (Z.to_nat (cellx g (vx (qmin q))), Z.to_nat (cellz g (vz (qmin q))),
   Z.to_nat (cellx g (vx (qmax q))), Z.to_nat (cellz g (vz (qmax q)))).

Definition blend_quad (e n : quad) : quad :=
  mkQuad (vred (vadd (qc e) (vmul (vsub (qc n) (qc e)) merge_blend)))
         (vred (vadd (qe e) (vmul (vsub (qe n) (qe e)) merge_blend)))
         (qn e) (qmerges e + 1).

Definition set_plane (g : grid) (id : nat) (q : quad) (cs : cells_t) (mc : N) : grid :=
  mkGrid (g_res g) (g_planecount g) mc (g_minx g) (g_minz g) (g_maxx g) (g_maxz g) cs
         (upd_nth id (fun _ => q) (g_planes g)).

(* the four edge loops of mergeQuads, given the old and the new cell range of the moved plane *)
Definition merge_cells (cs : cells_t) (hit : nat) (x0m y0m x0M y0M x1m y1m x1M y1M : nat) : cells_t :=
  let expandLeft := Nat.ltb x1m x0m in
  let minMinX := if expandLeft then x1m else x0m in
  let maxMinX := if expandLeft then x0m else x1m in
  let shrinkRight := Nat.ltb x1M x0M in
  let minMaxX := if shrinkRight then x1M else x0M in
  let maxMaxX := if shrinkRight then x0M else x1M in
  let expandTop := Nat.ltb y1m y0m in
  let minMinY := if expandTop then y1m else y0m in
  let maxMinY := if expandTop then y0m else y1m in
  let shrinkBottom := Nat.ltb y1M y0M in
  let minMaxY := if shrinkBottom then y1M else y0M in
  let maxMaxY := if shrinkBottom then y0M else y1M in
  let add := fun l : list nat => l ++ [hit] in
  let del := swap_remove hit in
  (* left edge *)
  let cs := strip cs (range_incl minMinY maxMaxY) (range_excl minMinX maxMinX)
                  (if expandLeft then add else del) in
  (* right edge *)
  let cs := strip cs (range_incl minMinY maxMaxY) (rev (range_incl (S minMaxX) maxMaxX))
                  (if shrinkRight then del else add) in
  (* top edge *)
  let cs := strip cs (range_excl minMinY maxMinY) (range_incl maxMinX minMaxX)
                  (if expandTop then add else del) in
  (* bottom edge *)
  let cs := strip cs (rev (range_incl (S minMaxY) maxMaxY)) (range_incl maxMinX minMaxX)
                  (if shrinkBottom then del else add) in
  cs.

(* the re-registration of the moved plane, in a grid that contains both footprints *)
Definition merge_quads_cells (g : grid) (hit : nat) (nq : quad) : grid :=
  match nth_error (g_planes g) hit with
  | None => g
  | Some eq =>
      let '(x0m, y0m, x0M, y0M) := footprint g eq in
      let eq' := blend_quad eq nq in
      let '(x1m, y1m, x1M, y1M) := footprint g eq' in
      set_plane g hit eq' (merge_cells (g_cells g) hit x0m y0m x0M y0M x1m y1m x1M y1M) (g_mergecount g + 1)
  end.

(* mergeQuads, as repaired (finding F14): the blended plane is computed first and the grid is fitted to its
   footprint before any cell coordinate is taken.  In exact arithmetic the two ExpandToFitPoint calls are
   no-ops (the blend is a convex combination of two footprints inside the grid: proofs/GridProofs.v
   merge_quads_fit_noop); in float32 they are what keeps a footprint that rounding pushed over the border inside. *)
Definition merge_quads (g : grid) (hit : nat) (nq : quad) : grid :=
  match nth_error (g_planes g) hit with
  | None => g
  | Some eq =>
      let eq' := blend_quad eq nq in
      merge_quads_cells (expand (expand g (qmin eq')) (qmax eq')) hit nq
  end.

(* ------------------------------------------------------------------ InsertQuad *)
Inductive qref := QNew | QOld (id : nat).      (* quadToMerge: &q or an existing plane *)

Definition deref (g : grid) (q : quad) (r : qref) : option quad :=
  match r with QNew => Some q | QOld id => nth_error (g_planes g) id end.

Definition merge_fuel : nat := 1000.

Definition vertical_ray (c : vec) (dy : Q) : ray := mkRay c (mkVec (vx c) (vy c + dy) (vz c)).

Definition ires_hit (i : ires) : option nat := match i with IRes h _ => h | IPanic => None end.
Definition ires_t (i : ires) : ext := match i with IRes _ t => t | IPanic => Fin (-1) end.

(* returns the grid and quadToMerge after the loop (None = nil) *)
Fixpoint merge_loop (fuel : nat) (g : grid) (q : quad) (cur : qref) : grid * option qref :=
  match fuel with
  | O => (g, None)
  | S fuel' =>
      match deref g q cur with
      | None => (g, Some cur)
      | Some qm =>
          let up := grid_intersect g (vertical_ray (qc qm) ray_reach) in
          let down := grid_intersect g (vertical_ray (qc qm) (- ray_reach)) in
          match ires_hit up, ires_hit down with
          | None, None => (g, Some cur)
          | hitUp, hitDown =>
              let hit := if ext_ltb (ires_t down) (ires_t up) then hitDown else hitUp in
              match hit with
              | None => (g, Some cur)               (* Go would dereference nil; not reachable *)
              | Some h =>
                  match nth_error (g_planes g) h with
                  | None => (g, Some cur)
                  | Some hq =>
                      if equal_eps (vy (qc hq)) (vy (qc qm)) merge_epsilon && overlap hq qm then
                        let g' := merge_quads g h qm in
                        match nth_error (g_planes g') h, deref g' q cur with
                        | Some hq', Some qm' =>
                            if veq_bool (qc hq') (qc qm') then (g', None)
                            else merge_loop fuel' g' q (QOld h)
                        | _, _ => (g', None)
                        end
                      else (g, Some cur)
                  end
              end
          end
      end
  end.

Definition append_plane (g : grid) (q : quad) : grid :=
  let id := length (g_planes g) in
  let '(x0, y0, x1, y1) := footprint g q in
  let ys := range_incl y0 (Nat.min y1 (nrows g - 1)) in
  let cs :=
    fold_left (fun cs y =>
                 fold_left (fun cs x => upd_cell cs y x (fun l => l ++ [id]))
                           (range_incl x0 (Nat.min x1 (length (nth y cs []) - 1))) cs)
              ys (g_cells g) in
  mkGrid (g_res g) (g_planecount g + 1) (g_mergecount g) (g_minx g) (g_minz g) (g_maxx g) (g_maxz g)
         cs (g_planes g ++ [q]).

Definition insert_with (fuel : nat) (g : grid) (q : quad) : grid :=
  let g1 := expand (expand g (qmin q)) (qmax q) in
  match merge_loop fuel g1 q QNew with
  | (g2, Some QNew) => append_plane g2 q
  | (g2, _) => g2
  end.

Definition insert (g : grid) (q : quad) : grid := insert_with merge_fuel g q.

(* ------------------------------------------------------------------ GetRegion, GetDebugInfo *)
Fixpoint dedup (seen l : list nat) : list nat :=      (* the map[*Quad]bool, in first-seen order *)
  match l with
  | [] => []
  | a :: l' => if existsb (Nat.eqb a) seen then dedup seen l' else a :: dedup (a :: seen) l'
  end.

Definition get_region (g : grid) (lo hi : vec) : list nat :=
  let lox := Qmax (vx lo) (inject_Z (g_minx g)) in
  let loz := Qmax (vz lo) (inject_Z (g_minz g)) in
  let hix := Qmin (vx hi) (inject_Z (g_maxx g)) in
  let hiz := Qmin (vz hi) (inject_Z (g_maxz g)) in
  (* a region that does not meet the grid is empty *)
  if negb (Qle_bool lox hix && Qle_bool loz hiz) then []
  else
  let x0 := Z.to_nat (cellx g lox) in let y0 := Z.to_nat (cellz g loz) in
  let x1 := Z.to_nat (cellx g hix) in let y1 := Z.to_nat (cellz g hiz) in
  dedup [] (flat_map (fun y => flat_map (fun x => get_cell (g_cells g) y x) (range_excl x0 x1))
                     (range_excl y0 y1)).

Record debug_info := mkDebug {
  d_res : Z; d_rows : nat; d_cols : nat; d_planes : N; d_merges : N;
  d_minx : Z; d_minz : Z; d_maxx : Z; d_maxz : Z; d_occupancy : list nat }.

Definition get_debug_info (g : grid) : debug_info :=
  mkDebug (g_res g) (nrows g) (ncols g) (g_planecount g) (g_mergecount g)
          (g_minx g) (g_minz g) (g_maxx g) (g_maxz g)
          (flat_map (fun y => map (fun x => length (get_cell (g_cells g) y x)) (seq 0 (ncols g)))
                    (seq 0 (nrows g))).

(* ------------------------------------------------------------------ the domain of C20 *)
Definition bound : Q := 64.

Definition veq (a b : vec) : Prop := vx a == vx b /\ vy a == vy b /\ vz a == vz b.

(* a horizontal quad with positive extents inside the 64 m box, as NewQuadFromProtobuf builds it *)
Definition valid_quad (q : quad) : Prop :=
  0 < vx (qe q) /\ vy (qe q) == 0 /\ 0 < vz (qe q) /\
  - bound <= vx (qmin q) /\ vx (qmax q) <= bound /\
  - bound <= vz (qmin q) /\ vz (qmax q) <= bound /\
  - bound <= vy (qc q) /\ vy (qc q) <= bound /\
  veq (qn q) (calc_normal (qc q) (qe q)).

Definition valid_quad_b (q : quad) : bool :=
  Qlt_bool 0 (vx (qe q)) && isz (vy (qe q)) && Qlt_bool 0 (vz (qe q)) &&
  Qle_bool (- bound) (vx (qmin q)) && Qle_bool (vx (qmax q)) bound &&
  Qle_bool (- bound) (vz (qmin q)) && Qle_bool (vz (qmax q)) bound &&
  Qle_bool (- bound) (vy (qc q)) && Qle_bool (vy (qc q)) bound &&
  veq_bool (qn q) (calc_normal (qc q) (qe q)).

(* ------------------------------------------------------------------ the session's grid (dagaz.go)
   Module.Init fetches the session's module state, or creates it with a new grid, when a participant
   joins; [recreate] says whether Init ALSO replaces the grid of an existing state (tied to the
   sources by GenGrid.init_recreates_grid).  Departures do not touch the module state. *)
Inductive sop := SJoin | SLeave | SInsert (q : quad).

Definition sess_step_with (ins : grid -> quad -> grid) (recreate : bool) (g : grid) (o : sop) : grid :=
  match o with
  | SJoin => if recreate then new_grid 1 1 module_resolution else g
  | SLeave => g
  | SInsert q => ins g q
  end.

(* the session is created (with its grid) by the first join; [ops] is what happens afterwards *)
Definition sess_run_with (ins : grid -> quad -> grid) (recreate : bool) (ops : list sop) : grid :=
  fold_left (sess_step_with ins recreate) ops (new_grid 1 1 module_resolution).

Definition sess_step : bool -> grid -> sop -> grid := sess_step_with insert.
Definition sess_run : bool -> list sop -> grid := sess_run_with insert.

Fixpoint inserted (ops : list sop) : list quad :=
  match ops with
  | [] => []
  | SInsert q :: r => q :: inserted r
  | _ :: r => inserted r
  end.

(* ------------------------------------------------------------------ the property, executable
   (P_C20; evaluated by the oracle on the dumped implementation state with tol > 0 and stated
   about the model with tol = 0 in proofs/GridProofs.v) *)

(* footprint of q meets cell (x, y) in more than [tol]:  the cell is
   [minx + x*res, minx + (x+1)*res) x [minz + y*res, …) *)
Definition overlaps_col_b (tol : Q) (g : grid) (q : quad) (x : nat) : bool :=
  let res := inject_Z (g_res g) in
  let lox := inject_Z (g_minx g) + inject_Z (Z.of_nat x) * res in
  Qle_bool (lox + tol) (vx (qmax q)) && Qlt_bool (vx (qmin q) + tol) (lox + res).
Definition overlaps_row_b (tol : Q) (g : grid) (q : quad) (y : nat) : bool :=
  let res := inject_Z (g_res g) in
  let loz := inject_Z (g_minz g) + inject_Z (Z.of_nat y) * res in
  Qle_bool (loz + tol) (vz (qmax q)) && Qlt_bool (vz (qmin q) + tol) (loz + res).
Definition overlaps_cell_b (tol : Q) (g : grid) (q : quad) (y x : nat) : bool :=
  overlaps_row_b tol g q y && overlaps_col_b tol g q x.

Definition mem (id : nat) (l : list nat) : bool := existsb (Nat.eqb id) l.

(* (id, y, x) such that plane id overlaps cell (y, x) but is not registered there *)
Definition incomplete (tol : Q) (g : grid) : list (nat * nat * nat) :=
  flat_map (fun idq : nat * quad =>
    flat_map (fun y =>
      if overlaps_row_b tol g (snd idq) y then
        flat_map (fun x =>
          if overlaps_col_b tol g (snd idq) x && negb (mem (fst idq) (get_cell (g_cells g) y x))
          then [(fst idq, y, x)] else [])
        (seq 0 (length (nth y (g_cells g) [])))
      else [])
    (seq 0 (nrows g)))
  (combine (seq 0 (length (g_planes g))) (g_planes g)).

(* planes whose footprint is not inside [Min - tol, Max + tol] *)
Definition out_of_bounds (tol : Q) (g : grid) : list nat :=
  flat_map (fun idq : nat * quad =>
    let q := snd idq in
    if Qle_bool (inject_Z (g_minx g) - tol) (vx (qmin q)) && Qle_bool (vx (qmax q)) (inject_Z (g_maxx g) + tol) &&
       Qle_bool (inject_Z (g_minz g) - tol) (vz (qmin q)) && Qle_bool (vz (qmax q)) (inject_Z (g_maxz g) + tol)
    then [] else [fst idq])
  (combine (seq 0 (length (g_planes g))) (g_planes g)).

Definition all_ids (g : grid) : list nat := dedup [] (concat (concat (g_cells g))).

Definition count_ok (g : grid) : bool := (N.of_nat (length (all_ids g)) =? g_planecount g)%N.

(* a region query that covers the grid *)
Definition cover_lo (g : grid) : vec := mkVec (inject_Z (g_minx g) - 1) 0 (inject_Z (g_minz g) - 1).
Definition cover_hi (g : grid) : vec := mkVec (inject_Z (g_maxx g) + 1) 0 (inject_Z (g_maxz g) + 1).

Fixpoint nodup_b (l : list nat) : bool :=
  match l with [] => true | a :: l' => negb (mem a l') && nodup_b l' end.

Definition same_set (a b : list nat) : bool :=
  forallb (fun x => mem x b) a && forallb (fun x => mem x a) b.

Definition region_ok (g : grid) : bool :=
  let r := get_region g (cover_lo g) (cover_hi g) in
  nodup_b r && same_set r (seq 0 (length (g_planes g))).

(* the vertical ray through the centre of q, from one metre above to one metre below *)
Definition centre_ray (q : quad) : ray :=
  mkRay (mkVec (vx (qc q)) (vy (qc q) + 1) (vz (qc q))) (mkVec (vx (qc q)) (vy (qc q) - 1) (vz (qc q))).

Definition ray_misses (g : grid) : list nat :=
  flat_map (fun idq : nat * quad =>
    match grid_intersect g (centre_ray (snd idq)) with
    | IRes (Some _) _ => []
    | _ => [fst idq]
    end)
  (combine (seq 0 (length (g_planes g))) (g_planes g)).

(* ------------------------------------------------------------------ float32 bit patterns -> Q *)
Definition Q_of_f32bits (b : Z) : option Q :=
  let sign := ((b / 2147483648) mod 2)%Z in
  let e := ((b / 8388608) mod 256)%Z in
  let m := (b mod 8388608)%Z in
  if (e =? 255)%Z then None            (* Inf / NaN *)
  else
    let mant := if (e =? 0)%Z then m else (m + 8388608)%Z in
    let ex := if (e =? 0)%Z then (-149)%Z else (e - 150)%Z in
    let mag := match ex with
               | Z0 => inject_Z mant
               | Zpos p => inject_Z (mant * Z.pow 2 (Zpos p))%Z
               | Zneg p => Qred (mant # (Pos.pow 2 p))
               end in
    Some (if (sign =? 1)%Z then - mag else mag).

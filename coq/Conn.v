(* Conn.v — the connection shell of websocket/handler.go as an executable transition system.

   One connection: the main loop of handler.Handle, the receiver goroutine (startReceiving), the
   sender goroutine (startSending), the session's frame worker as far as it touches this
   connection's scheduler, the goroutine that discards the scheduler queue while the connection is
   being ended (when the code has one), the client as an environment process, the server-side
   net/http recovery of a handler panic.  The three bounded channels are counters / queues whose
   capacities are parameters; `disconnect` is a blocking or a non-blocking send per a parameter;
   the idle timer is a logical counter.

   The model follows the code as it IS, line by line (handler.go at the commit under
   verification); the behaviours that differ between code versions are parameters whose values are
   regenerated from the sources (GenConn.v):
     disc_blocking    h.disconnectChan <- err            vs  select { case ... <- err: default: }
     sender_discards  the sender returns after a failed send   vs  keeps discarding sendChan
     queue_discarded  nobody consumes the scheduler queue once the main loop has decided to
                      disconnect   vs  a goroutine discards it until Handle returns
     write_deadline   a write to a client that does not read blocks for ever  vs  fails after a deadline
     rearm            the message case re-arms the idle timer

   No proofs here (coq/proofs/ConnProofs.v), so that the model still runs if a proof breaks. *)

From Coq Require Import List Bool Arith.
Import ListNotations.

(* ------------------------------------------------------------------ parameters *)

Record params := mkParams {
  cap_send : nat;        (* make(chan hwebsocket.Msg, sendChanSize) *)
  cap_disc : nat;        (* make(chan error, 8) *)
  cap_queue : nat;       (* hagall-common scheduler queue *)
  cap_tcp : nat;         (* what the kernel buffers towards a client that does not read, in messages *)
  idle_timeout : nat;    (* in logical time units *)
  disc_blocking : bool;
  sender_discards : bool;
  queue_discarded : bool;
  write_deadline : bool;
  rearm : bool
}.

(* ------------------------------------------------------------------ state *)

(* what a client frame is, from the shell's point of view *)
Inductive kind :=
| KValid      (* handled, answered with one message *)
| KJoin       (* a join request: handled, answered, the connection is now a member of a session *)
| KQuiet      (* handled, no answer (custom message, flushed pose update) *)
| KFail       (* the handler returns an error (e.g. entity add from an unjoined connection) *)
| KPanic      (* the handler panics (a nil dereference in a module, ...) *)
| KBad        (* the receiver refuses it: non binary frame, undecodable envelope, no timestamp,
                 or the scheduler's Dispatch fails to decode it *)
| KDeferred.  (* pose / component update: kept by the scheduler until the next frame *)

Inductive mainpc :=
| MSelect        (* blocked in the select of the main loop *)
| MLoop          (* at the loop condition `ctx.Err() == nil` *)
| MBlockDisc     (* inside disconnect(), blocked on a full disconnectChan *)
| MBlockSend     (* inside a handler / SendSyncClock, blocked on a full sendChan *)
| MHD            (* disconnect case taken: about to close the socket *)
| MLeave         (* socket closed: about to run Handler.HandleDisconnect *)
| MCancel        (* HandleDisconnect done: about to cancel the context and leave the loop *)
| MWait          (* wg.Wait() *)
| MReturned      (* Handle returned normally *)
| MPanicking     (* a handler panicked: unwinding *)
| MPanicked.     (* net/http recovered the panic: Handle left without HandleDisconnect *)

Inductive recvpc :=
| RIdle          (* top of the loop: select on ctx.Done with default *)
| RReading       (* blocked in receiver() *)
| RHave (k : kind)  (* a message in hand, about to Dispatch *)
| RFailed        (* receive or dispatch failed: about to call disconnect *)
| RDone.

Inductive sendpc :=
| SIdle          (* select on ctx.Done / sendChan *)
| SHave          (* a message in hand, inside sender(msg) *)
| SFailed        (* the send failed: about to call disconnect *)
| SSink          (* (sender_discards) the connection is broken: discarding sendChan *)
| SDone.

Inductive cstate := CAlive | CStalled | CGone.

Record state := mkState {
  main : mainpc;
  recv : recvpc;
  snd : sendpc;
  cli : cstate;
  net_in : list kind;      (* frames written by the client, not yet read by the receiver *)
  queue : list kind;       (* scheduler queue *)
  pend : nat;              (* pose / component updates kept by the scheduler *)
  sendq : nat;             (* sendChan *)
  dchan : nat;             (* disconnectChan *)
  tcp_out : nat;           (* messages buffered towards a stalled client *)
  conn_open : bool;        (* the server has not closed the socket *)
  cancelled : bool;        (* ctx *)
  sched_closed : bool;     (* scheduler.Close() ran *)
  discarding : bool;       (* the goroutine that discards the scheduler queue is running *)
  frame_blocked : bool;    (* the session's frame worker is blocked on this connection's full queue *)
  joined : bool;           (* a join was handled *)
  in_session : bool;       (* the participant is registered in its session (and its frame handler with it) *)
  idle : nat;              (* logical time since the idle timer was (re)armed *)
  idle_fired : bool;       (* the timer's tick has been consumed *)
  disconnect_calls : nat;  (* calls of Handler.HandleDisconnect *)
  gauge : nat;             (* this connection's contribution to ws_connected_clients *)
  fired : bool;            (* ghost: disconnect() has been called by somebody *)
  main_disc_calls : nat;   (* ghost: calls of disconnect() by the main loop *)
  consumed : nat;          (* ghost: messages taken from the scheduler queue by the main loop *)
  crashed : bool           (* a goroutine other than the handler's panicked: the process is gone *)
}.

(* after HandleConnect (gauge incremented), goroutines started *)
Definition init : state :=
  mkState MSelect RIdle SIdle CAlive [] [] 0 0 0 0 true false false false false false false 0 false 0 1 false 0 0 false.

(* ------------------------------------------------------------------ setters *)

Definition set_main v s := mkState v (recv s) (snd s) (cli s) (net_in s) (queue s) (pend s) (sendq s) (dchan s) (tcp_out s) (conn_open s) (cancelled s) (sched_closed s) (discarding s) (frame_blocked s) (joined s) (in_session s) (idle s) (idle_fired s) (disconnect_calls s) (gauge s) (fired s) (main_disc_calls s) (consumed s) (crashed s).
Definition set_recv v s := mkState (main s) v (snd s) (cli s) (net_in s) (queue s) (pend s) (sendq s) (dchan s) (tcp_out s) (conn_open s) (cancelled s) (sched_closed s) (discarding s) (frame_blocked s) (joined s) (in_session s) (idle s) (idle_fired s) (disconnect_calls s) (gauge s) (fired s) (main_disc_calls s) (consumed s) (crashed s).
Definition set_snd v s := mkState (main s) (recv s) v (cli s) (net_in s) (queue s) (pend s) (sendq s) (dchan s) (tcp_out s) (conn_open s) (cancelled s) (sched_closed s) (discarding s) (frame_blocked s) (joined s) (in_session s) (idle s) (idle_fired s) (disconnect_calls s) (gauge s) (fired s) (main_disc_calls s) (consumed s) (crashed s).
Definition set_cli v s := mkState (main s) (recv s) (snd s) v (net_in s) (queue s) (pend s) (sendq s) (dchan s) (tcp_out s) (conn_open s) (cancelled s) (sched_closed s) (discarding s) (frame_blocked s) (joined s) (in_session s) (idle s) (idle_fired s) (disconnect_calls s) (gauge s) (fired s) (main_disc_calls s) (consumed s) (crashed s).
Definition set_net v s := mkState (main s) (recv s) (snd s) (cli s) v (queue s) (pend s) (sendq s) (dchan s) (tcp_out s) (conn_open s) (cancelled s) (sched_closed s) (discarding s) (frame_blocked s) (joined s) (in_session s) (idle s) (idle_fired s) (disconnect_calls s) (gauge s) (fired s) (main_disc_calls s) (consumed s) (crashed s).
Definition set_queue v s := mkState (main s) (recv s) (snd s) (cli s) (net_in s) v (pend s) (sendq s) (dchan s) (tcp_out s) (conn_open s) (cancelled s) (sched_closed s) (discarding s) (frame_blocked s) (joined s) (in_session s) (idle s) (idle_fired s) (disconnect_calls s) (gauge s) (fired s) (main_disc_calls s) (consumed s) (crashed s).
Definition set_pend v s := mkState (main s) (recv s) (snd s) (cli s) (net_in s) (queue s) v (sendq s) (dchan s) (tcp_out s) (conn_open s) (cancelled s) (sched_closed s) (discarding s) (frame_blocked s) (joined s) (in_session s) (idle s) (idle_fired s) (disconnect_calls s) (gauge s) (fired s) (main_disc_calls s) (consumed s) (crashed s).
Definition set_sendq v s := mkState (main s) (recv s) (snd s) (cli s) (net_in s) (queue s) (pend s) v (dchan s) (tcp_out s) (conn_open s) (cancelled s) (sched_closed s) (discarding s) (frame_blocked s) (joined s) (in_session s) (idle s) (idle_fired s) (disconnect_calls s) (gauge s) (fired s) (main_disc_calls s) (consumed s) (crashed s).
Definition set_dchan v s := mkState (main s) (recv s) (snd s) (cli s) (net_in s) (queue s) (pend s) (sendq s) v (tcp_out s) (conn_open s) (cancelled s) (sched_closed s) (discarding s) (frame_blocked s) (joined s) (in_session s) (idle s) (idle_fired s) (disconnect_calls s) (gauge s) (fired s) (main_disc_calls s) (consumed s) (crashed s).
Definition set_tcp v s := mkState (main s) (recv s) (snd s) (cli s) (net_in s) (queue s) (pend s) (sendq s) (dchan s) v (conn_open s) (cancelled s) (sched_closed s) (discarding s) (frame_blocked s) (joined s) (in_session s) (idle s) (idle_fired s) (disconnect_calls s) (gauge s) (fired s) (main_disc_calls s) (consumed s) (crashed s).
Definition set_open v s := mkState (main s) (recv s) (snd s) (cli s) (net_in s) (queue s) (pend s) (sendq s) (dchan s) (tcp_out s) v (cancelled s) (sched_closed s) (discarding s) (frame_blocked s) (joined s) (in_session s) (idle s) (idle_fired s) (disconnect_calls s) (gauge s) (fired s) (main_disc_calls s) (consumed s) (crashed s).
Definition set_cancelled v s := mkState (main s) (recv s) (snd s) (cli s) (net_in s) (queue s) (pend s) (sendq s) (dchan s) (tcp_out s) (conn_open s) v (sched_closed s) (discarding s) (frame_blocked s) (joined s) (in_session s) (idle s) (idle_fired s) (disconnect_calls s) (gauge s) (fired s) (main_disc_calls s) (consumed s) (crashed s).
Definition set_sched_closed v s := mkState (main s) (recv s) (snd s) (cli s) (net_in s) (queue s) (pend s) (sendq s) (dchan s) (tcp_out s) (conn_open s) (cancelled s) v (discarding s) (frame_blocked s) (joined s) (in_session s) (idle s) (idle_fired s) (disconnect_calls s) (gauge s) (fired s) (main_disc_calls s) (consumed s) (crashed s).
Definition set_discarding v s := mkState (main s) (recv s) (snd s) (cli s) (net_in s) (queue s) (pend s) (sendq s) (dchan s) (tcp_out s) (conn_open s) (cancelled s) (sched_closed s) v (frame_blocked s) (joined s) (in_session s) (idle s) (idle_fired s) (disconnect_calls s) (gauge s) (fired s) (main_disc_calls s) (consumed s) (crashed s).
Definition set_frame_blocked v s := mkState (main s) (recv s) (snd s) (cli s) (net_in s) (queue s) (pend s) (sendq s) (dchan s) (tcp_out s) (conn_open s) (cancelled s) (sched_closed s) (discarding s) v (joined s) (in_session s) (idle s) (idle_fired s) (disconnect_calls s) (gauge s) (fired s) (main_disc_calls s) (consumed s) (crashed s).
Definition set_joined v s := mkState (main s) (recv s) (snd s) (cli s) (net_in s) (queue s) (pend s) (sendq s) (dchan s) (tcp_out s) (conn_open s) (cancelled s) (sched_closed s) (discarding s) (frame_blocked s) v (in_session s) (idle s) (idle_fired s) (disconnect_calls s) (gauge s) (fired s) (main_disc_calls s) (consumed s) (crashed s).
Definition set_in_session v s := mkState (main s) (recv s) (snd s) (cli s) (net_in s) (queue s) (pend s) (sendq s) (dchan s) (tcp_out s) (conn_open s) (cancelled s) (sched_closed s) (discarding s) (frame_blocked s) (joined s) v (idle s) (idle_fired s) (disconnect_calls s) (gauge s) (fired s) (main_disc_calls s) (consumed s) (crashed s).
Definition set_idle v s := mkState (main s) (recv s) (snd s) (cli s) (net_in s) (queue s) (pend s) (sendq s) (dchan s) (tcp_out s) (conn_open s) (cancelled s) (sched_closed s) (discarding s) (frame_blocked s) (joined s) (in_session s) v (idle_fired s) (disconnect_calls s) (gauge s) (fired s) (main_disc_calls s) (consumed s) (crashed s).
Definition set_idle_fired v s := mkState (main s) (recv s) (snd s) (cli s) (net_in s) (queue s) (pend s) (sendq s) (dchan s) (tcp_out s) (conn_open s) (cancelled s) (sched_closed s) (discarding s) (frame_blocked s) (joined s) (in_session s) (idle s) v (disconnect_calls s) (gauge s) (fired s) (main_disc_calls s) (consumed s) (crashed s).
Definition set_dcalls v s := mkState (main s) (recv s) (snd s) (cli s) (net_in s) (queue s) (pend s) (sendq s) (dchan s) (tcp_out s) (conn_open s) (cancelled s) (sched_closed s) (discarding s) (frame_blocked s) (joined s) (in_session s) (idle s) (idle_fired s) v (gauge s) (fired s) (main_disc_calls s) (consumed s) (crashed s).
Definition set_gauge v s := mkState (main s) (recv s) (snd s) (cli s) (net_in s) (queue s) (pend s) (sendq s) (dchan s) (tcp_out s) (conn_open s) (cancelled s) (sched_closed s) (discarding s) (frame_blocked s) (joined s) (in_session s) (idle s) (idle_fired s) (disconnect_calls s) v (fired s) (main_disc_calls s) (consumed s) (crashed s).
Definition set_fired v s := mkState (main s) (recv s) (snd s) (cli s) (net_in s) (queue s) (pend s) (sendq s) (dchan s) (tcp_out s) (conn_open s) (cancelled s) (sched_closed s) (discarding s) (frame_blocked s) (joined s) (in_session s) (idle s) (idle_fired s) (disconnect_calls s) (gauge s) v (main_disc_calls s) (consumed s) (crashed s).
Definition set_mdc v s := mkState (main s) (recv s) (snd s) (cli s) (net_in s) (queue s) (pend s) (sendq s) (dchan s) (tcp_out s) (conn_open s) (cancelled s) (sched_closed s) (discarding s) (frame_blocked s) (joined s) (in_session s) (idle s) (idle_fired s) (disconnect_calls s) (gauge s) (fired s) v (consumed s) (crashed s).
Definition set_consumed v s := mkState (main s) (recv s) (snd s) (cli s) (net_in s) (queue s) (pend s) (sendq s) (dchan s) (tcp_out s) (conn_open s) (cancelled s) (sched_closed s) (discarding s) (frame_blocked s) (joined s) (in_session s) (idle s) (idle_fired s) (disconnect_calls s) (gauge s) (fired s) (main_disc_calls s) v (crashed s).
Definition set_crashed v s := mkState (main s) (recv s) (snd s) (cli s) (net_in s) (queue s) (pend s) (sendq s) (dchan s) (tcp_out s) (conn_open s) (cancelled s) (sched_closed s) (discarding s) (frame_blocked s) (joined s) (in_session s) (idle s) (idle_fired s) (disconnect_calls s) (gauge s) (fired s) (main_disc_calls s) (consumed s) v.

(* ------------------------------------------------------------------ labels *)

Inductive label :=
(* the client and the rest of the world *)
| LClientSend (k : kind)   (* writes one frame *)
| LClientStall             (* stops reading *)
| LClientResume            (* reads again *)
| LClientClose             (* closes; what it wrote before is still delivered *)
| LClientReset             (* resets: what the receiver has not read yet is lost *)
| LTick                    (* one unit of logical time passes *)
| LShutdown                (* the server's own context is cancelled (process shutdown) *)
| LPeerSend                (* another member of the session broadcasts: one more message in this connection's sendChan *)
(* receiver goroutine *)
| LRecvPass | LRecvExit | LRecvRead | LRecvErr | LRecvDispatch | LRecvDisc
(* the session's frame worker, the discarding goroutine *)
| LFrame | LDiscard
(* main loop *)
| LMainMsg | LMainSync | LMainIdle | LMainCtx    (* select cases other than disconnectChan *)
| LMainDisc                                      (* the disconnectChan case *)
| LMainUnblockDisc | LMainSendDone | LMainLoop
| LMainHDClose | LMainHDLeave | LMainCancel | LMainWaitDone
| LHttpRecover                                   (* net/http's recover of a handler panic *)
(* sender goroutine *)
| LSendTake | LSendWrite | LSendWriteFail | LSendTimeout | LSendDisc | LSendExit.

(* ------------------------------------------------------------------ helpers *)

(* disconnect(): a send on disconnectChan.  None = the caller blocks. *)
Definition disc (p : params) (s : state) : option state :=
  if dchan s <? cap_disc p then Some (set_fired true (set_dchan (S (dchan s)) s))
  else if disc_blocking p then None
  else Some (set_fired true s).

(* the main loop calls disconnect(): blocked = a pc of its own *)
Definition main_disc (p : params) (s : state) : state :=
  let s1 := set_mdc (S (main_disc_calls s)) s in
  match disc p s1 with
  | Some s2 => set_main MLoop s2
  | None => set_main MBlockDisc (set_fired true s1)
  end.

(* the main loop sends one message to its own client (h.send / h.sendMsg): blocked = a pc of its own *)
Definition main_send (p : params) (s : state) : state :=
  if sendq s <? cap_send p then set_main MLoop (set_sendq (S (sendq s)) s)
  else set_main MBlockSend s.

Definition client_gone (s : state) : bool := match cli s with CGone => true | _ => false end.
Definition client_stalled (s : state) : bool := match cli s with CStalled => true | _ => false end.

Definition is_bad (k : kind) : bool := match k with KBad => true | _ => false end.
Definition is_deferred (k : kind) : bool := match k with KDeferred => true | _ => false end.

(* ------------------------------------------------------------------ the transition function *)

Definition step (p : params) (l : label) (s : state) : option state :=
  if crashed s then None else
  match l with
  (* ---- environment *)
  | LClientSend k =>
      if conn_open s && negb (client_gone s) then Some (set_net (net_in s ++ [k]) s) else None
  | LClientStall => match cli s with CAlive => Some (set_cli CStalled s) | _ => None end
  | LClientResume => match cli s with CStalled => Some (set_tcp 0 (set_cli CAlive s)) | _ => None end
  | LClientClose => if client_gone s then None else Some (set_cli CGone s)
  | LClientReset => if client_gone s then None else Some (set_net [] (set_cli CGone s))
  | LTick => Some (set_idle (S (idle s)) s)
  | LShutdown => if cancelled s then None else Some (set_cancelled true s)
  | LPeerSend =>       (* Session.Broadcast -> participant.Responder.SendMsg -> h.sendChan <- msg (the peer blocks when full) *)
      if in_session s && (sendq s <? cap_send p) then Some (set_sendq (S (sendq s)) s) else None

  (* ---- receiver: for { select { case <-ctx.Done(): return; default: msg, err := receiver(); ... Dispatch ... } } *)
  | LRecvPass =>
      match recv s with RIdle => if cancelled s then None else Some (set_recv RReading s) | _ => None end
  | LRecvExit =>
      match recv s with RIdle => if cancelled s then Some (set_recv RDone s) else None | _ => None end
  | LRecvRead =>
      match recv s, net_in s with
      | RReading, k :: rest =>
          if conn_open s then
            Some (set_recv (if is_bad k then RFailed else RHave k) (set_net rest s))
          else None
      | _, _ => None
      end
  | LRecvErr =>
      match recv s with
      | RReading =>
          if negb (conn_open s) then Some (set_recv RFailed s)
          else match net_in s with
               | [] => if client_gone s then Some (set_recv RFailed s) else None
               | _ => None
               end
      | _ => None
      end
  | LRecvDispatch =>
      match recv s with
      | RHave k =>
          if is_deferred k then Some (set_recv RIdle (set_pend (S (pend s)) s))
          else if sched_closed s then Some (set_crashed true s)   (* send on closed channel *)
          else if length (queue s) <? cap_queue p then Some (set_recv RIdle (set_queue (queue s ++ [k]) s))
          else None                                               (* blocked on the full queue *)
      | _ => None
      end
  | LRecvDisc =>
      match recv s with
      | RFailed => match disc p s with Some s1 => Some (set_recv RDone s1) | None => None end
      | _ => None
      end

  (* ---- the session's frame worker calls scheduler.HandleFrame: pending updates go to the queue *)
  | LFrame =>
      if in_session s && negb (pend s =? 0) then
        if sched_closed s then Some (set_crashed true s)          (* send on closed channel *)
        else if length (queue s) <? cap_queue p then
          Some (set_frame_blocked false (set_pend (pred (pend s)) (set_queue (queue s ++ [KQuiet]) s)))
        else if frame_blocked s then None
        else Some (set_frame_blocked true s)
      else None

  (* ---- the goroutine that discards the queue while the connection is being ended *)
  | LDiscard =>
      if discarding s then
        match queue s with _ :: q => Some (set_queue q s) | [] => None end
      else None

  (* ---- main loop *)
  | LMainMsg =>
      match main s, queue s with
      | MSelect, k :: q =>
          let s1 := set_consumed (S (consumed s)) (set_queue q s) in
          let s2 := if rearm p then set_idle_fired false (set_idle 0 s1) else s1 in
          match k with
          | KValid => Some (main_send p s2)
          | KJoin => Some (main_send p (set_in_session true (set_joined true s2)))
          | KQuiet | KDeferred | KBad => Some (set_main MLoop s2)
          | KFail => Some (main_disc p s2)
          | KPanic => Some (set_main MPanicking s2)
          end
      | _, _ => None
      end
  | LMainSync =>        (* SendSyncClock: one message to the client, never an error *)
      match main s with MSelect => Some (main_send p s) | _ => None end
  | LMainIdle =>
      match main s with
      | MSelect =>
          if (idle_timeout p <=? idle s) && negb (idle_fired s) then Some (main_disc p (set_idle_fired true s)) else None
      | _ => None
      end
  | LMainCtx =>
      match main s with MSelect => if cancelled s then Some (main_disc p s) else None | _ => None end
  | LMainDisc =>
      match main s with
      | MSelect =>
          match dchan s with
          | S n => Some (set_main MHD (set_discarding (queue_discarded p) (set_dchan n s)))
          | O => None
          end
      | _ => None
      end
  | LMainUnblockDisc =>
      match main s with
      | MBlockDisc => if dchan s <? cap_disc p then Some (set_main MLoop (set_dchan (S (dchan s)) s)) else None
      | _ => None
      end
  | LMainSendDone =>
      match main s with
      | MBlockSend => if sendq s <? cap_send p then Some (set_main MLoop (set_sendq (S (sendq s)) s)) else None
      | _ => None
      end
  | LMainLoop =>
      match main s with
      | MLoop => Some (set_main (if cancelled s then MWait else MSelect) s)
      | _ => None
      end
  | LMainHDClose =>      (* handleDisconnect: h.Conn.Close() *)
      match main s with MHD => Some (set_main MLeave (set_open false s)) | _ => None end
  | LMainHDLeave =>      (* handleDisconnect: h.Handler.HandleDisconnect(err): gauge, leaving the session
                            (which waits for the frame worker) *)
      match main s with
      | MLeave =>
          if in_session s && frame_blocked s then None
          else Some (set_main MCancel (set_in_session false (set_gauge (pred (gauge s)) (set_dcalls (S (disconnect_calls s)) s))))
      | _ => None
      end
  | LMainCancel =>       (* cancel(); the loop condition fails; wg.Wait() *)
      match main s with MCancel => Some (set_main MWait (set_cancelled true s)) | _ => None end
  | LMainWaitDone =>     (* both goroutines done: deferred scheduler.Close() etc., return *)
      match main s, recv s, snd s with
      | MWait, RDone, SDone => Some (set_main MReturned (set_discarding false (set_sched_closed true s)))
      | _, _, _ => None
      end
  | LHttpRecover =>      (* the deferred calls run (scheduler.Close, cancel, conn.Close in the caller);
                            net/http's conn.serve recovers; HandleDisconnect is NOT called *)
      match main s with
      | MPanicking => Some (set_main MPanicked (set_open false (set_cancelled true (set_sched_closed true s))))
      | _ => None
      end

  (* ---- sender: for { select { case <-ctx.Done(): return; case msg := <-sendChan: sender(msg) ... } } *)
  | LSendTake =>
      match snd s, sendq s with
      | SIdle, S n => Some (set_snd SHave (set_sendq n s))
      | SSink, S n => Some (set_sendq n s)
      | _, _ => None
      end
  | LSendWrite =>
      match snd s with
      | SHave =>
          if conn_open s then
            match cli s with
            | CAlive => Some (set_snd SIdle s)
            | CStalled => if tcp_out s <? cap_tcp p then Some (set_snd SIdle (set_tcp (S (tcp_out s)) s)) else None
            | CGone => None
            end
          else None
      | _ => None
      end
  | LSendWriteFail =>
      match snd s with
      | SHave => if negb (conn_open s) || client_gone s then Some (set_snd SFailed s) else None
      | _ => None
      end
  | LSendTimeout =>
      match snd s with
      | SHave =>
          if write_deadline p && conn_open s && client_stalled s && negb (tcp_out s <? cap_tcp p)
          then Some (set_snd SFailed s) else None
      | _ => None
      end
  | LSendDisc =>
      match snd s with
      | SFailed =>
          match disc p s with
          | Some s1 => Some (if sender_discards p then set_snd SSink s1 else set_snd SDone (set_sendq 0 s1))
          | None => None
          end
      | _ => None
      end
  | LSendExit =>
      match snd s with
      | SIdle | SSink => if cancelled s then Some (set_snd SDone (set_sendq 0 s)) else None
      | _ => None
      end
  end.

(* ------------------------------------------------------------------ executions *)

Fixpoint run (p : params) (ls : list label) (s : state) : option state :=
  match ls with
  | [] => Some s
  | l :: rest => match step p l s with Some s' => run p rest s' | None => None end
  end.

Definition all_labels : list label :=
  [ LClientSend KValid; LClientSend KJoin; LClientSend KQuiet; LClientSend KFail; LClientSend KPanic; LClientSend KBad; LClientSend KDeferred;
    LClientStall; LClientResume; LClientClose; LClientReset; LTick; LShutdown; LPeerSend;
    LRecvPass; LRecvExit; LRecvRead; LRecvErr; LRecvDispatch; LRecvDisc; LFrame; LDiscard;
    LMainMsg; LMainSync; LMainIdle; LMainCtx; LMainDisc; LMainUnblockDisc; LMainSendDone; LMainLoop;
    LMainHDClose; LMainHDLeave; LMainCancel; LMainWaitDone; LHttpRecover;
    LSendTake; LSendWrite; LSendWriteFail; LSendTimeout; LSendDisc; LSendExit ].

(* transitions of the server's own goroutines *)
Definition internal (l : label) : bool :=
  match l with
  | LClientSend _ | LClientStall | LClientResume | LClientClose | LClientReset | LTick | LShutdown | LPeerSend => false
  | _ => true
  end.

(* the choices Go's select makes among ready cases other than the disconnect case *)
Definition select_choice (l : label) : bool :=
  match l with LMainMsg | LMainSync | LMainIdle | LMainCtx => true | _ => false end.

(* quiet = internal and not such a choice: the steps a fair scheduler cannot postpone for ever *)
Definition quiet (l : label) : bool := internal l && negb (select_choice l).

Definition enabled (p : params) (l : label) (s : state) : bool :=
  match step p l s with Some _ => true | None => false end.

Definition enabled_labels (p : params) (s : state) : list label :=
  filter (fun l => enabled p l s) all_labels.

(* what a client can do: everything except making a handler panic (handlers are total: the L1
   sweep and GenConn.nil_deref_sites) and shutting the server down *)
Definition client_label (l : label) : bool :=
  match l with LClientSend KPanic | LShutdown => false | _ => true end.

(* ------------------------------------------------------------------ observables and predicates *)

Definition returned (s : state) : bool := match main s with MReturned => true | _ => false end.
Definition main_blocked_on_disconnect (s : state) : bool := match main s with MBlockDisc => true | _ => false end.
Definition recv_done (s : state) : bool := match recv s with RDone => true | _ => false end.
Definition snd_done (s : state) : bool := match snd s with SDone => true | _ => false end.

(* the end the property asks for *)
Definition clean_final (s : state) : bool :=
  returned s && (disconnect_calls s =? 1) && recv_done s && snd_done s && (gauge s =? 0) && negb (in_session s) && negb (crashed s).

(* outcome classes, the projection compared with the wire-level observables *)
Inductive outcome := OClean | OWedged | OGhost | ODouble | OCrash | OOpen.

(* for a state from which no internal step is possible *)
Definition classify (s : state) : outcome :=
  if crashed s then OCrash
  else match main s with
       | MReturned => if disconnect_calls s =? 1 then OClean else if disconnect_calls s =? 0 then OGhost else ODouble
       | MPanicked => OGhost
       | MSelect => if fired s then OWedged else OOpen
       | _ => OWedged
       end.

(* no internal transition is enabled *)
Definition stuck (p : params) (s : state) : bool :=
  forallb (fun l => negb (internal l && enabled p l s)) all_labels.

(* ------------------------------------------------------------------ parameter sets *)

(* the code at commit 502e605 (before the C08 fixes) *)
Definition params_before : params := mkParams 512 8 256 64 300 true false false false true.
(* the code with the fixes of work/fixes/c08-handler-shell.diff and c08-send-deadline.diff *)
Definition params_fixed : params := mkParams 512 8 256 64 300 false true true true true.

(* the fixes that clean_end needs *)
Definition good (p : params) : bool :=
  negb (disc_blocking p) && sender_discards p && queue_discarded p && write_deadline p
  && (1 <=? cap_disc p) && (1 <=? cap_send p) && (1 <=? cap_queue p).

(* ------------------------------------------------------------------ the measure of C08_clean_end *)

Definition main_rank (m : mainpc) : nat :=
  match m with
  | MBlockSend => 40 | MBlockDisc => 40 | MLoop => 30 | MSelect => 29
  | MHD => 20 | MLeave => 15 | MCancel => 10 | MWait => 5 | MPanicking => 1
  | MReturned => 0 | MPanicked => 0
  end.

Definition recv_rank (r : recvpc) : nat :=
  match r with RHave _ => 7 | RIdle => 3 | RReading => 2 | RFailed => 1 | RDone => 0 end.

Definition snd_rank (x : sendpc) : nat :=
  match x with SHave => 5 | SIdle => 3 | SFailed => 2 | SSink => 1 | SDone => 0 end.

(* every quiet step of the server decreases it (ConnProofs.measure_decreases) *)
Definition measure (s : state) : nat :=
  main_rank (main s) + recv_rank (recv s) + snd_rank (snd s)
  + 6 * length (net_in s) + 1 * length (queue s) + 3 * pend s + 3 * sendq s
  + (if frame_blocked s then 0 else 1) + (if crashed s then 0 else 1).

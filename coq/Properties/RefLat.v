(* Properties/RefLat.v — predicate soundness for the latency clause of C04 (Preds3.v: P_C04_lat, violation code 450: a
   SIGNED_LATENCY_RESPONSE delivered to a connection echoes the request id of the measurement RUNNING on that
   connection and never the id of a refused request) and for P_C04_full = P_C04 ++ P_C04_lat, the predicate the C04
   check evaluates.  Statements only; proofs are in proofs/RefLat.v.

   FINDING.  Clause 450 is NOT true of the model on every history: nothing in the model (nor in the server) makes
   request ids unique, and a client that reuses, for an accepted signed-latency request, the id of a request that was
   refused earlier on the same connection gets a (correct) response whose id is in [lq_refused]
   ([RefLat_C04_lat_refuted], 13 operations).  The clause is true - and proved - under the side condition the
   harness guarantees: request ids are not reused.  The side condition is stated twice, both decidable:
   [uniq_lat_rids t] on the trace (the signed-latency requests CONSUMED on one connection carry pairwise distinct
   ids) and [uniq_lat_sends h] on the operations (the same of the requests SENT), and the second implies the first
   ([RefLat_uniq_sends_rids]).  The part of the clause that does not mention refused ids - a response echoes the
   running measurement - holds unconditionally ([RefLat_relation], [RefLat_responses_echo_running]). *)
From hagall Require Import Model Spec Obs Preds Preds2 Preds3.
From hagall.proofs Require Import Inv Reach Refine2 RefSched RefLat.

(* ================= (1) the relation between the predicate's bookkeeping and the model, unconditional ================= *)
(* after EVERY history, for EVERY connection (in a session or not, open or closed): the predicate has a running entry
   iff the model's record of the connection holds a measurement with rounds left, and the entry is its request id
   ([latq_state]: the predicate's state after the trace; a departure does not clear the measurement - neither side
   forgets it -, a successful join clears it on both sides) *)
Theorem RefLat_relation : ∀ cfg h, short h →
  let st := final cfg h in let s := latq_state cfg (run cfg h) in
  ∀ c, lq_run s !! c = match conns st !! c ≫= c_lat with
                       | Some l => if 0 <? l_iter l then Some (l_rid l) else None
                       | None => None end.
Proof. exact model_lat_relation. Qed.
Print Assumptions RefLat_relation.

(* the invariant of the model behind it: a measurement with rounds left has exactly one outstanding ping (the last),
   a finished one has none - so a finished measurement never produces a second response *)
Theorem RefLat_measurement_shape : ∀ cfg h, short h →
  ∀ c l, conns (final cfg h) !! c ≫= c_lat = Some l →
    ∃ A, if 0 <? l_iter l then ∃ x, l_pings l = map (λ id, (id, true)) A ++ [(x, false)]
         else l_pings l = map (λ id, (id, true)) A.
Proof. exact model_lat_shape. Qed.
Print Assumptions RefLat_measurement_shape.

(* the model-level content of the clause: whatever the next operation is, every SIGNED_LATENCY_RESPONSE it delivers
   goes to a connection whose measurement is running and echoes that measurement's request id *)
Theorem RefLat_responses_echo_running : ∀ cfg h o, short (h ++ [o]) →
  let st := final cfg h in let e := ev_of st o (step cfg st o) in
  ∀ c rid, (c, rid) ∈ lat_responses (ev_outs e) →
    ∃ l, conns st !! c ≫= c_lat = Some l ∧ 0 < l_iter l ∧ l_rid l = rid.
Proof.
  intros cfg h o Hs st e c rid Hin. pose proof (model_lat_responses cfg h o Hs c rid Hin) as H.
  unfold latv, run_of in H. fold st in H. destruct (conns st !! c ≫= c_lat) as [l|]; [|done]. simpl in H.
  exists l. split; [done|]. destruct (N.ltb_spec 0 (l_iter l)); [|done]. by injection H as ->.
Qed.
Print Assumptions RefLat_responses_echo_running.

(* ================= (2) the clause is false of the model when request ids are reused ================= *)
(* [lat_reuse] (proofs/RefLat.v): connection 1 joins; RSignedLatency with id 5 and 0 rounds is refused; RSignedLatency
   with the SAME id 5 and 3 rounds is accepted; its three pings are answered; the response echoes 5.  Clause 450
   fires at event 12 on the model's own trace; P_C04 itself is silent.  No shorter history can be flagged: a
   response needs a connection (1 operation), a join, an accepted request and three answers (2 operations each),
   the refusal one more request. *)
Theorem RefLat_C04_lat_refuted :
  ∃ cfg h, short h ∧ lat_reqs (run cfg h) = [(1, 5); (1, 5)] ∧
    map (λ v, (v_index v, v_code v, v_info v)) (P_C04_lat cfg (run cfg h)) = [(12%nat, 450%Z, [1%Z; 5%Z])] ∧
    P_C04 cfg (run cfg h) = [].
Proof. exact C04_lat_refuted. Qed.
Print Assumptions RefLat_C04_lat_refuted.

(* ================= (3) the clause holds when request ids are not reused ================= *)
(* side condition on the trace (decidable): [uniq_lat_rids t := NoDup (lat_reqs t)], [lat_reqs t] = the pairs
   (connection, request id) of the signed-latency requests consumed in t *)
Theorem RefLat_model_passes_C04_lat : ∀ cfg h, short h → uniq_lat_rids (run cfg h) → P_C04_lat cfg (run cfg h) = [].
Proof. exact model_passes_C04_lat. Qed.
Print Assumptions RefLat_model_passes_C04_lat.

Theorem RefLat_model_passes_C04_full : ∀ cfg h, short h → uniq_lat_rids (run cfg h) → P_C04_full cfg (run cfg h) = [].
Proof. exact model_passes_C04_full. Qed.
Print Assumptions RefLat_model_passes_C04_full.

(* conversely: a violation of the clause on the model's own trace always is a reused id *)
Theorem RefLat_violation_is_reuse : ∀ cfg h, short h → P_C04_lat cfg (run cfg h) ≠ [] → ¬ uniq_lat_rids (run cfg h).
Proof. exact C04_lat_violation_is_reuse. Qed.

(* the relation behind it: the running measurement is none of the refused requests, and what the predicate remembers
   are ids of signed-latency requests the connection did consume *)
Theorem RefLat_refused_relation : ∀ cfg h, short h → uniq_lat_rids (run cfg h) →
  let s := latq_state cfg (run cfg h) in
  (∀ c r, lq_run s !! c = Some r → r ∉ default ∅ (lq_refused s !! c)) ∧
  (∀ c r, lq_run s !! c = Some r ∨ r ∈ default ∅ (lq_refused s !! c) → (c, r) ∈ lat_reqs (run cfg h)).
Proof. exact model_lat_refused. Qed.
Print Assumptions RefLat_refused_relation.

(* ================= (4) the side condition on the operations of the history ================= *)
(* what the harness controls is what it sends: [uniq_lat_sends h := NoDup (lat_sends h)], [lat_sends h] = the pairs
   (connection, request id) of the operations [OSend c (RSignedLatency rid _ _)] of h.  A request sent once is queued
   at most once and consumed at most once (on every connection the consumed requests together with the queued ones
   are a sub-multiset of the sent ones), so: *)
Theorem RefLat_uniq_sends_rids : ∀ cfg h, short h → uniq_lat_sends h → uniq_lat_rids (run cfg h).
Proof. exact uniq_sends_rids. Qed.
Print Assumptions RefLat_uniq_sends_rids.

Theorem RefLat_model_passes_C04_full_sends : ∀ cfg h, short h → uniq_lat_sends h → P_C04_full cfg (run cfg h) = [].
Proof. exact model_passes_C04_full_sends. Qed.
Print Assumptions RefLat_model_passes_C04_full_sends.

(* ================= a concrete history ================= *)
(* connection 1 joins; a 3-round measurement with request id 2 starts and its first ping is answered; a second
   signed-latency request (id 3, 0 rounds) is refused while the measurement runs; the remaining two pings are
   answered; the response echoes 2 *)
Definition reflat_demo : list op :=
  [OConnect 1; OSend 1 (RJoin 1 SNew 1); OStep 1 0;
   OSend 1 (RSignedLatency 2 3 77); OStep 1 0;
   OSend 1 (RPingResp 1); OStep 1 0;
   OSend 1 (RSignedLatency 3 0 1); OStep 1 0;
   OSend 1 (RPingResp 2); OStep 1 0;
   OSend 1 (RPingResp 3); OStep 1 0].
(* the predicate's state, readable *)
Definition reflat_show (s : latq) :=
  (map_to_list (lq_run s), map (λ kv : N * gset N, (kv.1, elements kv.2)) (map_to_list (lq_refused s))).
(* tampering: every response echoes [rid] instead *)
Definition reflat_tamper (rid : N) (t : trace) : trace :=
  map (λ e, {| ev_op := ev_op e; ev_req := ev_req e;
               ev_outs := map (λ d : delivery, match d.2 with
                                               | MSignedLatencyResp _ n ids u cl w s g => (d.1, MSignedLatencyResp rid n ids u cl w s g)
                                               | _ => d end) (ev_outs e);
               ev_verdict := ev_verdict e |}) t.

Example RefLat_nonvacuous :
  let cfg := lat_cfg in let t := run cfg reflat_demo in
  short reflat_demo ∧
  (* both side conditions hold *)
  bool_decide (uniq_lat_sends reflat_demo) = true ∧ bool_decide (uniq_lat_rids t) = true ∧
  lat_sends reflat_demo = [(1, 2); (1, 3)] ∧ lat_reqs t = [(1, 2); (1, 3)] ∧
  (* what the latency requests and the answers to pings are answered with *)
  omap (λ e, match ev_req e with Some (RPingResp _ | RSignedLatency _ _ _) => Some (ev_outs e) | _ => None end) t =
    [[(1, MPingReq 1)]; [(1, MPingReq 2)]; [(1, MError 3 E_BAD_REQUEST)]; [(1, MPingReq 3)];
     [(1, MSignedLatencyResp 2 3 [1; 2; 3] 1 1 77 true true)]] ∧
  (* after the refusal (9 operations): the measurement with id 2 is running on both sides, 3 is refused *)
  reflat_show (latq_state cfg (run cfg (take 9 reflat_demo))) = ([(1, 2)], [(1, [3])]) ∧
  map (λ kv : N * conn, (kv.1, (λ l, (l_rid l, l_iter l, l_pings l)) <$> c_lat kv.2))
      (map_to_list (conns (final cfg (take 9 reflat_demo)))) = [(1, Some (2, 2, [(1, true); (2, false)]))] ∧
  (* at the end: nothing is running *)
  reflat_show (latq_state cfg t) = ([], [(1, [3])]) ∧
  (* the predicate is silent on the whole run *)
  P_C04_full cfg t = [] ∧
  (* and not vacuously: a response that echoes the refused id 3, or an id never seen, is reported *)
  map (λ v, (v_index v, v_code v, v_info v)) (P_C04_lat cfg (reflat_tamper 3 t)) = [(12%nat, 450%Z, [1%Z; 3%Z])] ∧
  map (λ v, (v_index v, v_code v, v_info v)) (P_C04_lat cfg (reflat_tamper 9 t)) = [(12%nat, 450%Z, [1%Z; 9%Z])].
Proof. vm_compute. repeat split; reflexivity. Qed.

(* Properties/C10.v — Server-issued ids never collide and are never reissued within a session.
   Only statements; proofs are in proofs/PC10.v, proofs/Inv.v, proofs/WF.v, proofs/Mono.v. *)
From stdpp Require Import relations.
From Coq Require Import String.
From hagall Require Import Model Gen.
From hagall.proofs Require Import Relay Inv Session Local Trans WF Mono Reach PC10.

(* regenerated from the Go sources: Reuse is only ever called on the session-id and frame-handler-id generators;
   participant, entity, component-type and asset-instance ids are never recycled *)
Theorem C10_source_facts : Gen.id_reuse_sites = ["frameHandlerIDs"; "ids"]%string.
Proof. reflexivity. Qed.

(* the id source, for every sequence of allocations and releases of any length and every resolution of the
   choice among reusable ids (Go map order): an id handed out is never one that is in use *)
Theorem C10_idgen_histories : ∀ ops g live issued,
  gen_inv g live → g_cur g + N.of_nat (length ops) < two32 →
  (∀ id l, (id, l) ∈ issued → id ∉ l) →
  ∀ id l, (id, l) ∈ (grun ops g live issued).2 → id ∉ l.
Proof. exact idgen_histories. Qed.
Print Assumptions C10_idgen_histories.

(* two live sessions never share an id: the id handed to a new session is not registered, whatever reusable id
   the implementation picks *)
Theorem C10_session_id_fresh : ∀ hint st n st', inv st → nowrap st → create_session hint st = (n, st') →
  parts_of st n = None ∧
  (∀ c, cur_of st' c = cur_of st c) ∧ (∀ c, open_of st' c = open_of st c) ∧
  (∀ s, parts_of st' s = if decide (s = n) then Some ∅ else parts_of st s) ∧
  (∀ s, pgen_of st' s = if decide (s = n) then Some 0 else pgen_of st s) ∧
  (∀ s, s ∈ g_reuse (sids st') → s ≤ g_cur (sids st')) ∧
  (∀ s, (s = n ∨ is_Some (parts_of st s)) → s ∉ g_reuse (sids st') ∧ s ≤ g_cur (sids st')) ∧
  g_cur (sids st) ≤ g_cur (sids st').
Proof. exact create_session_proj. Qed.
Theorem C10_reachable_inv : ∀ cfg h st k, inv st → bounded k st → k + N.of_nat (length h) < two32 →
  inv (run_from cfg st h).2 ∧ bounded (k + N.of_nat (length h)) (run_from cfg st h).2.
Proof. exact reachable_inv. Qed.

(* inside one session: participant, entity, asset-instance and type ids are issued by incrementing counters that
   never decrease, and everything that exists carries an id at most the counter - so an id is never issued twice,
   not even after its holder is gone.  One step of the session (any request, departure or join): *)
Theorem C10_ids_only_grow : ∀ cfg k SS SS', k + 1 < two32 → wf cfg k SS → sess_trans cfg (Some SS) (Some SS') → stable SS SS'.
Proof. exact stable_trans. Qed.
Print Assumptions C10_ids_only_grow.
(* every session of every reachable state: ids in use are below the counters, type names and ids map one to one,
   asset-instance ids are pairwise distinct *)
Theorem C10_reachable_wf : ∀ cfg h sid SS, short h → sessions (final cfg h) !! sid = Some SS →
  wf cfg (4 * N.of_nat (length h)) SS.
Proof. exact reachable_wf. Qed.
Print Assumptions C10_reachable_wf.

Example C10_nonvacuous :
  (* allocate 1,2,3; release 2 and 1; allocate twice choosing 1 then (stale hint) the minimum; then a new one *)
  map (λ x : N * gset N, (fst x, set_to_sorted (snd x)))
      (grun [GNew 0; GNew 0; GNew 0; GRelease 2; GRelease 1; GNew 1; GNew 1; GNew 0] gen0 ∅ []).2
  = [(1, []); (2, [1]); (3, [1; 2]); (1, [3]); (2, [1; 3]); (4, [1; 2; 3])].
Proof. vm_compute. reflexivity. Qed.

(* Properties/C06.v — A departure removes exactly the leaver's non-persistent entities and attachments.
   Only statements; proofs are in proofs/PC06.v, proofs/PC02.v, proofs/WF.v. *)
From stdpp Require Import relations.
From hagall Require Import Model.
From hagall.proofs Require Import Relay Inv Session Local Trans WF Mono Reach PC02 PC06.

(* [removed cfg own SS e]: e is one of the leaver's own entities (Participant.entityIDs), still exists and is not persistent.
   The session a departure leaves behind - for ANY cause, see C06_every_cause - differs from the one before in exactly
   this: the removed entities and all their components are gone, the leaver is no longer a participant, a frame
   handler or a subscriber of any type; type registry, counters and incarnation are untouched. *)
Theorem C06_leave_exact : ∀ cfg c p own SS,
  let L := left_session cfg c p own SS in
  (∀ e, s_ents L !! e = if bool_decide (removed own SS e) then None else s_ents SS !! e) ∧
  (∀ t e, st_comps (s_store L) !! (t, e) = if bool_decide (removed own SS e) then None else st_comps (s_store SS) !! (t, e)) ∧
  st_names (s_store L) = st_names (s_store SS) ∧ st_ids (s_store L) = st_ids (s_store SS) ∧
  st_subs (s_store L) = (λ s : gset N, s ∖ {[p]}) <$> st_subs (s_store SS) ∧
  s_parts L = delete p (s_parts SS) ∧ s_frames L = s_frames SS ∖ {[c]} ∧
  s_pgen L = s_pgen SS ∧ s_egen L = s_egen SS ∧ s_agen L = s_agen SS ∧ s_uuid L = s_uuid SS.
Proof. exact left_fields. Qed.
Print Assumptions C06_leave_exact.

(* entity actions and asset instances of the removed entities go with them: what remains is attached to
   entities that remain (well-formedness is preserved by a departure) *)
Theorem C06_attachments_follow : ∀ cfg k SS c p own, wf cfg k SS → wf cfg k (left_session cfg c p own SS).
Proof. exact wf_left. Qed.
Print Assumptions C06_attachments_follow.

(* persistent entities survive with everything attached to them *)
Theorem C06_persistent_survive : ∀ cfg c p own SS e ent,
  s_ents SS !! e = Some ent → e_persist ent = true →
  s_ents (left_session cfg c p own SS) !! e = Some ent ∧
  (∀ t, st_comps (s_store (left_session cfg c p own SS)) !! (t, e) = st_comps (s_store SS) !! (t, e)).
Proof. exact persistent_survive. Qed.
Theorem C06_persistent_keep_modules : ∀ cfg c p own SS e ent n,
  s_ents SS !! e = Some ent → e_persist ent = true →
  s_actions (left_session cfg c p own SS) !! (e, n) = s_actions SS !! (e, n) ∧
  s_assets (left_session cfg c p own SS) !! e = s_assets SS !! e.
Proof. exact persistent_keep_modules. Qed.
Print Assumptions C06_persistent_keep_modules.

(* the remaining participants are told once about each removed entity and then once about the departure *)
Theorem C06_told_once : ∀ cfg st c cn sid p SS,
  conns st !! c = Some cn → c_cur cn = Some (sid, p) → sessions st !! sid = Some SS →
  flag_on cfg F_ENTITY_DELETE_B = false → flag_on cfg F_LEAVE_B = false →
  let S2 := set_store (store_set_subs (fmap (λ s : gset N, s ∖ {[p]}))) (module_disconnect cfg (c_own cn) SS) in
  (leave cfg st c).2 =
    flat_map (λ eid, broadcast SS p (MEntityDeleteB 0 eid)) (doomed S2 (c_own cn)) ++
    broadcast (left_session cfg c p (c_own cn) SS) p (MLeaveB p).
Proof. exact leave_outputs. Qed.
Theorem C06_removed_listed_once : ∀ cfg p own SS e,
  removed own SS e ↔ e ∈ doomed (set_store (store_set_subs (fmap (λ s : gset N, s ∖ {[p]}))) (module_disconnect cfg own SS)) own.
Proof. exact removed_doomed. Qed.
Theorem C06_removed_distinct : ∀ SS own, NoDup (doomed SS own).
Proof. exact doomed_NoDup. Qed.
Theorem C06_leave_relayed_once : ∀ cfg c p own SS, parts_injective SS → s_parts SS !! p = Some c →
  let L := left_session cfg c p own SS in
  (∀ cq m', (cq, m') ∈ broadcast L p (MLeaveB p) ↔ m' = MLeaveB p ∧ ∃ q, s_parts SS !! q = Some cq ∧ q ≠ p) ∧
  NoDup (map fst (broadcast L p (MLeaveB p))) ∧ c ∉ map fst (broadcast L p (MLeaveB p)).
Proof. exact leave_broadcast_once. Qed.

(* every way a connection ends in the model - disconnect for any cause, a handler error, a receiver-side decode
   failure - is the same departure; a switching join performs it first (by the definition of [join]) *)
Theorem C06_every_cause : ∀ cfg st c, (disconnect cfg st c).2 = (leave cfg st c).2 ∧
  sessions (disconnect cfg st c).1 = sessions (leave cfg st c).1.
Proof. exact disconnect_is_leave. Qed.

Definition c06_demo : list op :=
  [OConnect 1; OConnect 2; OSend 1 (RJoin 1 SNew 1); OStep 1 0; OSend 2 (RJoin 2 (SId 1) 2); OStep 2 0;
   OSend 2 (REntityAdd 3 false 0 None 3); OStep 2 0; OSend 2 (REntityAdd 4 true 0 None 4); OStep 2 0;
   OSend 2 (RTypeAdd 5 9); OStep 2 0; OSend 2 (RCompAdd 6 1 1 70 6); OStep 2 0; OSend 2 (RCompAdd 7 1 2 71 7); OStep 2 0;
   OSend 2 (RSubscribe 8 1); OStep 2 0].
Example C06_nonvacuous :
  let cfg := {| cfg_flags := []; cfg_vikja := true; cfg_odal := true; cfg_dagaz := false |} in
  let st' := (step cfg (final cfg c06_demo) (ODisconnect 2)).1.1 in
  (* entity 1 (not persistent) and its component are gone, entity 2 (persistent) and its component stay,
     the leaver's subscription ended; participant 1 was told: delete 1, leave 2 *)
  (match sessions st' !! 1 with
   | Some SS => (map fst (map_to_list (s_ents SS)), map fst (map_to_list (st_comps (s_store SS))),
                 elements (subs_of (s_store SS) 1), map fst (map_to_list (s_parts SS)))
   | None => ([], [], [], []) end) = ([2], [(1, 2)], [], [1]) ∧
  (step cfg (final cfg c06_demo) (ODisconnect 2)).1.2 = [(1, MEntityDeleteB 0 1); (1, MLeaveB 2)].
Proof. vm_compute. split; reflexivity. Qed.

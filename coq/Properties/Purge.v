(* Properties/Purge.v — C03, the noninterference experiment (Purge.v) on the model.
   "Apart from the session ids themselves, the messages the members of one session receive are the
   same whether or not other sessions exist and whatever happens in them": run a history in full and
   with the traffic of every connection outside a group [A] removed ([purge_hist]); the judge
   [P_purge] walks the two traces side by side.  On the model, for every configuration, every group
   and every history (short enough that no uint32 counter wraps - the hypothesis [short] of the whole
   development), the judge never reports a violation (330 a delivery from outside, 331 different
   messages, 332 different verdicts, 333 different digests, 334 memberships not a renaming) and never a
   harness error (391 / 392: the purged trace built by [purge_hist] is the purge of the full one).
   The only reports are 397 / 398 / 399 ("the experiment does not apply to this history").
   Only statements; proofs are in proofs/Purge1.v .. proofs/Purge7.v. *)
From stdpp Require Import relations.
From hagall Require Import Model Obs Purge.
From hagall.proofs Require Import Reach Purge7.
Local Open Scope N_scope.

Theorem C03_purge_noninterference : ∀ cfg A h, short h →
  Forall (λ v, is_skip_code (v_code v) = true) (model_purge cfg A h).
Proof. exact purge_noninterference_short. Qed.
Print Assumptions C03_purge_noninterference.

Theorem C03_purge_wellformed : ∀ cfg A h, short h →
  Forall (λ v, v_code v ≠ 391%Z ∧ v_code v ≠ 392%Z) (model_purge cfg A h).
Proof. exact purge_wellformed_short. Qed.
Print Assumptions C03_purge_wellformed.

(* the same under the weaker bound actually used (the session-id counter does not wrap) *)
Theorem C03_purge_noninterference_bound : ∀ cfg A h, N.of_nat (length h) < two32 →
  Forall (λ v, is_skip_code (v_code v) = true) (model_purge cfg A h).
Proof. exact purge_noninterference. Qed.
Print Assumptions C03_purge_noninterference_bound.

Theorem C03_purge_wellformed_bound : ∀ cfg A h, N.of_nat (length h) < two32 →
  Forall (λ v, v_code v ≠ 391%Z ∧ v_code v ≠ 392%Z) (model_purge cfg A h).
Proof. exact purge_wellformed. Qed.
Print Assumptions C03_purge_wellformed_bound.

(* exactly which reports are possible *)
Theorem C03_purge_codes : ∀ cfg A h, N.of_nat (length h) < two32 →
  Forall (λ v, v_code v = 397%Z ∨ v_code v = 398%Z ∨ v_code v = 399%Z) (model_purge cfg A h).
Proof. exact purge_codes. Qed.
Print Assumptions C03_purge_codes.

(* ---------- the experiment applies and is not vacuous ---------- *)
Definition purge_cfg : config := {| cfg_flags := []; cfg_vikja := true; cfg_odal := true; cfg_dagaz := false |}.

(* connections 1 and 2 form the group; connection 5 lives in sessions of its own.  Sessions are created,
   switched, left, session ids are recycled under different numbers in the two runs (hints 7, 3),
   entities / components / subscriptions / pending updates flushed by a frame, a join by a dead id,
   a handler error ending connection 1 *)
Definition purge_demo : list op :=
  [OConnect 5; OSend 5 (RJoin 1 SNew 0); OStep 5 0;
   OConnect 1; OConnect 2; OSend 1 (RJoin 1 SNew 0); OStep 1 0; OSend 2 (RJoin 1 SNew 0); OStep 2 7;
   OSend 1 (REntityAdd 1 true 0 None 0); OStep 1 0; OSend 1 (REntityAdd 2 false 0 None 0); OStep 1 0;
   OSend 2 (RJoin 9 (SId 2) 4); OStep 2 0;
   OSend 5 (RJoin 2 SNew 0); OStep 5 3;
   OSend 2 (RTypeAdd 3 11); OStep 2 0; OSend 2 (RCompAdd 4 1 1 77 5); OStep 2 0; OSend 1 (RSubscribe 5 1); OStep 1 0;
   OSend 2 (RCompUpdate 1 1 78 6); OTick 2; OStep 2 0;
   OSend 1 (RJoin 10 SNew 0); OStep 1 0;
   OSend 2 (REntityDelete 1 1 0); OStep 2 0;
   OSend 2 (RPose 1 None 0); OSend 2 (REntityAdd 7 false 0 None 0); OStep 2 0; OStep 2 0;
   OSend 2 (RJoin 11 (SId 1) 0); OStep 2 0; OSend 5 (RCustom [] [1;2] 3); OStep 5 0; OTick 3;
   OSend 2 (RJoin 12 (SId 4) 0); OStep 2 0;
   OSend 1 (RUndecodable 3); OStep 1 0; OSnap; OStep 2 0; ODisconnect 5].

Example C03_purge_nonvacuous :
  short purge_demo ∧
  model_purge purge_cfg [1; 2]%N purge_demo = [] ∧
  (length (purge_hist purge_cfg [1; 2]%N purge_demo) <? length purge_demo)%nat = true ∧
  (* the purged run names the sessions differently: the join by id 2 becomes a join by id 1 *)
  nth_error (purge_hist purge_cfg [1; 2]%N purge_demo) 10 = Some (OSend 2 (RJoin 9 (SId 1) 4)).
Proof. split; [by vm_compute|]. vm_compute. repeat split; reflexivity. Qed.

(* a group that is not separated: connection 3 (outside) joins the session of connection 1 *)
Example C03_purge_not_separated :
  map v_code (model_purge purge_cfg [1; 2]%N
    [OConnect 1; OConnect 3; OSend 1 (RJoin 1 SNew 0); OStep 1 0; OSend 3 (RJoin 1 (SId 1) 0); OStep 3 0;
     OSend 1 (RCustom [] [7] 9); OStep 1 0]) = [399%Z].
Proof. vm_compute. reflexivity. Qed.

(* the other two "does not apply" reports: a server-wide resource (the receipt channel), and a join by an
   id whose liveness changed between send and step *)
Example C03_purge_global_request :
  map v_code (model_purge purge_cfg [1; 2]%N
    [OConnect 1; OSend 1 (RJoin 1 SNew 0); OStep 1 0; OSend 1 (RReceipt 4 1 2 3); OStep 1 0]) = [398%Z].
Proof. vm_compute. reflexivity. Qed.
Example C03_purge_join_liveness_changed :
  map v_code (model_purge purge_cfg [1; 2]%N
    [OConnect 1; OConnect 2; OConnect 3; OSend 3 (RJoin 1 SNew 0); OStep 3 0;
     OSend 1 (RJoin 5 (SId 2) 0); OSend 2 (RJoin 1 SNew 0); OStep 2 0; OStep 1 0]) = [397%Z].
Proof. vm_compute. reflexivity. Qed.

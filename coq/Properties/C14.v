(* Properties/C14.v — Custom messages reach exactly the addressed members, unmodified, within limit.
   Only statements: every proof is `exact` of a lemma in proofs/PC14.v. *)
From hagall Require Import Model Gen.
From hagall.proofs Require Import Relay Session PC14.

(* the limit and the comparison in the Go source (regenerated on every run) are the model's *)
Theorem C14_limit_constant :
  Gen.custom_message_max_size = Some custom_max ∧ Gen.custom_limit_strict = Some true.
Proof. split; reflexivity. Qed.

(* In every reachable state, a member's custom message whose body is within the limit changes no state and
   is handed, byte for byte and stamped with the sender's participant id, exactly to the addressed members
   (all others when no recipient is named; otherwise the named members, ignoring duplicates, unknown ids
   and the sender), each exactly once, never to the sender. *)
Theorem C14_delivery : ∀ cfg h c cn sid p SS rcpts body ots hint,
  N.of_nat (length h) < two32 → let st := final cfg h in
  conns st !! c = Some cn → c_cur cn = Some (sid, p) → sessions st !! sid = Some SS →
  flag_on cfg F_CUSTOM_B = false → N.of_nat (length body) ≤ custom_max →
  ∃ outs, handle cfg st c (RCustom rcpts body ots) hint = (st, outs, VOk) ∧
    (∀ cq m, (cq, m) ∈ outs ↔ m = MCustomB ots p body ∧ ∃ q, c14_target SS p rcpts q ∧ s_parts SS !! q = Some cq) ∧
    NoDup (map fst outs) ∧ c ∉ map fst outs.
Proof. exact c14_delivery. Qed.
Print Assumptions C14_delivery.

Theorem C14_too_large : ∀ cfg h c cn sid p SS rcpts body ots hint,
  let st := final cfg h in
  conns st !! c = Some cn → c_cur cn = Some (sid, p) → sessions st !! sid = Some SS →
  custom_max < N.of_nat (length body) →
  handle cfg st c (RCustom rcpts body ots) hint = (st, [(c, MError 0 E_TOO_LARGE)], VOk).
Proof. exact c14_too_large. Qed.
Print Assumptions C14_too_large.

Theorem C14_unjoined : ∀ cfg st c cn rcpts body ots hint,
  conns st !! c = Some cn → c_cur cn = None →
  handle cfg st c (RCustom rcpts body ots) hint = (st, [], VErr).
Proof. exact c14_unjoined. Qed.
Print Assumptions C14_unjoined.

(* the hypotheses are met by a non-trivial reachable state: three members, message to participants 2, 2, 9 and the sender *)
Example C14_nonvacuous :
  let st := final {| cfg_flags := []; cfg_vikja := true; cfg_odal := true; cfg_dagaz := false |} c14_demo in
  (handle {| cfg_flags := []; cfg_vikja := true; cfg_odal := true; cfg_dagaz := false |} st 1
          (RCustom [2; 2; 9; 1] [7; 8; 9] 5) 0).1.2 = [(2, MCustomB 5 1 [7; 8; 9])].
Proof. vm_compute. reflexivity. Qed.

(* Properties/C18.v — A signed latency report is authentic, bound to its request and self-consistent.
   The measurement state machine; clock readings, Keccak-256 and the signature are outside the model
   (checked on the implementation's output by the harness).  Only statements; proofs are in proofs/PC18.v. *)
From hagall Require Import Model Gen.
From hagall.proofs Require Import PC18.

(* regenerated from HandleSignedLatency on every run: the iteration bounds are the model's *)
Theorem C18_bounds : Gen.lat_min_iter = Some lat_min ∧ Gen.lat_max_iter = Some lat_max.
Proof. split; reflexivity. Qed.

(* a measurement is started only for a joined participant asking for 3..50 rounds with a wallet *)
Theorem C18_start_unjoined : ∀ cfg st c cn rid n w hint,
  handle_unjoined cfg st c cn (RSignedLatency rid n w) hint = (st, [(c, MError rid E_UNAUTHORIZED)], VOk).
Proof. exact start_unjoined. Qed.
Theorem C18_start_refused : ∀ cfg st c cn sid p SS rid n w hint code,
  start_refusal true n w = Some code →
  handle_joined cfg st c cn sid p SS (RSignedLatency rid n w) hint = (st, [(c, MError rid code)], VOk).
Proof. exact start_refused. Qed.
Theorem C18_start_accepted : ∀ cfg st c cn sid p SS rid n w hint,
  start_refusal true n w = None → next_ping st + 1 < two32 →
  let id := next_ping st + 1 in
  let l := {| l_rid := rid; l_iter := n; l_pings := [(id, false)]; l_uuid := s_uuid SS; l_client := c; l_wallet := w |} in
  ∃ st', handle_joined cfg st c cn sid p SS (RSignedLatency rid n w) hint = (upd_conn c (set_lat (Some l)) st', [(c, MPingReq id)], VOk) ∧
    sessions st' = sessions st ∧ conns st' = conns st ∧ next_ping st' = id ∧ 3 ≤ n ≤ 50 ∧ w ≠ 0 ∧ lat_inv n id l.
Proof. exact start_accepted. Qed.
Print Assumptions C18_start_accepted.

(* a ping response whose id is unknown or was already answered (also after completion, also with no measurement)
   is refused and does not advance the measurement: nothing changes *)
Theorem C18_refuse : ∀ st c cn rid,
  (c_lat cn = None ∨ ∃ l, c_lat cn = Some l ∧ rid ∉ unanswered l) →
  on_ping st c cn rid = (st, [(c, MError rid E_INTERNAL)], VOk).
Proof. exact ping_refused. Qed.
Print Assumptions C18_refuse.

(* an answer to the outstanding ping of a measurement of n rounds (invariant lat_inv: answered + rounds left = n,
   at most the last issued ping is unanswered, ids distinct): either exactly one more ping is issued, with a fresh id,
   and one more round is answered; or - when exactly n are answered - exactly one report, echoing the request id, n,
   exactly the n distinct ids issued, the session incarnation, the client and the wallet, after which every id is
   answered (so any further answer is refused by C18_refuse) *)
Theorem C18_rounds : ∀ st c cn rid l n,
  c_lat cn = Some l → lat_inv n (next_ping st) l → rid ∈ unanswered l → next_ping st + 1 < two32 →
  (∃ l' st', on_ping st c cn rid = (upd_conn c (set_lat (Some l')) st', [(c, MPingReq (next_ping st + 1))], VOk) ∧
     sessions st' = sessions st ∧ next_ping st' = next_ping st + 1 ∧ 0 < l_iter l' ∧
     lat_inv n (next_ping st + 1) l' ∧ answered l' = S (answered l) ∧ l_rid l' = l_rid l ∧
     l_uuid l' = l_uuid l ∧ l_client l' = l_client l ∧ l_wallet l' = l_wallet l) ∨
  (∃ l', on_ping st c cn rid =
       (upd_conn c (set_lat (Some l')) st,
        [(c, MSignedLatencyResp (l_rid l) n (map fst (l_pings l)) (l_uuid l) (l_client l) (l_wallet l) true true)], VOk) ∧
     l_iter l' = 0 ∧ lat_inv n (next_ping st) l' ∧ N.of_nat (length (l_pings l)) = n ∧ NoDup (map fst (l_pings l)) ∧
     unanswered l' = []).
Proof. exact ping_accepted. Qed.
Print Assumptions C18_rounds.

Definition c18_demo : list op :=
  [OConnect 1; OSend 1 (RJoin 1 SNew 1); OStep 1 0; OSend 1 (RSignedLatency 2 3 9); OStep 1 0;
   OSend 1 (RPingResp 1); OStep 1 0; OSend 1 (RPingResp 1); OStep 1 0; OSend 1 (RPingResp 2); OStep 1 0;
   OSend 1 (RPingResp 3); OStep 1 0; OSend 1 (RPingResp 3); OStep 1 0].
Example C18_nonvacuous :
  let cfg := {| cfg_flags := []; cfg_vikja := false; cfg_odal := false; cfg_dagaz := false |} in
  flat_map ev_outs (skipn 3 (run cfg c18_demo)) =
  [(1, MPingReq 1); (1, MPingReq 2); (1, MError 1 E_INTERNAL); (1, MPingReq 3);
   (1, MSignedLatencyResp 2 3 [1; 2; 3] 1 1 9 true true); (1, MError 3 E_INTERNAL)].
Proof. vm_compute. reflexivity. Qed.

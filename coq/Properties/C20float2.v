(* C20 (float clauses, second part) — "a vertical ray through the centre of a stored plane hits a
   plane ... The geometric primitives (dot, cross, normal, overlap test, ray-quad intersection)
   agree with exact-arithmetic references within floating-point tolerance".
   Statements only.  The bit-exact models are in GridFloat2.v:
     normal32     calculateNormal as repaired in /repo a7a0a67 (float64 arithmetic on Flocq's
                  binary64, result rounded to binary32; Go evaluation order; no fused multiply-add)
     overlap32    doHorizontalPlanesOverlap (binary32)
     intersect32  IntersectQuad (binary32; InRangeWithEpsilon with float32(0.0001))
   the proofs are in proofs/GridFloat2Proofs.v.  The theorems about real numbers depend on the
   axioms of Coq's standard library of reals (and classical logic through Flocq) and on nothing
   else: see the output of every Print Assumptions.

   Notation:  R32 x       the real number denoted by the float32 x (0 for inf / NaN)
              rnd32, rnd64   rounding to nearest even to binary32 / binary64 (subnormals included)
              nx_r e = -ez*ey   ny_r e = ez*ex   nz_r e = -ey*ex      the exact products
              len_r a b c = rnd64 (sqrt (rnd64 (rnd64 (rnd64 (a*a) + rnd64 (b*b)) + rnd64 (c*c))))
              nlen_r e = len_r (nx_r e) (ny_r e) (nz_r e)             the float64 length
              comp_r n L = rnd32 (rnd64 (n / L))                      one component
              nnorm_r e = sqrt (nx^2 + ny^2 + nz^2)                   the exact length
              quadQ q     the exact-rational quad of Grid.v with the same coordinates *)
From Coq Require Import ZArith Reals QArith Qreals Bool.
From Flocq Require Import Core IEEE754.BinarySingleNaN IEEE754.Binary IEEE754.Bits.
From hagall Require Import Grid GridObs GridFloat GridFloat2.
From hagall.proofs Require Import GridFloatProofs GridFloat2Proofs.

(* ================================================================== calculateNormal *)

(* ---- (a) horizontal quads: e.y = +0 or -0, e.x > 0, e.z > 0 — ANY positive finite float32,
        subnormals included — and ANY center: the normal is numerically (0, 1, 0) ... *)
Theorem C20f_normal_horizontal : forall c e : vec32, finite_vec32 e = true ->
  (R32 (fy e) = 0 -> 0 < R32 (fx e) -> 0 < R32 (fz e) ->
   let r := normal32 c e in
   finite_vec32 r = true /\ R32 (fx r) = 0 /\ R32 (fy r) = 1 /\ R32 (fz r) = 0 /\
   Bsign 24 128 (fx r) = negb (Bsign 24 128 (fy e)) /\ Bsign 24 128 (fz r) = negb (Bsign 24 128 (fy e)))%R.
Proof. exact normal32_horizontal. Qed.
Print Assumptions C20f_normal_horizontal.

(* ... and bit for bit it is (-0, 1, -0) when e.y = +0 and (+0, 1, +0) when e.y = -0 *)
Theorem C20f_normal_horizontal_bits : forall c e : vec32, finite_vec32 e = true ->
  (R32 (fy e) = 0 -> 0 < R32 (fx e) -> 0 < R32 (fz e) ->
   bits_of_vec32 (normal32 c e) =
   if Bsign 24 128 (fy e) then (0, 1065353216, 0)%Z else (2147483648, 1065353216, 2147483648)%Z)%R.
Proof. exact normal32_horizontal_bits. Qed.
Print Assumptions C20f_normal_horizontal_bits.

(* the same with the executable precondition of GridFloat2.v *)
Theorem C20f_normal_horizontal_b : forall c e : vec32, finite_vec32 e = true ->
  pos32 (fx e) = true -> is_zero32 (fy e) = true -> pos32 (fz e) = true ->
  bits_of_vec32 (normal32 c e) =
  if Bsign 24 128 (fy e) then (0, 1065353216, 0)%Z else (2147483648, 1065353216, 2147483648)%Z.
Proof. exact normal32_horizontal_b. Qed.
Print Assumptions C20f_normal_horizontal_b.

(* ---- (b) the repaired defect: for all finite extents with at least two non-zero components
        (i.e. whenever the exact normal is not the zero vector) the float32 normal is finite, every
        component is at most 1 in magnitude, one component is at least 1/2 in magnitude: it is
        never the zero vector *)
Theorem C20f_normal_nonzero : forall c e : vec32, finite_vec32 e = true ->
  ((R32 (fz e) <> 0 /\ R32 (fy e) <> 0) \/ (R32 (fz e) <> 0 /\ R32 (fx e) <> 0) \/
   (R32 (fy e) <> 0 /\ R32 (fx e) <> 0) ->
   let r := normal32 c e in
   finite_vec32 r = true /\
   Rabs (R32 (fx r)) <= 1 /\ Rabs (R32 (fy r)) <= 1 /\ Rabs (R32 (fz r)) <= 1 /\
   (/ 2 <= Rabs (R32 (fx r)) \/ / 2 <= Rabs (R32 (fy r)) \/ / 2 <= Rabs (R32 (fz r))) /\
   (R32 (fx r) <> 0 \/ R32 (fy r) <> 0 \/ R32 (fz r) <> 0))%R.
Proof. exact normal32_nonzero'. Qed.
Print Assumptions C20f_normal_nonzero.

Theorem C20f_normal_nonzero_b : forall c e : vec32, two_nonzero e = true ->
  (let r := normal32 c e in
   finite_vec32 r = true /\
   Rabs (R32 (fx r)) <= 1 /\ Rabs (R32 (fy r)) <= 1 /\ Rabs (R32 (fz r)) <= 1 /\
   (/ 2 <= Rabs (R32 (fx r)) \/ / 2 <= Rabs (R32 (fy r)) \/ / 2 <= Rabs (R32 (fz r))) /\
   (R32 (fx r) <> 0 \/ R32 (fy r) <> 0 \/ R32 (fz r) <> 0))%R.
Proof. exact normal32_nonzero_b. Qed.
Print Assumptions C20f_normal_nonzero_b.

(* "at least two non-zero extents" is "the exact normal is not zero" *)
Theorem C20f_normal_two_nonzero_iff : forall e : vec32,
  (nx_r e <> 0 \/ ny_r e <> 0 \/ nz_r e <> 0 <->
   (R32 (fz e) <> 0 /\ R32 (fy e) <> 0) \/ (R32 (fz e) <> 0 /\ R32 (fx e) <> 0) \/
   (R32 (fy e) <> 0 /\ R32 (fx e) <> 0))%R.
Proof. exact two_nonzero_iff. Qed.
Print Assumptions C20f_normal_two_nonzero_iff.

(* ---- what the function computes, for ALL finite extents with a non-zero exact normal: the three
        products are exact in float64 and can neither underflow nor overflow there, the float64
        length L is positive, every component of the result is finite, equals
        rnd32 (rnd64 (n_i / L)) and carries the sign of the exact product (also when it rounds to
        a zero) *)
Theorem C20f_normal_semantics : forall c e : vec32, finite_vec32 e = true ->
  (nx_r e <> 0 \/ ny_r e <> 0 \/ nz_r e <> 0 ->
   let L := nlen_r e in
   let r := normal32 c e in
   0 < L /\ finite_vec32 r = true /\
   R32 (fx r) = comp_r (nx_r e) L /\ R32 (fy r) = comp_r (ny_r e) L /\ R32 (fz r) = comp_r (nz_r e) L /\
   Bsign 24 128 (fx r) = xorb (negb (Bsign 24 128 (fz e))) (Bsign 24 128 (fy e)) /\
   Bsign 24 128 (fy r) = xorb (Bsign 24 128 (fz e)) (Bsign 24 128 (fx e)) /\
   Bsign 24 128 (fz r) = xorb (negb (Bsign 24 128 (fy e))) (Bsign 24 128 (fx e)))%R.
Proof. exact normal32_sem. Qed.
Print Assumptions C20f_normal_semantics.

(* at most one non-zero extent: a vector of zeros (Go: length == 0, nothing is divided) *)
Theorem C20f_normal_zero : forall c e : vec32, finite_vec32 e = true ->
  (nx_r e = 0 -> ny_r e = 0 -> nz_r e = 0 ->
   let r := normal32 c e in
   finite_vec32 r = true /\ R32 (fx r) = 0 /\ R32 (fy r) = 0 /\ R32 (fz r) = 0)%R.
Proof. exact normal32_zero. Qed.
Print Assumptions C20f_normal_zero.

(* never an infinity or a NaN for finite extents *)
Theorem C20f_normal_finite : forall c e : vec32, finite_vec32 e = true -> finite_vec32 (normal32 c e) = true.
Proof. exact normal32_finite. Qed.
Print Assumptions C20f_normal_finite.

(* ---- agreement with the exact-arithmetic reference: every component is within
        2^-24 + 2^-50 (half an ulp of float32 at 1, plus the float64 noise) of n_i / |n| *)
Theorem C20f_normal_accuracy : forall c e : vec32, finite_vec32 e = true ->
  (nx_r e <> 0 \/ ny_r e <> 0 \/ nz_r e <> 0 ->
   let r := normal32 c e in
   Rabs (R32 (fx r) - nx_r e / nnorm_r e) <= bpow radix2 (-24) + bpow radix2 (-50) /\
   Rabs (R32 (fy r) - ny_r e / nnorm_r e) <= bpow radix2 (-24) + bpow radix2 (-50) /\
   Rabs (R32 (fz r) - nz_r e / nnorm_r e) <= bpow radix2 (-24) + bpow radix2 (-50))%R.
Proof. exact normal32_accuracy. Qed.
Print Assumptions C20f_normal_accuracy.

(* the definitions used above, spelled out *)
Theorem C20f_normal_definitions : forall (e : vec32) (a b c n L : R),
  (nx_r e = - R32 (fz e) * R32 (fy e) /\ ny_r e = R32 (fz e) * R32 (fx e) /\ nz_r e = - R32 (fy e) * R32 (fx e) /\
   nlen_r e = len_r (nx_r e) (ny_r e) (nz_r e) /\
   len_r a b c = rnd64 (sqrt (rnd64 (rnd64 (rnd64 (a * a) + rnd64 (b * b)) + rnd64 (c * c)))) /\
   comp_r n L = rnd32 (rnd64 (n / L)) /\
   nnorm_r e = sqrt (nx_r e * nx_r e + ny_r e * ny_r e + nz_r e * nz_r e) /\
   rnd64 a = round radix2 (FLT_exp (-1074) 53) ZnearestE a /\
   rnd32 a = round radix2 (FLT_exp (-149) 24) ZnearestE a)%R.
Proof. intros. repeat split. Qed.
Print Assumptions C20f_normal_definitions.

(* ================================================================== doHorizontalPlanesOverlap *)

(* ---- the float32 decision is the exact-rational decision of Grid.overlap whenever the x and z
        coordinates satisfy |c| + |e| <= 2^k and each of the four exact differences the function
        compares with zero (minA.x - maxB.x, maxA.x - minB.x, minA.z - maxB.z, maxA.z - minB.z) is
        larger than 2^(k-24) in magnitude.  (y coordinates are arbitrary, even NaN.) *)
Theorem C20f_overlap_agrees : forall (k : Z) (a b : quad32), (-125 <= k <= 126)%Z ->
  xz_bounded k a -> xz_bounded k b -> ovl_guard (bpow radix2 (k - 24)) a b ->
  overlap32 a b = overlap (quadQ a) (quadQ b).
Proof. exact overlap32_agrees. Qed.
Print Assumptions C20f_overlap_agrees.

(* coordinates bounded by 64 (the bound of C20): guard 2^-17 (< 10^-5, the threshold under which
   the C20 oracle calls an overlap decision ill-conditioned); bounded by 128: guard 2^-16 *)
Theorem C20f_overlap_agrees_64 : forall a b : quad32, xz_within 64 a -> xz_within 64 b ->
  ovl_guard (bpow radix2 (-17)) a b -> overlap32 a b = overlap (quadQ a) (quadQ b).
Proof. exact overlap32_agrees_64. Qed.
Print Assumptions C20f_overlap_agrees_64.

Theorem C20f_overlap_agrees_128 : forall a b : quad32, xz_within 128 a -> xz_within 128 b ->
  ovl_guard (bpow radix2 (-16)) a b -> overlap32 a b = overlap (quadQ a) (quadQ b).
Proof. exact overlap32_agrees_128. Qed.
Print Assumptions C20f_overlap_agrees_128.

(* the guard follows from the conditioning margin the C20 oracle computes (GridObs.overlap_margin) *)
Theorem C20f_overlap_margin : forall (a b : quad32) (g : R),
  (g < Q2R (overlap_margin (quadQ a) (quadQ b)))%R -> ovl_guard g a b.
Proof. exact overlap_margin_guard. Qed.
Print Assumptions C20f_overlap_margin.

Theorem C20f_overlap_definitions : forall (k : Z) (B g : R) (q a b : quad32),
  (xz_bounded k q <->
     is_finite32 (fx (q32c q)) = true /\ is_finite32 (fx (q32e q)) = true /\
     is_finite32 (fz (q32c q)) = true /\ is_finite32 (fz (q32e q)) = true /\
     (Rabs (R32 (fx (q32c q))) + Rabs (R32 (fx (q32e q))) <= bpow radix2 k)%R /\
     (Rabs (R32 (fz (q32c q))) + Rabs (R32 (fz (q32e q))) <= bpow radix2 k)%R) /\
  (xz_within B q <->
     is_finite32 (fx (q32c q)) = true /\ is_finite32 (fx (q32e q)) = true /\
     is_finite32 (fz (q32c q)) = true /\ is_finite32 (fz (q32e q)) = true /\
     (Rabs (R32 (fx (q32c q))) <= B)%R /\ (Rabs (R32 (fx (q32e q))) <= B)%R /\
     (Rabs (R32 (fz (q32c q))) <= B)%R /\ (Rabs (R32 (fz (q32e q))) <= B)%R) /\
  (ovl_guard g a b <->
     (g < Rabs ((R32 (fx (q32c a)) - R32 (fx (q32e a))) - (R32 (fx (q32c b)) + R32 (fx (q32e b)))))%R /\
     (g < Rabs ((R32 (fx (q32c a)) + R32 (fx (q32e a))) - (R32 (fx (q32c b)) - R32 (fx (q32e b)))))%R /\
     (g < Rabs ((R32 (fz (q32c a)) - R32 (fz (q32e a))) - (R32 (fz (q32c b)) + R32 (fz (q32e b)))))%R /\
     (g < Rabs ((R32 (fz (q32c a)) + R32 (fz (q32e a))) - (R32 (fz (q32c b)) - R32 (fz (q32e b)))))%R) /\
  quadQ q = mkQuad (vecQ (q32c q)) (vecQ (q32e q)) (vecQ (q32n q)) 0.
Proof. intros. exact (conj (iff_refl _) (conj (iff_refl _) (conj (iff_refl _) eq_refl))). Qed.
Print Assumptions C20f_overlap_definitions.

(* ================================================================== IntersectQuad *)

(* ---- a horizontal quad — normal numerically (0,1,0), e.y = 0, half-extents in [0, 64], center
        coordinates bounded by 64 — is hit by the vertical ray From = (cx, cy+1, cz),
        To = (cx, cy-1, cz) (ordinates computed in float32), with t within 10^-5 of 1/2 *)
Theorem C20f_intersect_vertical : forall c e n : vec32,
  finite_vec32 c = true -> finite_vec32 e = true ->
  (finite_vec32 n = true /\ R32 (fx n) = 0 /\ R32 (fy n) = 1 /\ R32 (fz n) = 0)%R ->
  (Rabs (R32 (fx c)) <= 64 -> Rabs (R32 (fy c)) <= 64 -> Rabs (R32 (fz c)) <= 64 ->
   0 <= R32 (fx e) <= 64 -> R32 (fy e) = 0 -> 0 <= R32 (fz e) <= 64 ->
   exists t : binary32, intersect32 (vray c) (mkQuad32 c e n) = (true, t) /\ is_finite32 t = true /\
                        Rabs (R32 t - / 2) <= / 100000)%R.
Proof. exact intersect32_vertical. Qed.
Print Assumptions C20f_intersect_vertical.

(* ---- C20, ray clause, end to end on the executable precondition [horizontal_input]: the quad
        NewQuadFromProtobuf builds (normal from the repaired calculateNormal) has a unit-y normal
        and is hit by the vertical ray through its centre *)
Theorem C20f_center_ray_hits : forall c e : vec32, horizontal_input c e = true ->
  (finite_vec32 (normal32 c e) = true /\
   R32 (fx (normal32 c e)) = 0 /\ R32 (fy (normal32 c e)) = 1 /\ R32 (fz (normal32 c e)) = 0)%R /\
  exists t : binary32, intersect32 (vray c) (new_quad32 c e) = (true, t) /\ is_finite32 t = true /\
                       (Rabs (R32 t - / 2) <= / 100000)%R.
Proof. exact center_ray_hits. Qed.
Print Assumptions C20f_center_ray_hits.

(* the executable preconditions mean what they say *)
Theorem C20f_preconditions : forall x : binary32,
  (pos32 x = true -> is_finite32 x = true /\ (0 < R32 x)%R) /\
  (is_zero32 x = true -> is_finite32 x = true /\ R32 x = 0%R) /\
  (nonzero32 x = true -> is_finite32 x = true /\ R32 x <> 0%R) /\
  (abs_le64 x = true -> is_finite32 x = true /\ (Rabs (R32 x) <= 64)%R).
Proof. exact (fun x => conj (pos32_R x) (conj (is_zero32_R x) (conj (nonzero32_R x) (abs_le64_R x)))). Qed.
Print Assumptions C20f_preconditions.

(* ================================================================== Examples
   (vm_compute on concrete bit patterns; the expected values were produced by the Go code:
   /verif/work/builder-float/goex, a verbatim copy of the three functions of math.go; 90000 random
   records of /verif/work/builder-float/gochk agree bit for bit with the extracted model) *)
Open Scope Z_scope.

(* (c) the repaired witness: extents (1e-6, 0, 1e-6) at center (60, 0, 60): normal (-0, 1, -0) *)
Example C20f_ex_normal_witness :
  normal_bits 1114636288 0 1114636288 897988541 0 897988541 = (2147483648, 1065353216, 2147483648).
Proof. vm_compute. reflexivity. Qed.
(* what the code did before the repair (Grid.calc_normal's float32 evaluation: the edges
   (c + e') - c, then Cross): the cross product is the zero vector, normalisation leaves it *)
Example C20f_ex_normal_old_defect :
  let c := vec32_of_bits 1114636288 0 1114636288 in
  let e := vec32_of_bits 897988541 0 897988541 in
  let vectorA := sub32 (add32 c (mkVec32 (fx e) (fy e) (f32_of_bits 0))) c in
  let vectorB := sub32 (add32 c (mkVec32 (f32_of_bits 0) (fy e) (fz e))) c in
  bits_of_vec32 (cross32 vectorB vectorA) = (0, 0, 0).
Proof. vm_compute. reflexivity. Qed.
(* the smallest subnormal extents 2^-149 (pattern 1), with e.y = +0 and with e.y = -0 *)
Example C20f_ex_normal_subnormal :
  normal_bits 1114636288 0 1114636288 1 0 1 = (2147483648, 1065353216, 2147483648) /\
  normal_bits 1114636288 0 1114636288 1 2147483648 1 = (0, 1065353216, 0).
Proof. vm_compute. split; reflexivity. Qed.
(* a slanted quad, extents (1, 1, 2): (-0.8164966, 0.4082483, -0.4082483) *)
Example C20f_ex_normal_slanted :
  normal_bits 0 0 0 1065353216 1065353216 1073741824 = (3207244459, 1059760811, 3198855851).
Proof. vm_compute. reflexivity. Qed.
(* the largest finite extents (no overflow in float64), one non-zero extent (zero normal), and the
   extreme ratio 2^-149 : 3.4e38 (a component underflows to -0) *)
Example C20f_ex_normal_extremes :
  normal_bits 1065353216 1073741824 1077936128 2139095039 2139095039 2139095039 = (3205745978, 1058262330, 3205745978) /\
  normal_bits 1065353216 1073741824 1077936128 0 0 1084227584 = (2147483648, 0, 2147483648) /\
  normal_bits 1065353216 1073741824 1077936128 1 2139095039 0 = (2147483648, 0, 3212836864).
Proof. vm_compute. repeat split; reflexivity. Qed.
(* the hypotheses of the theorems hold on these values *)
Example C20f_ex_normal_hyp :
  let c := vec32_of_bits 1114636288 0 1114636288 in
  let e := vec32_of_bits 897988541 0 897988541 in
  finite_vec32 e = true /\ pos32 (fx e) = true /\ is_zero32 (fy e) = true /\ pos32 (fz e) = true /\
  horizontal_input c e = true /\
  two_nonzero e = true /\ two_nonzero (vec32_of_bits 1065353216 1065353216 1073741824) = true /\
  two_nonzero (vec32_of_bits 0 0 1084227584) = false.
Proof. vm_compute. repeat split; reflexivity. Qed.

(* overlap: agreement on a well-conditioned pair (A = [0,2]^2, B = [1.5,3.5]^2) *)
Example C20f_ex_overlap_agree :
  let a := quad32_of_bits 1065353216 0 1065353216 1065353216 0 1065353216 0 0 0 in
  let b := quad32_of_bits 1075838976 0 1075838976 1065353216 0 1065353216 0 0 0 in
  overlap32 a b = true /\ overlap (quadQ a) (quadQ b) = true /\
  Qle_bool (1 # 2) (overlap_margin (quadQ a) (quadQ b)) = true.
Proof. vm_compute. repeat split; reflexivity. Qed.
(* the guard is needed: A = the repaired witness (60 +- 1e-6), B = [58,60] x [59,61].  Exactly,
   minA.x = 60 - 1e-6 < 60 = maxB.x and the planes overlap (a sliver of width 1e-6); in float32
   minA.x = 60 >= maxB.x and the function answers false.  The margin is below 2^-17. *)
Example C20f_ex_overlap_disagree :
  let a := quad32_of_bits 1114636288 0 1114636288 897988541 0 897988541 0 0 0 in
  let b := quad32_of_bits 1114374144 0 1114636288 1065353216 0 1065353216 0 0 0 in
  overlap32 a b = false /\ overlap (quadQ a) (quadQ b) = true /\
  Qlt_bool 0 (overlap_margin (quadQ a) (quadQ b)) = true /\
  Qlt_bool (overlap_margin (quadQ a) (quadQ b)) (1 # 131072) = true.
Proof. vm_compute. repeat split; reflexivity. Qed.
(* the guard of C20f_overlap_agrees_64 cannot be improved by more than a quarter without more
   hypotheses: coordinates bounded by 64 (one NEGATIVE half-extent, which the Go code accepts),
   exact difference maxA.x - minB.x = 0.75 * 2^-17 > 0, float32 difference 0: disagreement *)
Example C20f_ex_overlap_tight :
  let a := quad32_of_bits 1114636288 0 0 1092616195 0 1065353216 0 0 0 in      (* c.x = 60, e.x = 10 + 2^-18 - 2^-20 *)
  let b := quad32_of_bits 1114636288 0 0 3240099837 0 1065353216 0 0 0 in      (* c.x = 60, e.x = -(10 - 2^-18 + 2^-20) *)
  overlap32 a b = false /\ overlap (quadQ a) (quadQ b) = true /\
  Qeq_bool (vx (qmax (quadQ a)) - vx (qmin (quadQ b))) (3 # 524288) = true.
Proof. vm_compute. repeat split; reflexivity. Qed.

(* ray-quad: the repaired witness is hit by the vertical ray through its centre at t = 0.5;
   a larger quad near the coordinate bound at t = 0.49999905 (pattern 1056964576); a miss *)
Example C20f_ex_intersect_witness :
  let c := vec32_of_bits 1114636288 0 1114636288 in
  let e := vec32_of_bits 897988541 0 897988541 in
  horizontal_input c e = true /\
  intersect_bits (vray c) (new_quad32 c e) = (true, 1056964608).
Proof. vm_compute. split; reflexivity. Qed.
Example C20f_ex_intersect_inexact :
  let c := vec32_of_bits 1036831949 1115606221 3197737370 in                   (* (0.1, 63.7, -0.3) *)
  let e := vec32_of_bits 1115684864 0 1115684864 in                            (* (64, 0, 64) *)
  horizontal_input c e = true /\
  bits_of_vec32 (r32from (vray c)) = (1036831949, 1115776614, 3197737370) /\
  intersect_bits (vray c) (new_quad32 c e) = (true, 1056964576).
Proof. vm_compute. repeat split; reflexivity. Qed.
Example C20f_ex_intersect_miss :
  let c := vec32_of_bits 0 0 0 in
  let e := vec32_of_bits 1065353216 0 1065353216 in
  intersect_bits (ray32_of_bits 1077936128 1065353216 0 1077936128 3212836864 0) (new_quad32 c e)
  = (false, 3212836864).
Proof. vm_compute. reflexivity. Qed.
(* the constants *)
Example C20f_ex_constants :
  Qres eps32 = Some range_epsilon /\ Qres one32 = Some 1%Q /\ Qres mone32 = Some (-1)%Q /\ Qres c64 = Some 64%Q.
Proof. vm_compute. repeat split; reflexivity. Qed.

(* Properties/C04.v — Every request is answered exactly once with the outcome the protocol defines.
   Only statements; proofs are in proofs/PC04.v, proofs/Local.v, proofs/Reach.v. *)
From stdpp Require Import relations.
From Coq Require Import String.
From hagall Require Import Model Preds2 Gen.
From hagall.proofs Require Import Relay Session Local Trans WF Mono Reach PC04.

(* regenerated from handleMessage on every run: the dispatch switch covers exactly the 18 core request types
   (numbers as on the wire), each with its own handler; module requests (101, 201, 300-305) are offered to the
   modules afterwards, for joined connections only.  The table is emitted sorted by type number (the order of the
   cases of a switch over distinct constants is irrelevant); a default branch that delegates to another switch is followed *)
Theorem C04_dispatch_table : Gen.dispatch_table = [
  (3, "HandleParticipantJoin"); (8, "HandleEntityAdd"); (11, "HandleEntityDelete"); (14, "HandleEntityUpdatePose");
  (16, "HandleCustomMessage"); (18, "HandleEntityComponentTypeAdd"); (20, "HandleEntityComponentGetName");
  (22, "HandleEntityComponentGetID"); (24, "HandleEntityComponentAdd"); (27, "HandleEntityComponentDelete");
  (30, "HandleEntityComponentUpdate"); (32, "HandleEntityComponentList"); (34, "HandleEntityComponentSubscribe");
  (36, "HandleEntityComponentUnsubscribe"); (38, "HandlePing"); (39, "HandlePingResponse"); (40, "HandleReceipt");
  (42, "HandleSignedLatency")]%string.
Proof. reflexivity. Qed.

(* in every reachable state a member's session-scoped request is handled inside its own, well-formed session *)
Theorem C04_reachable_step : ∀ cfg h c cn sid p SS r hint,
  member_of cfg h c cn sid p SS → session_local r = true →
  handle cfg (final cfg h) c r hint = apply_sstep (final cfg h) c sid (sstep cfg c p (c_own cn) SS r).
Proof. exact member_step. Qed.
Theorem C04_reachable_facts : ∀ cfg h c cn sid p SS, short h → member_of cfg h c cn sid p SS →
  s_parts SS !! p = Some c ∧ parts_injective SS ∧ wf cfg (4 * N.of_nat (length h)) SS.
Proof. exact member_facts. Qed.

(* [answers rid outs]: the deliveries that carry request id rid, whoever they go to.  For every session-scoped
   request kind with a request id that is served in the configuration, in any session: exactly one such delivery,
   to the requester, and it is the success response of the request's kind or an error echoing the id *)
Theorem C04_answered_exactly_once : ∀ cfg c p own SS r rid,
  session_local r = true → req_rid r = Some rid → served cfg r = true →
  ∃ a, answers rid (sstep cfg c p own SS r).2 = [(c, a)] ∧ (success_for r a = true ∨ ∃ code, a = MError rid code).
Proof. exact answered_exactly_once. Qed.
Print Assumptions C04_answered_exactly_once.

(* a refused request changes nothing and tells nobody but the requester: if the requester is sent an error, the
   session and its own-entity set are exactly as before and that error is the only delivery *)
Theorem C04_refusal_changes_nothing : ∀ cfg k c p own SS r rid code,
  wf cfg k SS → parts_injective SS → s_parts SS !! p = Some c → session_local r = true →
  (c, MError rid code) ∈ (sstep cfg c p own SS r).2 →
  sstep cfg c p own SS r = (SS, own, [(c, MError rid code)]).
Proof. exact refusal_changes_nothing. Qed.
Print Assumptions C04_refusal_changes_nothing.

(* the error code names the reason (the outcome tables; see also C05, C12, C13, C16) *)
Theorem C04_component_add_code : ∀ cfg c p own SS rid tid eid data ots code,
  comp_add_outcome SS tid eid = Some code →
  sstep cfg c p own SS (RCompAdd rid tid eid data ots) = (SS, own, [(c, MError rid code)]).
Proof. exact comp_add_refused. Qed.
Theorem C04_component_delete_code : ∀ cfg c p own SS rid tid eid ots code,
  comp_delete_outcome SS tid eid = Some code →
  sstep cfg c p own SS (RCompDelete rid tid eid ots) = (SS, own, [(c, MError rid code)]).
Proof. exact comp_delete_refused. Qed.

(* a request that needs a session, sent by a connection that is in none, is never executed: the state is
   untouched and the only things sent are errors to the requester (or nothing: then the handler fails and the
   connection is ended, or the request is a module request, which is dropped) *)
Theorem C04_unjoined_never_executed : ∀ cfg st c cn r hint, needs_session r = true →
  (handle_unjoined cfg st c cn r hint).1.1 = st ∧
  ∀ d, d ∈ (handle_unjoined cfg st c cn r hint).1.2 → fst d = c ∧ is_error_msg (snd d) = true.
Proof. exact unjoined_never_executed. Qed.
Print Assumptions C04_unjoined_never_executed.

Definition c04_demo : list op :=
  [OConnect 1; OConnect 2; OSend 1 (RJoin 1 SNew 1); OStep 1 0; OSend 2 (RJoin 2 (SId 1) 2); OStep 2 0;
   OSend 1 (REntityAdd 3 false 0 None 3); OStep 1 0].
Example C04_nonvacuous :
  let cfg := {| cfg_flags := []; cfg_vikja := true; cfg_odal := true; cfg_dagaz := false |} in
  (handle cfg (final cfg c04_demo) 2 (RCompAdd 9 5 1 1 9) 0).1.2 = [(2, MError 9 E_NOT_FOUND)] ∧
  (handle cfg (final cfg c04_demo) 2 (REntityDelete 9 1 9) 0).1.2 = [(2, MError 9 E_UNAUTHORIZED)] ∧
  (handle cfg (final cfg c04_demo) 2 (REntityAdd 9 false 0 None 9) 0).1.2 =
     [(2, MEntityAddResp 9 2); (1, MEntityAddB 9 {| ep_id := 2; ep_owner := 2; ep_pose := zero_pose; ep_flag := 0 |})].
Proof. vm_compute. repeat split; reflexivity. Qed.

(* Properties/Refine.v — the sequential model refines the trace-determined specification of Spec.v, and
   therefore its own traces are never flagged by the executable predicate P_C07.
   Only statements; proofs are in proofs/Refine.v, proofs/Refine2.v, proofs/Refine3.v, proofs/Refine4.v,
   proofs/Refine5.v. *)
From hagall Require Import Model Spec Obs Preds.
From hagall.proofs Require Import Inv Reach Own Refine Refine2 Refine3 Refine4 Refine5.

(* Membership refinement.  After EVERY history (hence after every prefix of every history) the membership
   part of the spec state that Spec.v computes from the answers alone is the abstraction of the model state. *)
Theorem Refine_membership : ∀ cfg h, short h → refines_mem (spec_after (run cfg h)) (final cfg h).
Proof. exact refinement_mem. Qed.
Print Assumptions Refine_membership.

(* the same, with the abstraction relation spelled out *)
Theorem Refine_membership_explicit : ∀ cfg h, short h →
  let sp := spec_after (run cfg h) in let st := final cfg h in
  (* who is where, under which participant id *)
  (∀ c, sp_mem sp !! c = conns st !! c ≫= c_cur) ∧
  (* which numeric session ids are live, under which incarnation *)
  (∀ sid, sp_uuid sp !! sid = s_uuid <$> sessions st !! sid) ∧
  (* the incarnations seen are exactly 1 .. next_uuid *)
  (∀ u, u ∈ sp_seen sp ↔ 1 ≤ u ≤ next_uuid st) ∧
  (* the participant ids issued under a live incarnation are exactly 1 .. the session's counter,
     and every current participant id is among them *)
  (∀ sid SS, sessions st !! sid = Some SS →
     (∀ p, p ∈ issued (sp_pids sp) (s_uuid SS) ↔ 1 ≤ p ≤ s_pgen SS) ∧
     (∀ p, is_Some (s_parts SS !! p) → p ∈ issued (sp_pids sp) (s_uuid SS))) ∧
  (* nothing is issued under an incarnation that does not exist yet *)
  (∀ u, next_uuid st < u → issued (sp_pids sp) u = ∅).
Proof.
  intros cfg h Hs sp st. destruct (refinement_mem cfg h Hs) as [R1 R2 R3 R4 R5 R6]. fold sp st in R1, R2, R3, R4, R5, R6.
  split; [exact R1|]. split; [exact R2|]. split; [exact R3|]. split; [|exact R5].
  intros sid SS HS. split.
  - apply (R4 sid); [unfold uuid_at|unfold pgen_of]; by rewrite HS.
  - intros p. apply (R6 sid); [unfold uuid_at|unfold parts_of]; by rewrite HS.
Qed.
Print Assumptions Refine_membership_explicit.

(* First consumer: the model's own trace passes P_C07 on every history - all clauses: the join outcome
   clauses 701-710, the snapshot clauses 721 (participants), 728 (incarnation), 729-731 (registry, gauge)
   and 799 (no harness anomaly). *)
Theorem Refine_model_passes_C07 : ∀ cfg h, short h → P_C07 cfg (run cfg h) = [].
Proof. exact model_passes_C07. Qed.
Print Assumptions Refine_model_passes_C07.

(* Entity refinement.  The spec's entity table (built from the EntityAdd / EntityDelete responses, the accepted
   pose updates and the departures) is the abstraction of the sessions' entity maps after every history. *)
Theorem Refine_entities : ∀ cfg h, short h →
  let sp := spec_after (run cfg h) in let st := final cfg h in
  ∀ sid eid, sp_ents sp !! (sid, eid) =
             (λ e, (ent_to_pb eid e, e_persist e)) <$> (sessions st !! sid ≫= λ SS, s_ents SS !! eid).
Proof. exact refinement_ents. Qed.
Print Assumptions Refine_entities.

(* the same with the agreement of own-sets and owner fields as an explicit premise on every prefix
   (does not use the theorem of proofs/Own.v, only its definition [own_inv]) *)
Theorem Refine_entities_premise : ∀ cfg h, short h →
  (∀ h1 h2, h = h1 ++ h2 → own_inv (final cfg h1)) →
  let sp := spec_after (run cfg h) in let st := final cfg h in
  ∀ sid eid, sp_ents sp !! (sid, eid) =
             (λ e, (ent_to_pb eid e, e_persist e)) <$> (sessions st !! sid ≫= λ SS, s_ents SS !! eid).
Proof. exact refinement_ents_premise. Qed.
Print Assumptions Refine_entities_premise.

(* Second consumer (uses the entity refinement): on the model's own traces P_C05 never reports one of its
   request-outcome clauses - 501-503 (EntityDelete: not found / done / refused to a non-owner), 504 (a pose update
   of a non-owner or of a missing entity has no effect), 505-507 (AssetAdd likewise), 508 (the participant id a
   join hands out was never issued under that incarnation) - nor 599 (harness anomaly).  NOT covered: the clauses
   that compare a whole SessionState / module state / hook snapshot with the spec (510-518, 521-531); whatever
   P_C05 could still report on a model trace carries one of those codes. *)
Theorem Refine_model_passes_C05_partial : ∀ cfg h, short h →
  Forall (λ v, (510 ≤ v_code v ≤ 531)%Z) (P_C05 cfg (run cfg h)).
Proof. exact model_C05_partial. Qed.
Print Assumptions Refine_model_passes_C05_partial.

(* Third consumer (membership refinement only): the model's own trace passes P_C14 on every history - all
   clauses: 1401 (a connection in no session delivers nothing), 1402/1403 (an oversized body is answered
   TOO_LARGE and delivered to nobody), 1404 (otherwise exactly the addressed members get it, as sorted lines),
   1405 (and no TOO_LARGE error).  On the way: the membership observer of Obs.v computes exactly the spec's
   membership table on model traces. *)
Theorem Refine_observer_is_spec : ∀ cfg h, short h →
  fold_left obs_step (run cfg h) ∅ = sp_mem (spec_after (run cfg h)).
Proof. exact obs_after_run. Qed.
Theorem Refine_model_passes_C14 : ∀ cfg h, short h → P_C14 cfg (run cfg h) = [].
Proof. exact model_passes_C14. Qed.
Print Assumptions Refine_model_passes_C14.

(* a concrete history: two sessions, a switch (connection 2 moves from session 1 to session 2), the end of
   session 1 (its last member leaves), a refused join of the ended session (which, as in the code, first takes
   the joiner out of the session it was in), snapshots in between *)
Definition refine_demo : list op :=
  [OConnect 1; OConnect 2; OConnect 3;
   OSend 1 (RJoin 1 SNew 1); OStep 1 0;
   OSend 2 (RJoin 2 (SId 1) 2); OStep 2 0;
   OSend 3 (RJoin 3 SNew 3); OStep 3 0; OSnap;
   OSend 2 (RJoin 4 (SId 2) 4); OStep 2 0; OSnap;
   ODisconnect 1; OSnap;
   OSend 2 (RJoin 5 (SId 1) 5); OStep 2 0; OSnap].
Example Refine_nonvacuous :
  let cfg := {| cfg_flags := []; cfg_vikja := true; cfg_odal := true; cfg_dagaz := false |} in
  let sp := spec_after (run cfg refine_demo) in
  (* the hypothesis is satisfiable, the spec state is not trivial, and the predicate is silent *)
  bool_decide (4 * N.of_nat (length refine_demo) < two32) = true ∧
  map_to_list (sp_mem sp) = [(3, (2, 1))] ∧ map_to_list (sp_uuid sp) = [(2, 2)] ∧
  elements (sp_seen sp) = [1; 2] ∧
  map (λ kv : N * gset N, (kv.1, elements kv.2)) (map_to_list (sp_pids sp)) = [(1, [1; 2]); (2, [1; 2])] ∧
  map (λ kv : N * conn, (kv.1, c_cur kv.2)) (map_to_list (conns (final cfg refine_demo))) =
    [(1, None); (3, Some (2, 1)); (2, None)] ∧
  map (λ kv : N * session, (kv.1, s_uuid kv.2, s_pgen kv.2)) (map_to_list (sessions (final cfg refine_demo))) = [(2, 2, 2)] ∧
  P_C07 cfg (run cfg refine_demo) = [].
Proof. vm_compute. repeat split. Qed.

(* entities: connection 1 creates a persistent (id 1) and a volatile (id 2) entity, connection 2 a volatile one
   (id 3) and moves it; 2 is refused moving / deleting entity 1; 1 leaves (entity 2 goes, entity 1 stays);
   then 2 leaves and the session ends (everything is purged) - the table is shown before and after the end *)
Definition refine_demo_ents : list op :=
  [OConnect 1; OConnect 2;
   OSend 1 (RJoin 1 SNew 1); OStep 1 0; OSend 2 (RJoin 2 (SId 1) 2); OStep 2 0;
   OSend 1 (REntityAdd 3 true 7 None 3); OStep 1 0; OSend 1 (REntityAdd 4 false 8 None 4); OStep 1 0;
   OSend 2 (REntityAdd 5 false 9 None 5); OStep 2 0;
   OSend 2 (RPose 3 (Some [1;2;3;4;5;6;7]) 6); OSend 2 (RPose 1 (Some [9;9;9;9;9;9;9]) 7); OTick 1; OStep 2 0; OStep 2 0;
   OSend 2 (REntityDelete 8 1 8); OStep 2 0;
   ODisconnect 1; OSnap].
Example Refine_nonvacuous_entities :
  let cfg := {| cfg_flags := []; cfg_vikja := true; cfg_odal := true; cfg_dagaz := false |} in
  let h := refine_demo_ents in
  bool_decide (4 * N.of_nat (length (h ++ [ODisconnect 2])) < two32) = true ∧
  map_to_list (sp_ents (spec_after (run cfg h))) =
    [((1, 1), ({| ep_id := 1; ep_owner := 1; ep_pose := zero_pose; ep_flag := 7 |}, true));
     ((1, 3), ({| ep_id := 3; ep_owner := 2; ep_pose := [1;2;3;4;5;6;7]; ep_flag := 9 |}, false))] ∧
  map (λ kv : N * session, (kv.1, map (λ ke : N * entity, (ent_to_pb ke.1 ke.2, e_persist ke.2)) (map_to_list (s_ents kv.2))))
      (map_to_list (sessions (final cfg h))) =
    [(1, [({| ep_id := 1; ep_owner := 1; ep_pose := zero_pose; ep_flag := 7 |}, true);
          ({| ep_id := 3; ep_owner := 2; ep_pose := [1;2;3;4;5;6;7]; ep_flag := 9 |}, false)])] ∧
  map_to_list (sp_ents (spec_after (run cfg (h ++ [ODisconnect 2])))) = [] ∧
  map_to_list (sessions (final cfg (h ++ [ODisconnect 2]))) = [] ∧
  P_C05 cfg (run cfg (h ++ [ODisconnect 2])) = [] ∧ P_C07 cfg (run cfg (h ++ [ODisconnect 2])) = [].
Proof. vm_compute. repeat split. Qed.

(* custom messages: three members; a broadcast, a targeted message with a duplicate, an unknown id and the sender
   among the recipients, an oversized body, and one from a connection in no session (which ends it) *)
Definition refine_demo_custom : list op :=
  [OConnect 1; OConnect 2; OConnect 3; OConnect 4;
   OSend 1 (RJoin 1 SNew 1); OStep 1 0; OSend 2 (RJoin 2 (SId 1) 2); OStep 2 0; OSend 3 (RJoin 3 (SId 1) 3); OStep 3 0;
   OSend 1 (RCustom [] [7; 8] 4); OStep 1 0;
   OSend 1 (RCustom [3; 3; 9; 1] [5] 5); OStep 1 0;
   OSend 2 (RCustom [] (repeat 0 (N.to_nat 10241)) 6); OStep 2 0;
   OSend 4 (RCustom [] [1] 7); OStep 4 0].
Example Refine_nonvacuous_custom :
  let cfg := {| cfg_flags := []; cfg_vikja := false; cfg_odal := false; cfg_dagaz := false |} in
  let t := run cfg refine_demo_custom in
  map (λ e, match ev_req e with Some (RCustom _ _ _) => Some (map fst (ev_outs e), ev_verdict e) | _ => None end) t =
    [None; None; None; None; None; None; None; None; None; None;
     None; Some ([2; 3], VOk); None; Some ([3], VOk); None; Some ([2], VOk); None; Some ([], VErr)] ∧
  P_C14 cfg t = [] ∧ P_C07 cfg t = [].
Proof. vm_compute. repeat split. Qed.

(* C06leave.v — the regenerated fact (coq/GenStore.v, tools/storefacts) under which the theorems of Properties/ConcLeave.v
   apply to the code: leaveSession removes the leaver's entities in a loop over participant.EntityIDs() that is a top-level
   statement of the function (guarded by nothing but "not joined"), precedes RemoveParticipant, skips an entity only when
   it is missing or persistent and calls RemoveEntity for every other one - i.e. the departure is the FULL departure
   (ILeaveSnapshot) of coq/ConcLeave.v, not the shortcut variant. *)
From hagall Require Import GenStore ConcLeave.
Theorem C06_leave_facts : leave_cleanup_unconditional = true.
Proof. reflexivity. Qed.
Print Assumptions C06_leave_facts.

(* C15 — Only holders of a valid discovery-service token reach the relay or the smoke test.
   Model: coq/Auth.v (written from /repo/http/auth.go, hagall-common v0.2.2 http/auth.go and
   hdsclient/client.go, golang-jwt v4.5.2 parser.go/hmac.go/none.go/claims.go, x/net websocket/server.go).
   Proofs: coq/proofs/AuthProofs.v.  Facts regenerated from the Go sources: coq/GenAuth.v
   (tools/authmounts).  base64url decoding, the two JSON readers and HMAC are universally quantified
   (b64dec, header_alg, claims_of, mac); so are the secret, both clock readings and the request. *)
From Coq Require Import String ZArith List Bool.
From hagall Require Import Auth GenAuth.
From hagall.proofs Require Import AuthProofs.
Import ListNotations.
Open Scope string_scope.

(* ---- obligations over the regenerated facts (the tie to the sources; they fail closed) ---- *)

(* http/auth.go VerifyAuthToken, as it stands now: for either result of VerifyUserAuth the endpoint
   (callback + x/net/websocket) answers 101 and enters the handler, resp. answers 403 and does not *)
Theorem C15_gen_handshake_shape :
  forall ok, ws_endpoint GenAuth.handshake_body ok = Some (ws_model ok).
Proof. exact (ws_shape_by_check GenAuth.handshake_body eq_refl eq_refl). Qed.

(* http/auth.go VerifyAuthTokenHandler, as it stands now: next is called iff the verification
   succeeded, otherwise 401 is written and nothing else happens *)
Theorem C15_gen_middleware_shape :
  forall ok, mw_endpoint GenAuth.middleware_body ok = Some (mw_model ok).
Proof. exact (mw_shape_by_check GenAuth.middleware_body eq_refl eq_refl). Qed.

(* cmd/*.go: every mounted route whose handler reaches the relay (hagall/websocket.Handle) is a
   websocket.Server with Handshake: VerifyAuthToken(…), every route that reaches
   smoketest.HandleSmokeTest is wrapped in VerifyAuthTokenHandler, both exist, and the wrappers are
   given the very client that receives the registration (the secret) *)
Theorem C15_gen_mounts : mounts_ok GenAuth.registration_client GenAuth.mounts = true.
Proof. reflexivity. Qed.

Theorem C15_gen_mounts_spelled :
  GenAuth.registration_client <> "" /\
  (exists m, In m GenAuth.mounts /\ m_relay m = true) /\
  (exists m, In m GenAuth.mounts /\ m_smoke m = true) /\
  forall m, In m GenAuth.mounts ->
    (m_relay m = true -> m_kind m = MountWsAuth /\ m_client m = GenAuth.registration_client) /\
    (m_smoke m = true -> m_kind m = MountMwAuth /\ m_client m = GenAuth.registration_client).
Proof. exact (mounts_ok_spec _ _ C15_gen_mounts). Qed.

(* ---- the theorems: all decoders/MACs, all secrets, all clock readings, all requests ---- *)

(* acceptance is sound AND complete for: secret non-empty, and the token chosen by precedence has
   exactly three segments, a header naming an HMAC-family algorithm, a signature that decodes to
   mac alg secret (seg1 ++ "." ++ seg2), and claims that are not expired, not before their time and
   issued at most 10 s ahead of the second clock reading *)
Theorem C15_accept_iff :
  forall b64dec header_alg claims_of mac secret now1 now2 req,
    accept2 b64dec header_alg claims_of mac secret now1 now2 req = true <->
    secret <> "" /\ valid_token b64dec header_alg claims_of mac secret now1 now2 (token_of req).
Proof. exact accept2_iff. Qed.

Theorem C15_accept_sound :
  forall b64dec header_alg claims_of mac secret now1 now2 req,
    accept2 b64dec header_alg claims_of mac secret now1 now2 req = true ->
    secret <> "" /\
    exists h p s hb alg hh pb c sg,
      split3 (token_of req) = Some (h, p, s) /\
      b64dec h = Some hb /\ header_alg hb = Some (Some alg) /\
      signing_method alg = Some (MHmac hh) /\
      b64dec s = Some sg /\ sg = mac hh secret (h ++ "." ++ p) /\
      b64dec p = Some pb /\ claims_of pb = Some c /\
      (forall e, c_exp c = Some e -> now1 < e)%Z /\
      (forall n, c_nbf c = Some n -> n <= now1)%Z /\
      (forall i, c_iat c = Some i -> i <= now1 \/ i - now2 < 10)%Z.
Proof. exact accept_sound. Qed.

(* "three segments" and "HMAC family" mean what they say *)
Theorem C15_three_segments :
  forall tok h p s, split3 tok = Some (h, p, s) ->
    tok = h ++ "." ++ p ++ "." ++ s /\ has_dot h = false /\ has_dot p = false /\ has_dot s = false.
Proof. exact split3_spec. Qed.

Theorem C15_hmac_family :
  forall alg hh, signing_method alg = Some (MHmac hh) ->
    (alg = "HS256" /\ hh = SHA256) \/ (alg = "HS384" /\ hh = SHA384) \/ (alg = "HS512" /\ hh = SHA512).
Proof. exact signing_method_hmac. Qed.

(* while the server holds no secret nothing is accepted, whatever the token *)
Theorem C15_empty_secret_rejects_all :
  forall b64dec header_alg claims_of mac now1 now2 req,
    accept2 b64dec header_alg claims_of mac "" now1 now2 req = false.
Proof. exact empty_secret_rejects_all. Qed.

(* a request without any token is never accepted *)
Theorem C15_no_token_rejected :
  forall b64dec header_alg claims_of mac secret now1 now2 req,
    token_of req = "" -> accept2 b64dec header_alg claims_of mac secret now1 now2 req = false.
Proof. exact no_token_rejected. Qed.

(* rotation: accepted under s1 and under s2 => the one signature is the MAC under both *)
Theorem C15_rotation :
  forall b64dec header_alg claims_of mac s1 s2 n1 n2 n1' n2' req,
    accept2 b64dec header_alg claims_of mac s1 n1 n2 req = true ->
    accept2 b64dec header_alg claims_of mac s2 n1' n2' req = true ->
    exists h p s hh sg,
      split3 (token_of req) = Some (h, p, s) /\ b64dec s = Some sg /\
      sg = mac hh s1 (h ++ "." ++ p) /\ sg = mac hh s2 (h ++ "." ++ p).
Proof. exact rotation. Qed.

Theorem C15_rotation_separates :
  forall b64dec header_alg claims_of mac s1 s2 n1 n2 n1' n2' req,
    (forall hh m, mac hh s1 m <> mac hh s2 m) ->
    accept2 b64dec header_alg claims_of mac s1 n1 n2 req = true ->
    accept2 b64dec header_alg claims_of mac s2 n1' n2' req = false.
Proof. exact rotation_separates. Qed.

(* behind both wrappers AS THEY STAND IN THE SOURCES the protected handler is entered iff accepted *)
Theorem C15_handler_iff :
  forall b64dec header_alg claims_of mac secret now1 now2 req,
    exists st1 e1 st2 e2,
      ws_endpoint GenAuth.handshake_body (accept2 b64dec header_alg claims_of mac secret now1 now2 req) = Some (st1, e1) /\
      mw_endpoint GenAuth.middleware_body (accept2 b64dec header_alg claims_of mac secret now1 now2 req) = Some (st2, e2) /\
      (e1 = true <-> accept2 b64dec header_alg claims_of mac secret now1 now2 req = true) /\
      (e2 = true <-> accept2 b64dec header_alg claims_of mac secret now1 now2 req = true).
Proof.
  exact (fun b h c m => handler_iff b h c m _ _ C15_gen_handshake_shape C15_gen_middleware_shape).
Qed.

(* a rejected request gets 403 (upgrade) resp. 401 (middleware); the handler is not entered and no
   statement with an effect other than the status line is executed *)
Theorem C15_rejected_no_side_effect :
  forall b64dec header_alg claims_of mac secret now1 now2 req,
    accept2 b64dec header_alg claims_of mac secret now1 now2 req = false ->
    ws_endpoint GenAuth.handshake_body (accept2 b64dec header_alg claims_of mac secret now1 now2 req) = Some (St403, false) /\
    mw_endpoint GenAuth.middleware_body (accept2 b64dec header_alg claims_of mac secret now1 now2 req) = Some (St401, false).
Proof.
  exact (fun b h c m => rejected_no_side_effect b h c m _ _ C15_gen_handshake_shape C15_gen_middleware_shape).
Qed.

(* precedence header > query > cookie: a non-empty "Bearer " token decides alone … *)
Theorem C15_precedence :
  forall b64dec header_alg claims_of mac secret now1 now2 r q c,
    token_from_header r <> "" ->
    accept2 b64dec header_alg claims_of mac secret now1 now2 r =
    accept2 b64dec header_alg claims_of mac secret now1 now2 (mkRequest (authorization r) q c).
Proof. exact precedence_header. Qed.

(* … so a bad header token is not rescued by a good query parameter or cookie *)
Theorem C15_bad_header_not_rescued :
  forall b64dec header_alg claims_of mac secret now1 now2 a q c,
    token_from_header (mkRequest a None None) <> "" ->
    accept2 b64dec header_alg claims_of mac secret now1 now2 (mkRequest a None None) = false ->
    accept2 b64dec header_alg claims_of mac secret now1 now2 (mkRequest a q c) = false.
Proof. exact bad_header_not_rescued. Qed.

Theorem C15_precedence_query :
  forall b64dec header_alg claims_of mac secret now1 now2 r c,
    token_from_header r = "" -> val (query_token r) <> "" ->
    accept2 b64dec header_alg claims_of mac secret now1 now2 r =
    accept2 b64dec header_alg claims_of mac secret now1 now2 (mkRequest (authorization r) (query_token r) c).
Proof. exact precedence_query. Qed.

Print Assumptions C15_gen_handshake_shape.
Print Assumptions C15_gen_middleware_shape.
Print Assumptions C15_gen_mounts.
Print Assumptions C15_gen_mounts_spelled.
Print Assumptions C15_accept_iff.
Print Assumptions C15_accept_sound.
Print Assumptions C15_three_segments.
Print Assumptions C15_hmac_family.
Print Assumptions C15_empty_secret_rejects_all.
Print Assumptions C15_no_token_rejected.
Print Assumptions C15_rotation.
Print Assumptions C15_rotation_separates.
Print Assumptions C15_handler_iff.
Print Assumptions C15_rejected_no_side_effect.
Print Assumptions C15_precedence.
Print Assumptions C15_bad_header_not_rescued.
Print Assumptions C15_precedence_query.

(* ---- Examples on a toy instance (identity decoding, header bytes = alg name, MAC = "<bits>:key|msg"):
        the hypotheses are satisfiable and the rule discriminates ---- *)

Definition good_k : string := "HS256.p.256:k|HS256_p".     (* signed with secret "k" *)

Example ex_valid_header : toy_accept2 "k" 0 0 (mkRequest (Some ("Bearer " ++ good_k)) None None) = true.
Proof. reflexivity. Qed.
Example ex_valid_query : toy_accept2 "k" 0 0 (mkRequest None (Some good_k) None) = true.
Proof. reflexivity. Qed.
Example ex_valid_cookie : toy_accept2 "k" 0 0 (mkRequest None None (Some good_k)) = true.
Proof. reflexivity. Qed.
Example ex_hs512 : toy_accept2 "k" 0 0 (mkRequest None None (Some "HS512.p.512:k|HS512_p")) = true.
Proof. reflexivity. Qed.
Example ex_no_token : toy_accept2 "k" 0 0 (mkRequest None None None) = false.
Proof. reflexivity. Qed.
Example ex_wrong_secret : toy_accept2 "k2" 0 0 (mkRequest None None (Some good_k)) = false.
Proof. reflexivity. Qed.
(* a token signed with the empty secret, while the server holds none *)
Example ex_empty_secret : toy_accept2 "" 0 0 (mkRequest None None (Some "HS256.p.256:|HS256_p")) = false.
Proof. reflexivity. Qed.
Example ex_alg_none : toy_accept2 "k" 0 0 (mkRequest None None (Some "none.p.")) = false.
Proof. reflexivity. Qed.
Example ex_alg_None : toy_accept2 "k" 0 0 (mkRequest None None (Some "None.p.")) = false.
Proof. reflexivity. Qed.
Example ex_alg_rs256 : toy_accept2 "k" 0 0 (mkRequest None None (Some "RS256.p.256:k|RS256_p")) = false.
Proof. reflexivity. Qed.
Example ex_alg_missing : toy_accept2 "k" 0 0 (mkRequest None None (Some "noalg.p.256:k|noalg_p")) = false.
Proof. reflexivity. Qed.
Example ex_two_segments : toy_accept2 "k" 0 0 (mkRequest None None (Some "HS256.p")) = false.
Proof. reflexivity. Qed.
Example ex_four_segments : toy_accept2 "k" 0 0 (mkRequest None None (Some "HS256.p.256:k|HS256_p.x")) = false.
Proof. reflexivity. Qed.
(* exp = 5: accepted at 4, rejected at 5 (now < exp is strict) *)
Example ex_exp_before : toy_accept2 "k" 4 4 (mkRequest None None (Some "HS256.exp5.256:k|HS256_exp5")) = true.
Proof. reflexivity. Qed.
Example ex_exp_at : toy_accept2 "k" 5 5 (mkRequest None None (Some "HS256.exp5.256:k|HS256_exp5")) = false.
Proof. reflexivity. Qed.
(* iat = 20: 9 s ahead is inside the leeway, 10 s ahead is not; an expired-looking signature does not get the leeway *)
Example ex_iat_9s : toy_accept2 "k" 11 11 (mkRequest None None (Some "HS256.iat20.256:k|HS256_iat20")) = true.
Proof. reflexivity. Qed.
Example ex_iat_10s : toy_accept2 "k" 10 10 (mkRequest None None (Some "HS256.iat20.256:k|HS256_iat20")) = false.
Proof. reflexivity. Qed.
Example ex_iat_unsigned : toy_accept2 "k" 11 11 (mkRequest None None (Some "HS256.iat20.256:x|HS256_iat20")) = false.
Proof. reflexivity. Qed.
(* precedence: a bad header token is not rescued by a good cookie; without "Bearer " the header is ignored *)
Example ex_bad_header_good_cookie :
  toy_accept2 "k" 0 0 (mkRequest (Some "Bearer HS256.p.bad") None (Some good_k)) = false.
Proof. reflexivity. Qed.
Example ex_no_prefix_falls_through :
  toy_accept2 "k" 0 0 (mkRequest (Some "bearer HS256.p.bad") None (Some good_k)) = true.
Proof. reflexivity. Qed.
Example ex_bad_query_good_cookie :
  toy_accept2 "k" 0 0 (mkRequest None (Some "x") (Some good_k)) = false.
Proof. reflexivity. Qed.
(* hypotheses of C15_bad_header_not_rescued / C15_rotation_separates are satisfiable *)
Example ex_precedence_hyp :
  token_from_header (mkRequest (Some "Bearer HS256.p.bad") None None) <> "" /\
  toy_accept2 "k" 0 0 (mkRequest (Some "Bearer HS256.p.bad") None None) = false.
Proof. split; [discriminate|reflexivity]. Qed.
Example ex_rotation_hyp :
  (forall hh m, toy_mac hh "k" m <> toy_mac hh "k2" m) /\
  toy_accept2 "k" 0 0 (mkRequest None None (Some good_k)) = true.
Proof. split; [intros [] m; discriminate|reflexivity]. Qed.
(* the wrappers as generated, and what the shape obligations reject *)
Example ex_ws_rejected : ws_endpoint GenAuth.handshake_body false = Some (St403, false).
Proof. reflexivity. Qed.
Example ex_mw_rejected : mw_endpoint GenAuth.middleware_body false = Some (St401, false).
Proof. reflexivity. Qed.
Example ex_ws_error_ignored :   (* the return in the error branch removed *)
  ws_endpoint [SAssignToken; SIfVerifyErr [SLog]; SReturnNil] false = Some (St101, true).
Proof. reflexivity. Qed.
Example ex_mw_next_first :      (* next called before the check *)
  mw_endpoint [SAssignToken; SCallNext; SIfVerifyErr [SLog; SWriteHeader 401; SReturn]] false = Some (St401, true).
Proof. reflexivity. Qed.
Example ex_mw_harmless :        (* an extra header read and log line change nothing *)
  forall ok, mw_endpoint [SPure; SAssignToken; SIfVerifyErr [SLog; SLog; SWriteHeader 401; SReturn]; SCallNext] ok = Some (mw_model ok).
Proof. intros []; reflexivity. Qed.
Example ex_unrecognised_fails_closed :
  ws_endpoint [SAssignToken; SOther "x"; SIfVerifyErr [SLog; SReturnErr]; SReturnNil] false = None.
Proof. reflexivity. Qed.

(* Properties/C11.v — Pose updates are relayed in order, coalesced per frame; the latest one arrives.
   Only statements; proofs are in proofs/PC11.v (scheduler), proofs/Local.v (the handler), proofs/Reach.v. *)
From stdpp Require Import relations.
From hagall Require Import Model.
From hagall.proofs Require Import Relay Session Local Trans WF Mono Reach PC11.

(* The per-connection scheduler.  [sched_run e ops conn0 [] []] runs any sequence of dispatches (SSend), frame
   flushes (SFlush) and consumptions by the main loop (SPop) on a fresh connection, with the model's own
   [flush] and pending maps, and records the pose updates of entity e that were sent and that were consumed
   (identified by their origin timestamps).  For every such sequence: what is consumed is a subsequence of what
   was sent - in order, nothing repeated, intermediate values possibly skipped - and once nothing of e is
   pending or queued any more, the last one consumed is the latest one sent. *)
Theorem C11_order_and_latest : ∀ e ops,
  let '(cn, sent, consumed) := sched_run e ops conn0 [] [] in
  sublist consumed sent ∧
  (queued_poses e (c_queue cn) = [] → pending_pose e cn = [] → last consumed = last sent).
Proof. exact pose_order. Qed.
Print Assumptions C11_order_and_latest.

(* the receiver goroutine's dispatch of the global model is exactly [sched_send] on the connection's record *)
Theorem C11_dispatch_is_scheduler : ∀ cfg st c cn r,
  conns st !! c = Some cn → c_open cn = true → (∀ ty, r ≠ RUndecodable ty) →
  dispatch cfg st c r = (upd_conn c (sched_send r) st, [], VOk).
Proof. exact dispatch_is_sched_send. Qed.

(* what is consumed is handled inside the sender's session (every reachable state) ... *)
Theorem C11_reachable_step : ∀ cfg h c cn sid p SS r hint,
  member_of cfg h c cn sid p SS → session_local r = true →
  handle cfg (final cfg h) c r hint = apply_sstep (final cfg h) c sid (sstep cfg c p (c_own cn) SS r).
Proof. exact member_step. Qed.
(* ... where an update of an existing own entity that carries a pose stores exactly that pose (so it is the pose
   handed to newcomers) and relays exactly that pose once to every other member ... *)
Theorem C11_processed : ∀ cfg c p own SS, parts_injective SS → s_parts SS !! p = Some c →
  ∀ eid ps ots e, s_ents SS !! eid = Some e → e_owner e = p → flag_on cfg F_POSE_B = false →
  ∃ S1 rel, sstep cfg c p own SS (RPose eid (Some ps) ots) = (S1, own, rel) ∧
    s_ents S1 = <[eid := {| e_owner := e_owner e; e_persist := e_persist e; e_flag := e_flag e; e_pose := ps |}]> (s_ents SS) ∧
    s_parts S1 = s_parts SS ∧ exactly_once_to_others SS p c (MPoseB ots eid ps) rel.
Proof. exact pose_accepted_step. Qed.
(* ... and an update that names an unknown or foreign entity or carries no pose is dropped without any effect.
   An entity id is never reissued (C10), so after an entity's deletion its id stays unknown: no pose is relayed
   for it any more. *)
Theorem C11_dropped : ∀ cfg c p own SS eid po ots,
  (s_ents SS !! eid = None ∨ po = None ∨ ∃ e, s_ents SS !! eid = Some e ∧ e_owner e ≠ p) →
  sstep cfg c p own SS (RPose eid po ots) = (SS, own, []).
Proof. exact pose_dropped. Qed.
Theorem C11_deleted_stays_unknown : ∀ cfg k SS SS', k + 1 < two32 → wf cfg k SS → sess_trans cfg (Some SS) (Some SS') →
  ∀ e, s_ents SS !! e = None → is_Some (s_ents SS' !! e) → s_egen SS < e ≤ s_egen SS'.
Proof. intros cfg k SS SS' Hk W T. exact (sb_new_ent _ _ (stable_trans cfg k SS SS' Hk W T)). Qed.

Example C11_nonvacuous :
  (* three updates of entity 7 and one of entity 8 before a frame, one more after it: 1 and 2 are coalesced away *)
  let ops := [SSend (RPose 7 None 1); SSend (RPose 7 None 2); SSend (RPose 8 None 9); SSend (RPose 7 None 3); SFlush;
              SSend (RPose 7 None 4); SPop; SPop; SFlush; SPop] in
  (sched_run 7 ops conn0 [] []).1.2 = [1; 2; 3; 4] ∧ (sched_run 7 ops conn0 [] []).2 = [3; 4].
Proof. vm_compute. split; reflexivity. Qed.

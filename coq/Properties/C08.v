(* C08 — no client behaviour can crash the server, wedge a handler or leave a ghost.
   Statements only; proofs in proofs/ConnProofs.v, model in Conn.v, regenerated facts in GenConn.v. *)
From Coq Require Import List Bool Arith NArith.
From hagall Require Import Conn ConnGen GenConn ConnProofs.
Import ListNotations.

(* ---- obligations over the facts regenerated from the Go sources *)

(* disconnect() does not block, the sender keeps discarding after a failed send, the scheduler
   queue is discarded while the connection is being ended, writes have a deadline, the channels
   have a capacity *)
Theorem C08_facts_shell_good : good gen_params = true.
Proof. reflexivity. Qed.

(* Handler.HandleDisconnect is called from one place, reached from one place, in the main loop *)
Theorem C08_facts_single_disconnect_site :
  handle_disconnect_direct_sites = 1%N /\ handle_disconnect_entry_sites = 1%N
  /\ handle_disconnect_in_main_loop_only = true /\ shell_recovers = false.
Proof. repeat split; reflexivity. Qed.

(* the select has the idle case and the message case re-arms the timer *)
Theorem C08_facts_idle : idle_case_present = true /\ idle_rearmed_on_message = true.
Proof. split; reflexivity. Qed.

(* no sub-message of a decoded request is read without a nil check *)
Theorem C08_facts_no_nil_deref : nil_deref_sites = [].
Proof. reflexivity. Qed.

(* ---- theorems, for all executions of the shell *)

Theorem C08_disconnect_at_most_once :
  forall p s, reachable p s -> disconnect_calls s <= 1.
Proof. exact disconnect_at_most_once. Qed.
Print Assumptions C08_disconnect_at_most_once.

Theorem C08_main_never_self_blocks :
  forall s, reachable gen_params s -> main_blocked_on_disconnect s = false.
Proof. exact (never_self_blocked gen_params eq_refl). Qed.
Print Assumptions C08_main_never_self_blocks.

(* with a blocking disconnect(): the exact bound, and what happens beyond it *)
Theorem C08_main_self_block_bound :
  forall p s, reachable p s -> main s = MBlockDisc -> cap_disc p <= main_disc_calls s + 1.
Proof. exact main_self_block_bound. Qed.
Print Assumptions C08_main_self_block_bound.

Theorem C08_self_block_is_permanent :
  forall p s l s', main s = MBlockDisc -> cap_disc p <= dchan s -> step p l s = Some s' ->
    main s' = MBlockDisc /\ cap_disc p <= dchan s'.
Proof. exact self_block_is_permanent. Qed.
Print Assumptions C08_self_block_is_permanent.

(* the shell as it was at commit 502e605 (blocking send, capacity 8): nine failing requests
   consumed before the disconnect case is selected wedge the main loop for ever *)
Theorem C08_burst_refuted :
  exists s, forallb client_label burst_witness = true
            /\ run params_before burst_witness init = Some s
            /\ main_blocked_on_disconnect s = true /\ stuck params_before s = true
            /\ disconnect_calls s = 0 /\ gauge s = 1 /\ main_disc_calls s = 9 /\ cap_disc params_before <= dchan s.
Proof. exact burst_refuted. Qed.
Print Assumptions C08_burst_refuted.

Theorem C08_clean_end :
  forall s, creachable gen_params s -> fired s = true ->
    (returned s = false -> exists l, quiet l = true /\ enabled gen_params l s = true)
    /\ (forall ls s', forallb quiet ls = true -> run gen_params ls s = Some s' -> length ls <= measure s)
    /\ (forall ls s', forallb quiet ls = true -> run gen_params ls s = Some s' ->
          (forall l, quiet l = true -> enabled gen_params l s' = false) -> clean_final s' = true).
Proof. exact (clean_end gen_params C08_facts_shell_good). Qed.
Print Assumptions C08_clean_end.

Theorem C08_idle :
  (forall p s n, main s = MSelect -> idle_fired s = false -> crashed s = false -> idle_timeout p <= idle s + n ->
     exists s', run p (repeat LTick n) s = Some s' /\ enabled p LMainIdle s' = true)
  /\ (forall p s, enabled p LMainIdle s = true -> idle_timeout p <= idle s /\ idle_fired s = false)
  /\ (forall s s', step gen_params LMainMsg s = Some s' -> idle s' = 0 /\ idle_fired s' = false)
  /\ (forall p l s s', step p l s = Some s' -> l <> LTick -> idle s' <= idle s).
Proof. exact (idle_clauses gen_params eq_refl). Qed.
Print Assumptions C08_idle.

(* why the handlers must be total: a handler panic skips HandleDisconnect and kills the process *)
Theorem C08_panic_skips_disconnect :
  forall p, p = params_before \/ p = params_fixed ->
  exists s s', run p panic_witness init = Some s
            /\ main s = MPanicked /\ disconnect_calls s = 0 /\ gauge s = 1 /\ in_session s = true
            /\ step p LRecvDispatch s = Some s' /\ crashed s' = true.
Proof. exact panic_skips_disconnect. Qed.
Print Assumptions C08_panic_skips_disconnect.

(* ---- the hypotheses are satisfiable on non trivial values *)

(* a reachable state in which HandleDisconnect has run (C08_disconnect_at_most_once) *)
Example C08_once_example :
  exists s, reachable params_fixed s /\ disconnect_calls s = 1 /\ clean_final s = true.
Proof. exact once_example. Qed.

(* the bound of C08_main_self_block_bound is attained (C08_burst_refuted is the case of nine own calls) *)
Example C08_self_block_bound_tight :
  exists s, run params_before bound_tight_witness init = Some s
            /\ main s = MBlockDisc /\ main_disc_calls s + 1 = cap_disc params_before.
Proof. exact self_block_bound_tight. Qed.

(* a reachable state in which a failure has fired and Handle has not returned (C08_clean_end) *)
Example C08_clean_end_premises :
  exists s, run params_fixed burst_witness init = Some s /\ fired s = true /\ returned s = false /\ good params_fixed = true.
Proof. eexists. split; [vm_compute; reflexivity|]. vm_compute. repeat split. Qed.

(* ... from which the quiet steps lead to the clean end *)
Example C08_clean_end_reached :
  exists s, run params_fixed (burst_witness ++ [LMainLoop; LMainDisc; LMainHDClose; LMainHDLeave; LMainCancel; LRecvErr; LRecvDisc; LSendExit; LMainWaitDone]) init = Some s
            /\ clean_final s = true.
Proof. exact burst_fixed_clean. Qed.

(* the other ways the shell of commit 502e605 wedges, each replayed on the real code by harness/c08 *)
Example C08_wait_wedge :
  exists s, forallb client_label wait_wedge_witness = true /\ run params_before wait_wedge_witness init = Some s
            /\ main s = MWait /\ snd s = SFailed /\ stuck params_before s = true /\ disconnect_calls s = 1.
Proof. exact wait_wedge. Qed.

Example C08_queue_wedge :
  exists s, forallb client_label queue_wedge_witness = true /\ run params_before queue_wedge_witness init = Some s
            /\ main s = MWait /\ recv s = RHave KValid /\ stuck params_before s = true /\ disconnect_calls s = 1.
Proof. exact queue_wedge. Qed.

Example C08_frame_wedge :
  exists s, forallb client_label frame_wedge_witness = true /\ run params_before frame_wedge_witness init = Some s
            /\ main s = MLeave /\ frame_blocked s = true /\ stuck params_before s = true /\ disconnect_calls s = 0.
Proof. exact frame_wedge. Qed.

Example C08_stall_wedge :
  exists s, forallb client_label stall_wedge_witness = true /\ run params_before stall_wedge_witness init = Some s
            /\ main s = MBlockSend /\ stuck params_before s = true /\ fired s = false
            /\ (idle_timeout params_before <=? idle s) = true /\ enabled params_before LMainIdle s = false.
Proof. exact stall_wedge. Qed.

(* the idle case: a state in the select after a full timeout of silence *)
Example C08_idle_example :
  exists s', run params_fixed (repeat LTick 300) init = Some s' /\ enabled params_fixed LMainIdle s' = true.
Proof. eexists. split; vm_compute; reflexivity. Qed.

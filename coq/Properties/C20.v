(* C20 — the ground-plane index is complete; its geometry agrees with a reference.
   Statements only; the proofs are in proofs/GridProofs.v, the executable model in Grid.v. *)
From Coq Require Import ZArith QArith List.
From hagall Require Import Grid GenGrid.
From hagall.proofs Require Import GridProofs.
Import ListNotations.

(* ---- the index, for every sequence of valid quads of any length, every resolution and every
        bound [fuel] on the merge loop (the Go loop is fuel = merge_fuel, see C20_model_is_fold) *)
Theorem C20_complete :
  forall (fuel : nat) (res : Z), (0 < res)%Z -> forall qs : list quad, Forall valid_quad qs ->
  let g := inserts fuel res qs in
  forall id q y x, stored g id q -> (y < nrows g)%nat -> (x < ncols g)%nat -> overlaps_cell g q y x ->
  In id (get_cell (g_cells g) y x).
Proof. exact complete_all. Qed.
Print Assumptions C20_complete.

Theorem C20_region_once :
  forall (fuel : nat) (res : Z), (0 < res)%Z -> forall qs : list quad, Forall valid_quad qs ->
  let g := inserts fuel res qs in
  forall lo hi, covers g lo hi ->
  NoDup (get_region g lo hi) /\ forall id, (exists q, stored g id q) <-> In id (get_region g lo hi).
Proof. exact region_once_all. Qed.
Print Assumptions C20_region_once.

Theorem C20_vertical_ray_hits :
  forall (fuel : nat) (res : Z), (0 < res)%Z -> forall qs : list quad, Forall valid_quad qs ->
  let g := inserts fuel res qs in
  forall id q r, stored g id q -> spans r q -> exists id' t, grid_intersect g r = IRes (Some id') (Fin t).
Proof. exact vertical_ray_hits_all. Qed.
Print Assumptions C20_vertical_ray_hits.

Theorem C20_bounds :
  forall (fuel : nat) (res : Z), (0 < res)%Z -> forall qs : list quad, Forall valid_quad qs ->
  let g := inserts fuel res qs in
  forall id q, stored g id q -> in_bounds g q.
Proof. exact bounds_all. Qed.
Print Assumptions C20_bounds.

Theorem C20_plane_count :
  forall (fuel : nat) (res : Z), (0 < res)%Z -> forall qs : list quad, Forall valid_quad qs ->
  let g := inserts fuel res qs in
  g_planecount g = N.of_nat (length (all_ids g)) /\
  d_planes (get_debug_info g) = N.of_nat (length (all_ids g)) /\
  (forall id, In id (all_ids g) <-> exists q, stored g id q).
Proof. exact plane_count_all. Qed.
Print Assumptions C20_plane_count.

(* the executable predicate P_C20 that the oracle evaluates on implementation states is empty on the model *)
Theorem C20_P_model_empty :
  forall (fuel : nat) (res : Z), (0 < res)%Z -> forall qs : list quad, Forall valid_quad qs ->
  let g := inserts fuel res qs in
  incomplete 0 g = [] /\ out_of_bounds 0 g = [] /\ count_ok g = true.
Proof. exact (fun fuel res R qs V => P_model_empty _ (inserts_Inv fuel res qs R V)). Qed.
Print Assumptions C20_P_model_empty.

Theorem C20_model_is_fold :
  forall res qs, inserts merge_fuel res qs = fold_left insert qs (new_grid 1 1 res).
Proof. exact inserts_fold. Qed.

(* finding F14: mergeQuads as repaired fits the grid to the blended plane before taking its cells; for the exact
   model (every stored plane inside the bounds: [Inv]) that changes nothing, so all the theorems above are about
   the repaired code as well; in float32 the blend can land one ulp outside, which is what made InsertQuad panic *)
Theorem C20_merge_fit_noop :
  forall g h nq eq, Inv g -> nth_error (g_planes g) h = Some eq ->
  pos_ext nq -> vy (qe nq) == 0 -> in_bounds g nq ->
  merge_quads g h nq = merge_quads_cells g h nq.
Proof. exact merge_quads_fit_noop. Qed.
Print Assumptions C20_merge_fit_noop.

(* ---- the session's grid survives joins and departures when Init creates it only with a new state *)
Theorem C20_session_retention :
  forall ops, sess_run false ops = fold_left insert (inserted ops) (new_grid 1 1 module_resolution).
Proof. exact session_retention. Qed.
Print Assumptions C20_session_retention.

(* an Init that replaces the grid at every join loses the stored planes (finding F3 on the original tree) *)
Theorem C20_session_retention_refuted :
  exists ops, g_planecount (sess_run true ops) <>
              g_planecount (fold_left insert (inserted ops) (new_grid 1 1 module_resolution)).
Proof. exact session_retention_refuted. Qed.

(* ---- obligations over the facts regenerated from the Go sources (coq/GenGrid.v) *)
Theorem C20_gen_merge_epsilon : GenGrid.merge_epsilon = Some Grid.merge_epsilon.
Proof. reflexivity. Qed.
Theorem C20_gen_merge_blend : GenGrid.merge_blend = Some Grid.merge_blend.
Proof. reflexivity. Qed.
Theorem C20_gen_range_epsilon : GenGrid.range_epsilon = Some Grid.range_epsilon.
Proof. reflexivity. Qed.
Theorem C20_gen_ray_reach : GenGrid.ray_reach = Some Grid.ray_reach.
Proof. reflexivity. Qed.
Theorem C20_gen_module_grid_args : GenGrid.module_grid_args = Some (1, 1, Grid.module_resolution)%Z.
Proof. reflexivity. Qed.
Theorem C20_gen_init_recreates_grid : GenGrid.init_recreates_grid = Some false.
Proof. reflexivity. Qed.

(* ---- the hypotheses are satisfiable on a non-trivial value: two appends, growth, one merge *)
Example C20_ex_valid : Forall valid_quad ex_qs.
Proof. exact ex_qs_valid. Qed.

Example C20_ex_state :
  let g := inserts merge_fuel 1 ex_qs in
  (g_planecount g, g_mergecount g, nrows g, ncols g, g_minx g, g_maxx g) = (2%N, 2%N, 4%nat, 6%nat, (-2)%Z, 4%Z).
Proof. vm_compute. reflexivity. Qed.

Example C20_ex_complete_hyps :
  let g := inserts merge_fuel 1 ex_qs in
  exists id q y x, stored g id q /\ (y < nrows g)%nat /\ (x < ncols g)%nat /\ overlaps_cell g q y x.
Proof.
  cbv zeta. eexists 0%nat, _, 1%nat, 2%nat. split; [vm_compute; reflexivity|].
  split; [vm_compute; repeat constructor|]. split; [vm_compute; repeat constructor|].
  apply overlaps_b_cell; vm_compute; reflexivity.
Qed.

Example C20_ex_region_hyps : let g := inserts merge_fuel 1 ex_qs in covers g (cover_lo g) (cover_hi g).
Proof. exact (covers_cover _). Qed.

Example C20_ex_ray_hyps :
  let g := inserts merge_fuel 1 ex_qs in
  exists id q, stored g id q /\ spans (centre_ray q) q.
Proof. cbv zeta. eexists 1%nat, _. split; [vm_compute; reflexivity|apply centre_ray_spans]. Qed.

Example C20_ex_session : inserted [SJoin; SInsert f3_quad; SJoin; SLeave; SInsert f3_quad] = [f3_quad; f3_quad].
Proof. reflexivity. Qed.

(* C06, concurrent reading: a departure (websocket/realtime.go leaveSession) racing the joins, the entity
   additions / deletions and the other departures of the same session.  Statements only.
   Model: coq/ConcLeave.v — threads are connections (a connection's requests are handled one after the other,
   so they form one sequential program), one instruction per critical section of package models;
   [sched_run (cinit progs) σ] runs schedule σ (a list of thread indices) from the empty session; [c_log] is
   what every instruction did, in execution order.  A departure unfolds at run time into ILeaveSnapshot p, then
   per id of p's own-set ILeaveRemove p e (lookup; skip if missing or persistent) and, if not skipped,
   ILeaveDelete p e (removal by id), then ILeaveFinish p (RemoveParticipant): every one of them is a scheduling
   point.  Proofs: proofs/ConcLeaveProofs.v (invariants preserved by every instruction of every thread;
   induction over the schedule).

   The theorems are conditional on facts about the code, given as boolean predicates over the programs:
     wellformed            every connection's program is a sequence of stays "join as p, entity requests of p,
                           departure of p" (the last stay may lack the departure); it joins under a participant
                           id at most once; no participant id is mentioned by two connections
                           (Session.NewParticipantID hands an id out once; handlers use h.currentParticipant);
     uses_full_departure   the entity loop of leaveSession is unconditional (no ILeaveCheckAlone: seeded change
                           C06-e reads ParticipantCount() == 1 first and skips the loop when alone);
   and on the code's own bound: fewer than 2^32 steps (the entity id counter is a uint32 that is never recycled).
   Without uses_full_departure the clause is false: C06_conc_shortcut_refuted.  Without "no participant id is
   used by two connections" it is false as well: C06_conc_needs_own_participant_refuted. *)
From hagall Require Import Base ConcLeave.
From hagall.proofs Require Import ConcLeaveProofs.

(* ---------------------------------------------------------------- no orphans --------------------------------- *)
(* Any number of connections, any well-formed programs with the full departure, any schedule: once every
   connection has finished, every non-persistent entity of the session is owned by a current member. *)
Theorem C06_conc_no_orphans :
  ∀ progs, wellformed progs = true → uses_full_departure progs = true →
  ∀ σ, N.of_nat (length σ) < two32 →
  let st := sched_run (cinit progs) σ in
  complete st = true →
  ∀ e en, s_ents (c_store st) !! e = Some en → e_persist en = false → e_owner en ∈ s_members (c_store st).
Proof. exact conc_no_orphans. Qed.
Print Assumptions C06_conc_no_orphans.

(* ... and at EVERY moment of every schedule: a non-persistent entity is owned by a member (RemoveParticipant
   comes after the loop), and if that member's departure is under way ([leaving_of]: its connection stands at
   an ILeaveRemove / ILeaveDelete / ILeaveFinish), the entity is among the ids of its snapshot that the loop
   has not passed yet ([pend]) *)
Theorem C06_conc_no_orphans_always :
  ∀ progs, wellformed progs = true → uses_full_departure progs = true →
  ∀ σ, N.of_nat (length σ) < two32 →
  let st := sched_run (cinit progs) σ in
  ∀ e en, s_ents (c_store st) !! e = Some en → e_persist en = false →
    e_owner en ∈ s_members (c_store st) ∧
    ∀ tid prog, c_thr st !! tid = Some prog → leaving_of prog = Some (e_owner en) → e ∈ pend prog.
Proof. exact conc_no_orphans_always. Qed.
Print Assumptions C06_conc_no_orphans_always.

(* ---------------------------------------------------------------- persistent entities ------------------------ *)
(* Any well-formed programs (the shortcut departure included), any reachable state, any next step of any
   connection: a persistent entity is still there, unchanged, after the step — unless the step is its owner's
   explicit deletion request, executed while the owner is a member.  No departure removes it. *)
Theorem C06_conc_persistent_survive_step :
  ∀ progs, wellformed progs = true →
  ∀ σ tid, N.of_nat (length σ + 1) < two32 →
  let st := sched_run (cinit progs) σ in
  ∀ e en, s_ents (c_store st) !! e = Some en → e_persist en = true →
    s_ents (c_store (step st tid)) !! e = Some en ∨
    ∃ rest, c_thr st !! tid = Some (IDelEntity (e_owner en) e :: rest) ∧ e_owner en ∈ s_members (c_store st) ∧
      c_log (step st tid) = c_log st ++ [EvDel (e_owner en) e].
Proof. exact conc_persistent_survive_step. Qed.
Print Assumptions C06_conc_persistent_survive_step.

(* between any two moments of a schedule: a persistent entity present at the first is present and unchanged at
   the second, or its owner's deletion request was executed in between *)
Theorem C06_conc_persistent_survive :
  ∀ progs, wellformed progs = true →
  ∀ σ1 σ2, N.of_nat (length (σ1 ++ σ2)) < two32 →
  let st1 := sched_run (cinit progs) σ1 in
  let st2 := sched_run (cinit progs) (σ1 ++ σ2) in
  ∀ e en, s_ents (c_store st1) !! e = Some en → e_persist en = true →
    ∃ l, c_log st2 = c_log st1 ++ l ∧
      (s_ents (c_store st2) !! e = Some en ∨ EvDel (e_owner en) e ∈ l).
Proof. exact conc_persistent_survive. Qed.
Print Assumptions C06_conc_persistent_survive.

(* the leaver's own persistent entities: those it holds when its departure takes its snapshot are there,
   unchanged, at every later moment (nobody is left who could delete them) *)
Theorem C06_conc_departure_keeps_persistent :
  ∀ progs, wellformed progs = true →
  ∀ σ1 tid σ2 p rest, N.of_nat (length (σ1 ++ tid :: σ2)) < two32 →
  let st1 := sched_run (cinit progs) σ1 in
  let st2 := sched_run (cinit progs) (σ1 ++ tid :: σ2) in
  c_thr st1 !! tid = Some (ILeaveSnapshot p :: rest) → p ∈ s_members (c_store st1) →
  ∀ e, s_ents (c_store st1) !! e = Some (Ent p true) → s_ents (c_store st2) !! e = Some (Ent p true).
Proof. exact conc_departure_keeps_persistent. Qed.
Print Assumptions C06_conc_departure_keeps_persistent.

(* ---------------------------------------------------------------- exactness ---------------------------------- *)
(* Any well-formed programs, any schedule σ1 after which connection tid is about to take the snapshot of p's
   departure (p a member), any continuation σ2.  st1 is the state at the snapshot, l what is logged from it on:
   (a) nothing was removed in p's name before;
   (b) whatever p's departure removes was an entity of p, non-persistent, at the snapshot — nobody else's, and
       nothing added later (p's connection adds nothing during its departure) — and it is gone for good;
   (c) once p's RemoveParticipant has returned, p's departure has removed ALL of p's non-persistent entities of
       the snapshot;
   (d) every entity of the snapshot state is still there unchanged, or was deleted by its OWN owner's request,
       or was non-persistent and removed by its OWN owner's departure. *)
Theorem C06_conc_departure_exact :
  ∀ progs, wellformed progs = true →
  ∀ σ1 tid σ2 p rest, N.of_nat (length (σ1 ++ tid :: σ2)) < two32 →
  let st1 := sched_run (cinit progs) σ1 in
  let st2 := sched_run (cinit progs) (σ1 ++ tid :: σ2) in
  c_thr st1 !! tid = Some (ILeaveSnapshot p :: rest) → p ∈ s_members (c_store st1) →
  (∀ e, EvLeaveRm p e ∉ c_log st1) ∧
  ∃ l, c_log st2 = c_log st1 ++ l ∧
    (∀ e, EvLeaveRm p e ∈ l →
       s_ents (c_store st1) !! e = Some (Ent p false) ∧ s_ents (c_store st2) !! e = None) ∧
    ((∃ b, EvFinish p b ∈ l) → ∀ e, s_ents (c_store st1) !! e = Some (Ent p false) → EvLeaveRm p e ∈ l) ∧
    (∀ e en, s_ents (c_store st1) !! e = Some en →
       s_ents (c_store st2) !! e = Some en ∨ EvDel (e_owner en) e ∈ l ∨
       (e_persist en = false ∧ EvLeaveRm (e_owner en) e ∈ l)).
Proof. exact conc_departure_exact. Qed.
Print Assumptions C06_conc_departure_exact.

(* ---------------------------------------------------------------- the shortcut ------------------------------- *)
(* seeded change C06-e.  connection 0 = participant 1: join, add a non-persistent entity (id 1), departure with
   the shortcut; connection 1 = participant 2: join.  Schedule 0 0 0 1 0: 1 reads "I am alone", 2 joins, 1's
   RemoveParticipant: all connections have finished, the session is alive, 2 is a member and the session still
   holds entity 1 of participant 1, who is gone *)
Theorem C06_conc_shortcut_refuted :
  ∃ progs σ, let st := sched_run (cinit progs) σ in
    wellformed progs = true ∧ uses_full_departure progs = false ∧ N.of_nat (length σ) < two32 ∧
    complete st = true ∧ s_ended (c_store st) = false ∧
    ∃ q e en, q ∈ s_members (c_store st) ∧ s_ents (c_store st) !! e = Some en ∧ e_persist en = false ∧
      e_owner en ∉ s_members (c_store st).
Proof. exact conc_shortcut_refuted. Qed.
Print Assumptions C06_conc_shortcut_refuted.

(* the full departure does not suffice if two connections may act under one participant id *)
Theorem C06_conc_needs_own_participant_refuted :
  ∃ progs σ, let st := sched_run (cinit progs) σ in
    uses_full_departure progs = true ∧ threads_disjoint progs = false ∧
    forallb (λ prog, wf_from MOut prog && bool_decide (NoDup (joins prog))) progs = true ∧
    N.of_nat (length σ) < two32 ∧ complete st = true ∧
    ∃ e en, s_ents (c_store st) !! e = Some en ∧ e_persist en = false ∧ e_owner en ∉ s_members (c_store st).
Proof. exact conc_needs_own_participant_refuted. Qed.
Print Assumptions C06_conc_needs_own_participant_refuted.

(* ---------------------------------------------------------------- the end of the session --------------------- *)
(* at every moment: the session has ended exactly when some join succeeded and no member is left, and exactly
   when some RemoveParticipant has reported "last" (the report that makes the caller unregister the session) *)
Theorem C06_conc_ended_exact :
  ∀ progs, wellformed progs = true →
  ∀ σ, N.of_nat (length σ) < two32 →
  let st := sched_run (cinit progs) σ in
  (s_ended (c_store st) = true ↔ s_members (c_store st) = ∅ ∧ ∃ q, EvJoin q true ∈ c_log st) ∧
  (s_ended (c_store st) = true ↔ ∃ p, EvFinish p true ∈ c_log st).
Proof. exact conc_ended_exact. Qed.
Print Assumptions C06_conc_ended_exact.

(* ANY programs: once ended, the session stays ended and empty and no join succeeds any more *)
Theorem C06_conc_no_join_after_end :
  ∀ progs σ1 σ2,
  let st1 := sched_run (cinit progs) σ1 in
  let st2 := sched_run (cinit progs) (σ1 ++ σ2) in
  s_ended (c_store st1) = true →
  s_ended (c_store st2) = true ∧ s_members (c_store st2) = ∅ ∧
  ∃ l, c_log st2 = c_log st1 ++ l ∧ ∀ q, EvJoin q true ∉ l.
Proof. exact conc_no_join_after_end. Qed.
Print Assumptions C06_conc_no_join_after_end.

(* ---------------------------------------------------------------- non-vacuity -------------------------------- *)
(* connection 0 = participant 1: adds entities 1, 2 (persistent), 4, deletes 1, leaves;
   connection 1 = participant 2: adds 3, leaves, joins again as participant 4, adds 7 (persistent);
   connection 2 = participant 3: adds 5 (persistent), 6, asks to delete 2 (not its own: refused).
   The schedule interleaves the two departures with each other, with additions of the third connection (between
   1's snapshot and its lookups, between a lookup and the removal it decided) and with the later join.  The facts
   hold; at the end the members are 3 and 4, no orphan, the persistent entities 2 (of 1, gone), 5, 7 are there. *)
Definition ex_progs : list (list instr) :=
  [ [IJoin 1; IAddEntity 1 false; IAddEntity 1 true; IAddEntity 1 false; IDelEntity 1 1; ILeaveSnapshot 1];
    [IJoin 2; IAddEntity 2 false; ILeaveSnapshot 2; IJoin 4; IAddEntity 4 true];
    [IJoin 3; IAddEntity 3 true; IAddEntity 3 false; IDelEntity 3 2] ].
Definition ex_sched : list nat := [0;0;0;1;2;1;0;0;0;2;0;1;0;2;1;0;1;2;0;1;1;1]%nat.

Example ConcLeave_ex_facts :
  wellformed ex_progs = true ∧ uses_full_departure ex_progs = true ∧
  N.of_nat (length ex_sched) < two32 ∧ complete (sched_run (cinit ex_progs) ex_sched) = true.
Proof. repeat split; vm_compute; reflexivity. Qed.

Example C06_conc_ex_final :
  let st := sched_run (cinit ex_progs) ex_sched in
  obs_members (c_store st) = [3; 4] ∧ s_ended (c_store st) = false ∧
  obs_ents (c_store st) = [(7, (4, true)); (5, (3, true)); (2, (1, true)); (6, (3, false))] ∧
  orphans (c_store st) = [] ∧
  c_log st = [EvJoin 1 true; EvAdd 1 1 false; EvAdd 1 2 true; EvJoin 2 true; EvJoin 3 true; EvAdd 2 3 false;
              EvAdd 1 4 false; EvDel 1 1; EvAdd 3 5 true; EvAdd 3 6 false; EvLeaveRm 1 4; EvLeaveRm 2 3;
              EvFinish 1 false; EvFinish 2 false; EvJoin 4 true; EvAdd 4 7 true].
Proof. repeat split; vm_compute; reflexivity. Qed.

(* a moment in the middle (13 steps): both departures are under way — 1 stands between the lookup of entity 4
   and its removal, 2 before the lookup of entity 3; both entities are still there, owned by members, and pending *)
Example C06_conc_ex_middle :
  let st := sched_run (cinit ex_progs) (take 13 ex_sched) in
  c_thr st = [ [ILeaveDelete 1 4; ILeaveFinish 1];
               [ILeaveRemove 2 3; ILeaveFinish 2; IJoin 4; IAddEntity 4 true];
               [IAddEntity 3 false; IDelEntity 3 2] ] ∧
  obs_ents (c_store st) = [(3, (2, false)); (5, (3, true)); (2, (1, true)); (4, (1, false))] ∧
  obs_members (c_store st) = [1; 3; 2] ∧
  leaving_of [ILeaveDelete 1 4; ILeaveFinish 1] = Some 1 ∧ pend [ILeaveDelete 1 4; ILeaveFinish 1] = [4] ∧
  orphans (c_store st) = [].
Proof. repeat split; vm_compute; reflexivity. Qed.

(* the hypotheses of C06_conc_departure_exact / C06_conc_departure_keeps_persistent: after 8 steps connection 0
   is about to take the snapshot of 1's departure, 1 is a member and holds 2 (persistent) and 4; its departure
   removes exactly 4 *)
Example C06_conc_ex_exact :
  let st1 := sched_run (cinit ex_progs) (take 8 ex_sched) in
  let st2 := sched_run (cinit ex_progs) ex_sched in
  c_thr st1 !! 0%nat = Some [ILeaveSnapshot 1] ∧ bool_decide (1 ∈ s_members (c_store st1)) = true ∧
  obs_ents (c_store st1) = [(3, (2, false)); (2, (1, true)); (4, (1, false))] ∧
  ex_sched = take 8 ex_sched ++ 0%nat :: drop 9 ex_sched ∧
  removed_by 1 (c_log st2) = [4] ∧ removed_by 2 (c_log st2) = [3] ∧
  s_ents (c_store st2) !! 2 = Some (Ent 1 true) ∧ s_ents (c_store st2) !! 4 = None.
Proof. repeat split; vm_compute; reflexivity. Qed.

(* the same race as the shortcut witness with the full departure: no orphan *)
Example C06_conc_ex_full_vs_shortcut :
  let progs := [ [IJoin 1; IAddEntity 1 false; ILeaveSnapshot 1]; [IJoin 2] ] in
  let st := sched_run (cinit progs) [0; 0; 0; 1; 0; 0; 0]%nat in
  wellformed progs = true ∧ uses_full_departure progs = true ∧ complete st = true ∧
  obs_members (c_store st) = [2] ∧ obs_ents (c_store st) = [] ∧ orphans (c_store st) = [] ∧
  orphans (c_store (sched_run (cinit w06_progs) w06_sched)) = [1] ∧
  obs_members (c_store (sched_run (cinit w06_progs) w06_sched)) = [2].
Proof. repeat split; vm_compute; reflexivity. Qed.

(* the end of a session: participant 1 leaves as the last member (its persistent entity stays in the ended
   session); the join of participant 2, which comes after, is refused *)
Example C06_conc_ex_end :
  let progs := [ [IJoin 1; IAddEntity 1 true; ILeaveSnapshot 1]; [IJoin 2; IAddEntity 2 false] ] in
  let st := sched_run (cinit progs) [0; 0; 0; 0; 0; 1; 1]%nat in
  wellformed progs = true ∧ complete st = true ∧
  s_ended (c_store st) = true ∧ obs_members (c_store st) = [] ∧ obs_ents (c_store st) = [(1, (1, true))] ∧
  c_log st = [EvJoin 1 true; EvAdd 1 1 true; EvFinish 1 true; EvJoin 2 false].
Proof. repeat split; vm_compute; reflexivity. Qed.

(* Properties/C01.v — Every participant's replicated view converges to the server's session state.
   Proved here: the newcomer clause, and the participant / entity part of the view simulation as one-step lemmas
   (a replica matching the state before applies the relayed message and matches the state after).  The simulation
   over whole histories including components / actions / assets is stated in DESIGN.md and decided on model and
   implementation traces by the executable predicate P_C01 (coq/Preds2.v), not proved.
   Only statements; proofs are in proofs/PC01.v, proofs/Local.v, proofs/PC02.v. *)
From stdpp Require Import relations.
From hagall Require Import Model Preds2.
From hagall.proofs Require Import Relay Inv Session Local Trans WF Mono Reach PC02 PC01.

(* A newcomer is handed exactly the state: after answering the join the server sends SessionState listing exactly
   the participants (itself included), exactly the entities with owner, flag and latest pose, exactly the
   components; then VIKJA_STATE with exactly the entity actions and ODAL_STATE with exactly the asset instances. *)
Theorem C01_newcomer_outputs : ∀ cfg st c rid n ots SS,
  sessions st !! n = Some SS → flag_on cfg F_SESSION_STATE = false → flag_on cfg F_JOIN_B = false →
  let S1 := entered SS c in
  let p := u32_succ (s_pgen SS) in
  (enter cfg st c rid n ots).1.2 =
    [(c, MJoinResp rid n (s_uuid SS) p); (c, session_state_msg S1)] ++ broadcast S1 p (MJoinB ots p) ++ module_join_msgs cfg c S1.
Proof. exact enter_outputs. Qed.
Theorem C01_newcomer_session_state : ∀ SS,
  ∃ ps es cs, session_state_msg SS = MSessionState ps es cs ∧
    (∀ q, q ∈ ps ↔ is_Some (s_parts SS !! q)) ∧ NoDup ps ∧
    (∀ x, x ∈ es ↔ ∃ e ent, s_ents SS !! e = Some ent ∧ x = ent_to_pb e ent) ∧ NoDup (map ep_id es) ∧
    (∀ x, x ∈ cs ↔ st_comps (s_store SS) !! (cp_tid x, cp_eid x) = Some (cp_data x)).
Proof. exact session_state_exact. Qed.
Print Assumptions C01_newcomer_session_state.
Theorem C01_newcomer_module_state : ∀ cfg c SS,
  module_join_msgs cfg c SS =
    (if cfg_vikja cfg then [(c, MVikjaState (map snd (map_to_list (s_actions SS))))] else []) ++
    (if cfg_odal cfg then [(c, MOdalState (map snd (map_to_list (s_assets SS))))] else []).
Proof. exact module_state_exact. Qed.

(* every mutating handler changes the model first and then relays the same change exactly once to every other
   member (C02); a replica whose participants and entities match the state before can apply that message (it is
   never an add of something it has, nor an update of something it was not told about) and matches the state after *)
Theorem C01_view_entity_add : ∀ v SS S1 ots eid e,
  view_matches v SS → s_ents SS !! eid = None → s_ents S1 = <[eid := e]> (s_ents SS) → s_parts S1 = s_parts SS →
  ∃ v', view_recv v (MEntityAddB ots (ent_to_pb eid e)) = (true, v') ∧ view_matches v' S1.
Proof. exact view_entity_add. Qed.
Theorem C01_view_pose : ∀ v SS S1 ots eid e ps,
  view_matches v SS → s_ents SS !! eid = Some e →
  s_ents S1 = <[eid := {| e_owner := e_owner e; e_persist := e_persist e; e_flag := e_flag e; e_pose := ps |}]> (s_ents SS) →
  s_parts S1 = s_parts SS →
  ∃ v', view_recv v (MPoseB ots eid ps) = (true, v') ∧ view_matches v' S1.
Proof. exact view_pose. Qed.
Theorem C01_view_join : ∀ v SS c ots,
  view_matches v SS → s_parts SS !! u32_succ (s_pgen SS) = None →
  ∃ v', view_recv v (MJoinB ots (u32_succ (s_pgen SS))) = (true, v') ∧ view_matches v' (entered SS c).
Proof. exact view_join. Qed.
Theorem C01_view_leave : ∀ v SS cfg c p own,
  view_matches v SS → is_Some (s_parts SS !! p) →
  ∃ v', view_recv v (MLeaveB p) = (true, v') ∧ v_parts v' = dom (s_parts (left_session cfg c p own SS)).
Proof. exact view_leave. Qed.
Print Assumptions C01_view_join.
(* the entity-add relay a member is sent is exactly the entity the server stored *)
Theorem C01_entity_add_relays_stored : ∀ cfg c p own SS, parts_injective SS → s_parts SS !! p = Some c →
  ∀ rid persist flag po ots, flag_on cfg F_ENTITY_ADD_B = false →
  let eid := u32_succ (s_egen SS) in
  let e := {| e_owner := p; e_persist := persist; e_flag := flag; e_pose := default zero_pose po |} in
  ∃ S1 rel, sstep cfg c p own SS (REntityAdd rid persist flag po ots) = (S1, own ∪ {[eid]}, (c, MEntityAddResp rid eid) :: rel) ∧
    s_ents S1 = <[eid := e]> (s_ents SS) ∧ s_egen S1 = eid ∧ s_parts S1 = s_parts SS ∧
    exactly_once_to_others SS p c (MEntityAddB ots (ent_to_pb eid e)) rel.
Proof. exact entity_add_step. Qed.

Definition c01_demo : list op :=
  [OConnect 1; OConnect 2; OSend 1 (RJoin 1 SNew 1); OStep 1 0; OSend 1 (REntityAdd 2 true 5 None 2); OStep 1 0;
   OSend 1 (RTypeAdd 3 8); OStep 1 0; OSend 1 (RCompAdd 4 1 1 60 4); OStep 1 0;
   OSend 1 (RAction 5 (Some {| a_eid := 1; a_name := 2; a_ts := Some 7%Z; a_data := 3 |}) 5); OStep 1 0].
Example C01_nonvacuous :
  (* the whole executable predicate is empty on a model history, and a newcomer is handed everything *)
  let cfg := {| cfg_flags := []; cfg_vikja := true; cfg_odal := false; cfg_dagaz := false |} in
  P_C01 cfg (run cfg (c01_demo ++ [OSend 2 (RJoin 6 (SId 1) 6); OStep 2 0; OSnap])) = [] ∧
  (handle cfg (final cfg c01_demo) 2 (RJoin 6 (SId 1) 6) 0).1.2 =
    [(2, MJoinResp 6 1 1 2);
     (2, MSessionState [1; 2] [{| ep_id := 1; ep_owner := 1; ep_pose := zero_pose; ep_flag := 5 |}] [{| cp_tid := 1; cp_eid := 1; cp_data := 60 |}]);
     (1, MJoinB 6 2); (2, MVikjaState [{| a_eid := 1; a_name := 2; a_ts := Some 7%Z; a_data := 3 |}])].
Proof. vm_compute. split; reflexivity. Qed.

(* Properties/C16.v — Entity actions keep the latest timestamp; an entity has at most one asset.
   Only statements; proofs are in proofs/Local.v, proofs/WF.v, proofs/Mono.v, proofs/Reach.v. *)
From stdpp Require Import relations.
From hagall Require Import Model.
From hagall.proofs Require Import Relay Session Local Trans WF Mono Reach.

Theorem C16_reachable_step : ∀ cfg h c cn sid p SS r hint,
  member_of cfg h c cn sid p SS → session_local r = true →
  handle cfg (final cfg h) c r hint = apply_sstep (final cfg h) c sid (sstep cfg c p (c_own cn) SS r).
Proof. exact member_step. Qed.
Theorem C16_reachable_facts : ∀ cfg h c cn sid p SS, short h → member_of cfg h c cn sid p SS →
  s_parts SS !! p = Some c ∧ parts_injective SS ∧ wf cfg (4 * N.of_nat (length h)) SS.
Proof. exact member_facts. Qed.
Print Assumptions C16_reachable_facts.

(* an action is refused (BAD_REQUEST, nothing changes, nobody is told) when it is absent or malformed, when its
   entity does not exist, or when it is older than the stored one *)
Theorem C16_action_refused : ∀ cfg c p own SS rid ao ots, cfg_vikja cfg = true →
  (ao = None ∨ ∃ a, ao = Some a ∧
     (¬ action_valid a ∨ s_ents SS !! a_eid a = None ∨
      ∃ old, s_actions SS !! (a_eid a, a_name a) = Some old ∧ action_older a old)) →
  sstep cfg c p own SS (RAction rid ao ots) = (SS, own, [(c, MError rid E_BAD_REQUEST)]).
Proof. exact action_refused. Qed.
(* an equal or newer one replaces it and is relayed to every other member exactly once *)
Theorem C16_action_lww : ∀ cfg c p own SS, parts_injective SS → s_parts SS !! p = Some c →
  ∀ rid a ots, cfg_vikja cfg = true → action_valid a → is_Some (s_ents SS !! a_eid a) →
  (∀ old, s_actions SS !! (a_eid a, a_name a) = Some old → ¬ action_older a old) →
  ∃ S1 rel, sstep cfg c p own SS (RAction rid (Some a) ots) = (S1, own, (c, MActionResp rid) :: rel) ∧
    s_actions S1 = <[(a_eid a, a_name a) := a]> (s_actions SS) ∧ s_ents S1 = s_ents SS ∧ s_parts S1 = s_parts SS ∧
    exactly_once_to_others SS p c (MActionB ots a) rel.
Proof. exact action_accepted. Qed.
Print Assumptions C16_action_lww.

(* an asset can be attached only to an existing entity, by its creator; the new instance replaces the entity's
   previous one (the map is keyed by entity: at most one) and carries a fresh id *)
Theorem C16_asset_unknown_entity : ∀ cfg c p own SS rid eid aid ots, cfg_odal cfg = true → aid ≠ 0 → s_ents SS !! eid = None →
  sstep cfg c p own SS (RAssetAdd rid eid aid ots) = (SS, own, [(c, MError rid E_NOT_FOUND)]).
Proof. exact asset_unknown. Qed.
Theorem C16_asset_added : ∀ cfg c p own SS, parts_injective SS → s_parts SS !! p = Some c →
  ∀ rid eid aid ots e, cfg_odal cfg = true → aid ≠ 0 → s_ents SS !! eid = Some e → e_owner e = p →
  let iid := u32_succ (s_agen SS) in
  let a := {| as_id := iid; as_asset := aid; as_pid := p; as_eid := eid |} in
  ∃ S1 rel, sstep cfg c p own SS (RAssetAdd rid eid aid ots) = (S1, own, (c, MAssetAddResp rid iid) :: rel) ∧
    s_assets S1 = <[eid := a]> (s_assets SS) ∧ s_agen S1 = iid ∧ s_ents S1 = s_ents SS ∧ s_parts S1 = s_parts SS ∧
    exactly_once_to_others SS p c (MAssetAddB ots a) rel.
Proof. exact asset_own. Qed.
Print Assumptions C16_asset_added.

(* in every session of every reachable state: every stored action and asset instance is attached to an
   existing entity (so they are removed with it), action keys agree with their content, asset-instance ids are
   pairwise distinct and were issued by the per-session counter *)
Theorem C16_attached_and_unique : ∀ cfg h sid SS, short h → sessions (final cfg h) !! sid = Some SS →
  wf cfg (4 * N.of_nat (length h)) SS.
Proof. exact reachable_wf. Qed.
Print Assumptions C16_attached_and_unique.
(* asset-instance ids are issued by incrementing the counter, which never decreases: never reissued *)
Theorem C16_asset_ids_fresh : ∀ cfg k SS SS', k + 1 < two32 → wf cfg k SS → sess_trans cfg (Some SS) (Some SS') →
  s_agen SS ≤ s_agen SS' ∧
  ∀ e a, s_assets SS' !! e = Some a → s_assets SS !! e = Some a ∨ s_agen SS < as_id a ≤ s_agen SS'.
Proof. intros cfg k SS SS' Hk W T. pose proof (stable_trans cfg k SS SS' Hk W T) as S. split; apply S. Qed.

(* a newcomer is handed the current set of both *)
Theorem C16_newcomer_gets_all : ∀ cfg c SS,
  module_join_msgs cfg c SS =
    (if cfg_vikja cfg then [(c, MVikjaState (map snd (map_to_list (s_actions SS))))] else []) ++
    (if cfg_odal cfg then [(c, MOdalState (map snd (map_to_list (s_assets SS))))] else []).
Proof. reflexivity. Qed.

Definition c16_demo : list op :=
  [OConnect 1; OConnect 2; OSend 1 (RJoin 1 SNew 1); OStep 1 0; OSend 2 (RJoin 2 (SId 1) 2); OStep 2 0;
   OSend 1 (REntityAdd 3 false 0 None 3); OStep 1 0;
   OSend 2 (RAction 4 (Some {| a_eid := 1; a_name := 5; a_ts := Some 1000%Z; a_data := 1 |}) 4); OStep 2 0].
Example C16_nonvacuous :
  let cfg := {| cfg_flags := []; cfg_vikja := true; cfg_odal := true; cfg_dagaz := false |} in
  (handle cfg (final cfg c16_demo) 1 (RAction 9 (Some {| a_eid := 1; a_name := 5; a_ts := Some 999%Z; a_data := 2 |}) 9) 0).1.2
     = [(1, MError 9 E_BAD_REQUEST)] ∧
  (handle cfg (final cfg c16_demo) 1 (RAction 9 (Some {| a_eid := 1; a_name := 5; a_ts := Some 1000%Z; a_data := 2 |}) 9) 0).1.2
     = [(1, MActionResp 9); (2, MActionB 9 {| a_eid := 1; a_name := 5; a_ts := Some 1000%Z; a_data := 2 |})].
Proof. vm_compute. split; reflexivity. Qed.

(* Properties/RefSched.v — predicate soundness for the two predicates of Preds2.v that carry PER-CONNECTION observer
   state across events: P_C11 (pose updates: in order, coalesced, the latest arrives; state [c11st]) and P_C18
   (signed latency; state [c18st]).  On every history the predicate's own bookkeeping is related to the model's
   connection records after every prefix, and the model's own traces are never flagged - ALL clauses of both.
   Only statements; proofs are in proofs/RefSched.v (generic machinery, P_C18), proofs/RefSched2.v (frame handlers =
   members; u_last / u_expect against the pending maps and queues), proofs/RefSched3.v (canonical entity lists,
   snapshot / newcomer clauses), proofs/RefSched4.v (u_deleted, clause 1104, assembly). *)
From hagall Require Import Model Spec Obs Preds Preds2.
From hagall.proofs Require Import Inv Reach PC11 RefSched RefSched2 RefSched3 RefSched4.

(* ================= P_C18 ================= *)
(* The model's own trace passes P_C18 on every history - all clauses: 1801 (a latency request outside a session is
   refused UNAUTHORIZED), 1802 (rounds outside 3..50 or no wallet: BAD_REQUEST), 1803 (an accepted request is
   answered by exactly one ping), 1804 (an answer outside a session: UNAUTHORIZED), 1805 (no measurement, measurement
   complete, unknown or repeated ping id: INTERNAL and nothing else), 1806 (the next ping id was never issued in
   this measurement), 1807 (fewer than n answers: exactly one more ping), 1808-1811 (after exactly n answers one
   report echoing the request id, n, the issued ids - as a set, without repetition -, the incarnation, the client,
   the wallet), 1812 / 1813 (stats / signature: [true] in the model, clock values and signatures are outside it),
   1814 (the n-th answer is followed by the report), 1815 (no ping and no report outside these two requests),
   1899 (no harness anomaly). *)
Theorem RefSched_model_passes_C18 : ∀ cfg h, short h → P_C18 cfg (run cfg h) = [].
Proof. exact model_passes_C18. Qed.
Print Assumptions RefSched_model_passes_C18.

(* the relation behind it: after EVERY history, for every connection that is in a session, the predicate's record of
   its measurement ([c18_state]: the predicate's state after the trace) and the model's [c_lat] agree *)
Theorem RefSched_C18_relation : ∀ cfg h, short h →
  let st := final cfg h in let s := c18_state cfg (run cfg h) in
  ∀ c cn sid p, conns st !! c = Some cn → c_cur cn = Some (sid, p) →
    match s !! c with
    | None => c_lat cn = None
    | Some L => ∃ l, c_lat cn = Some l ∧
        (* same request id, wallet, incarnation; the client is the connection *)
        l_rid l = m_rid L ∧ l_wallet l = m_wallet L ∧ l_uuid l = m_uuid L ∧ l_client l = c ∧
        (* the pings: the answered ones in order, then - while the measurement runs - the one outstanding *)
        (if m_done L
         then l_pings l = answered_pings (m_answered L) ∧ m_issued L = m_answered L ∧ N.of_nat (length (m_answered L)) = m_n L
         else ∃ x, l_pings l = answered_pings (m_answered L) ++ [(x, false)] ∧ m_issued L = m_answered L ++ [x] ∧
                   0 < l_iter l ∧ N.of_nat (length (m_answered L)) + l_iter l = m_n L) ∧
        NoDup (m_issued L) ∧ (∀ id, id ∈ m_issued L → id ≤ next_ping st)
    end.
Proof.
  intros cfg h Hs st s c cn sid p Hc Hcur. destruct (model_C18_rel cfg h Hs) as [_ R]. specialize (R c cn sid p Hc Hcur).
  fold s in R. destruct (s !! c) as [L|]; [|exact R]. destruct R as (l&Hl&[R1 R2 R3 R4 R5 R6 R7]). exists l. by repeat split.
Qed.
Print Assumptions RefSched_C18_relation.

(* ================= P_C11 ================= *)
(* The model's own trace passes P_C11 on every history - all clauses: 1101 (what an OStep consumes for an entity is
   the next flushed update of that entity: never reordered, repeated or stale), 1102 (an accepted update is relayed
   to exactly the other members), 1103 (a refused one - entity missing, not the owner, no pose - is relayed to
   nobody), 1104 (no pose is relayed to an observer after the entity's deletion was relayed to it), 1105 (no
   panic), 1106 (a flushed update is in the connection's queue until it is consumed), 1110 / 1112 (a newcomer's
   SessionState carries the spec's entities - the latest processed poses), 1122 (hook snapshots: the entities of
   every session), 1199 (no harness anomaly). *)
Theorem RefSched_model_passes_C11 : ∀ cfg h, short h → P_C11 cfg (run cfg h) = [].
Proof. exact model_passes_C11. Qed.
Print Assumptions RefSched_model_passes_C11.

(* the relations behind it, after EVERY history ([c11_state]: the predicate's state after the trace) *)
Theorem RefSched_C11_relation : ∀ cfg h, short h →
  let st := final cfg h in let s := c11_state cfg (run cfg h) in
  (* for every connection that is not closed, and every entity: the latest update dispatched and not yet flushed
     is the pose in the pending map (K1: nothing here mentions the session - the pending maps survive a switch) ... *)
  (∀ c eid, open_of st c ≠ Some false →
     u_last s !! (c, eid) = conns st !! c ≫= λ cn, c_pposes cn !! eid ≫= pose_of eid) ∧
  (* ... and the flushed updates still to be consumed are the pose updates of that entity in the queue, in order *)
  (∀ c eid, open_of st c ≠ Some false →
     default [] (u_expect s !! (c, eid)) =
     match conns st !! c with Some cn => queued_poses eid (c_queue cn) | None => [] end) ∧
  (* the pending maps hold updates of the right kind under the right key *)
  (∀ c cn, conns st !! c = Some cn →
     (∀ e r, c_pposes cn !! e = Some r → ∃ po ots, r = RPose e po ots) ∧
     (∀ k r, c_pcomps cn !! k = Some r → ∃ t x d o, r = RCompUpdate t x d o)) ∧
  (* every deletion an observer was told during its current membership concerns an entity that is gone from its
     session for good (absent, id at most the entity counter) *)
  (∀ d sid q SS eid, conns st !! d ≫= c_cur = Some (sid, q) → sessions st !! sid = Some SS →
     eid ∈ default ∅ (u_deleted s !! d) → s_ents SS !! eid = None ∧ eid ≤ s_egen SS).
Proof.
  intros cfg h Hs st s. destruct (model_C11_rel cfg h Hs) as (_&[R1 R2 R3]&RD). fold st s in R1, R2, R3, RD.
  split; [exact R2|]. split; [exact R3|]. split; [exact R1|exact RD].
Qed.
Print Assumptions RefSched_C11_relation.

(* the invariant the frame clause rests on: the connections with a registered frame handler are exactly the
   members of the session (so OTick flushes exactly the connections whose updates the predicate moves) *)
Theorem RefSched_frames_are_members : ∀ cfg h sid SS, short h → sessions (final cfg h) !! sid = Some SS →
  ∀ c, c ∈ s_frames SS ↔ ∃ p, s_parts SS !! p = Some c.
Proof.
  intros cfg h sid SS Hs HS. apply (reachable_frames cfg h) in HS; [exact HS|]. unfold short in Hs. lia.
Qed.
Print Assumptions RefSched_frames_are_members.

(* ================= concrete histories ================= *)
Definition refsched_cfg : config := {| cfg_flags := []; cfg_vikja := true; cfg_odal := true; cfg_dagaz := false |}.
Definition refsched_pose (x : N) : option pose := Some [x; x; x; x; x; x; x].

(* C11: two members (connections 1, 2); connection 1 owns a volatile entity 1 and a persistent entity 2; two updates of
   entity 1 and one of entity 2 before a frame (the first is overwritten), the frame, a snapshot while they are
   queued, their consumption; then an update of entity 1 pending while its deletion is processed (the frame
   flushes it, its consumption relays nothing); then an update of entity 2 pending while connection 1 switches to
   a new session (it survives the switch, the NEW session's frame flushes it, its consumption relays nothing) *)
Definition refsched_demo11 : list op :=
  [OConnect 1; OConnect 2;
   OSend 1 (RJoin 1 SNew 1); OStep 1 0; OSend 2 (RJoin 2 (SId 1) 2); OStep 2 0;
   OSend 1 (REntityAdd 3 false 7 None 3); OStep 1 0;
   OSend 1 (REntityAdd 4 true 8 None 4); OStep 1 0;
   OSend 1 (RPose 1 (refsched_pose 1) 10); OSend 1 (RPose 1 (refsched_pose 2) 11); OSend 1 (RPose 2 (refsched_pose 3) 12);
   OTick 1; OSnap; OStep 1 0; OStep 1 0;
   OSend 1 (RPose 1 (refsched_pose 4) 13); OSend 1 (REntityDelete 5 1 14); OStep 1 0;
   OTick 1; OStep 1 0;
   OSend 1 (RPose 2 (refsched_pose 5) 15); OSend 1 (RJoin 6 SNew 16); OStep 1 0;
   OTick 2; OSnap; OStep 1 0;
   OSnap].
(* the predicate's state, readable *)
Definition refsched_show11 (s : c11st) :=
  (map_to_list (u_last s), map_to_list (u_expect s), map (λ kv : N * gset N, (kv.1, elements kv.2)) (map_to_list (u_deleted s))).

Example RefSched_nonvacuous_C11 :
  let cfg := refsched_cfg in
  bool_decide (4 * N.of_nat (length refsched_demo11) < two32) = true ∧
  (* the pose updates consumed: (entity, origin timestamp, who it was relayed to) *)
  omap (λ e, match ev_req e with Some (RPose eid _ ots) => Some (eid, ots, map fst (ev_outs e)) | _ => None end)
       (run cfg refsched_demo11) = [(1, 11, [2]); (2, 12, [2]); (1, 13, []); (2, 15, [])] ∧
  (* after the frame (14 operations): both updates moved from u_last to u_expect, both in the queue of connection 1 *)
  refsched_show11 (c11_state cfg (run cfg (firstn 14 refsched_demo11))) = ([], [(1, 1, [11]); (1, 2, [12])], []) ∧
  map (λ kv : N * conn, (kv.1, length (c_queue kv.2), map fst (map_to_list (c_pposes kv.2))))
      (map_to_list (conns (final cfg (firstn 14 refsched_demo11)))) = [(1, 2%nat, []); (2, 0%nat, [])] ∧
  (* after the switch (25 operations): the update of entity 2 is still pending on both sides, connection 1 is
     participant 1 of session 2, connection 2 has been told the deletion of entity 1 *)
  refsched_show11 (c11_state cfg (run cfg (firstn 25 refsched_demo11))) = ([(1, 2, 15)], [(1, 1, []); (1, 2, [])], [(2, [1])]) ∧
  map (λ kv : N * conn, (kv.1, c_cur kv.2, length (c_queue kv.2), map fst (map_to_list (c_pposes kv.2))))
      (map_to_list (conns (final cfg (firstn 25 refsched_demo11)))) = [(1, Some (2, 1), 0%nat, [2]); (2, Some (1, 2), 0%nat, [])] ∧
  (* and the predicate is silent on the whole run *)
  P_C11 cfg (run cfg refsched_demo11) = [].
Proof. vm_compute. repeat split. Qed.

(* C18: a complete 3-round measurement with a repeated answer and an unknown id in between *)
Definition refsched_demo18 : list op :=
  [OConnect 1; OSend 1 (RJoin 1 SNew 1); OStep 1 0;
   OSend 1 (RSignedLatency 2 3 77); OStep 1 0;
   OSend 1 (RPingResp 1); OStep 1 0;
   OSend 1 (RPingResp 1); OStep 1 0;
   OSend 1 (RPingResp 9); OStep 1 0;
   OSend 1 (RPingResp 2); OStep 1 0;
   OSend 1 (RPingResp 3); OStep 1 0].
Example RefSched_nonvacuous_C18 :
  let cfg := refsched_cfg in
  bool_decide (4 * N.of_nat (length refsched_demo18) < two32) = true ∧
  omap (λ e, match ev_req e with Some (RPingResp _ | RSignedLatency _ _ _) => Some (ev_outs e) | _ => None end)
       (run cfg refsched_demo18) =
    [[(1, MPingReq 1)]; [(1, MPingReq 2)]; [(1, MError 1 E_INTERNAL)]; [(1, MError 9 E_INTERNAL)]; [(1, MPingReq 3)];
     [(1, MSignedLatencyResp 2 3 [1; 2; 3] 1 1 77 true true)]] ∧
  (* the predicate's record mid-way (after the unknown id, 11 operations) and at the end *)
  map_to_list (c18_state cfg (run cfg (firstn 11 refsched_demo18))) =
    [(1, {| m_rid := 2; m_n := 3; m_wallet := 77; m_uuid := 1; m_issued := [1; 2]; m_answered := [1]; m_done := false |})] ∧
  map (λ kv : N * conn, (kv.1, (λ l, (l_iter l, l_pings l)) <$> c_lat kv.2))
      (map_to_list (conns (final cfg (firstn 11 refsched_demo18)))) = [(1, Some (2, [(1, true); (2, false)]))] ∧
  map_to_list (c18_state cfg (run cfg refsched_demo18)) =
    [(1, {| m_rid := 2; m_n := 3; m_wallet := 77; m_uuid := 1; m_issued := [1; 2; 3]; m_answered := [1; 2; 3]; m_done := true |})] ∧
  P_C18 cfg (run cfg refsched_demo18) = [].
Proof. vm_compute. repeat split. Qed.

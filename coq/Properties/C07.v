(* Properties/C07.v — A session is joinable exactly while it has members; no join is ever orphaned.
   Sequential clause (all histories of joins, switches and departures over any number of sessions).
   Only statements; proofs are in proofs/PC07.v, proofs/Inv.v. *)
From stdpp Require Import relations.
From hagall Require Import Model.
From hagall.proofs Require Import Relay Inv Session Local Trans WF Mono Reach PC07.

(* every reachable state: the registry invariant (gauge = number of registered sessions, incarnation numbers are
   positive, never above the counter and pairwise distinct) and the membership invariant *)
Theorem C07_registry_inv : ∀ cfg h, N.of_nat (length h) < two32 → reg (final cfg h) ∧ inv (final cfg h).
Proof. exact reachable_reg. Qed.
Print Assumptions C07_registry_inv.

(* the discoverable sessions are exactly the non-empty ones ... *)
Theorem C07_registered_nonempty : ∀ cfg h, N.of_nat (length h) < two32 →
  ∀ sid SS, sessions (final cfg h) !! sid = Some SS → s_parts SS ≠ ∅.
Proof. exact c07_registered_nonempty. Qed.
(* ... and whoever was answered with success is in a live session that others can find under the returned id *)
Theorem C07_member_findable : ∀ cfg h, N.of_nat (length h) < two32 →
  ∀ c cn sid p, conns (final cfg h) !! c = Some cn → c_cur cn = Some (sid, p) →
  ∃ SS, sessions (final cfg h) !! sid = Some SS ∧ s_parts SS !! p = Some c.
Proof. exact c07_member_findable. Qed.
Print Assumptions C07_member_findable.
Theorem C07_gauge : ∀ cfg h, N.of_nat (length h) < two32 →
  gauge (final cfg h) = Z.of_nat (size (sessions (final cfg h))).
Proof. exact c07_gauge. Qed.
Theorem C07_no_two_share_incarnation : ∀ cfg h, N.of_nat (length h) < two32 →
  ∀ s1 s2 S1 S2, sessions (final cfg h) !! s1 = Some S1 → sessions (final cfg h) !! s2 = Some S2 →
  s_uuid S1 = s_uuid S2 → s1 = s2.
Proof. exact c07_uuid_distinct. Qed.

(* when the last participant leaves the session stops resolving; otherwise it stays, minus the leaver *)
Theorem C07_last_leave_unresolves : ∀ cfg st c cn sid p SS,
  conns st !! c = Some cn → c_cur cn = Some (sid, p) → sessions st !! sid = Some SS →
  sessions (leave cfg st c).1 !! sid =
    if decide (s_parts (left_session cfg c p (c_own cn) SS) = ∅) then None else Some (left_session cfg c p (c_own cn) SS).
Proof. exact c07_last_leave. Qed.
(* a later session that reuses the id starts empty under a new incarnation number *)
Theorem C07_reuse_starts_empty : ∀ hint st n st',
  create_session hint st = (n, st') → sessions st' !! n = Some (session0 (next_uuid st + 1)) ∧ next_uuid st' = next_uuid st + 1.
Proof. exact c07_created_fresh. Qed.
Theorem C07_incarnations_below_counter : ∀ cfg h, N.of_nat (length h) < two32 →
  ∀ sid SS, sessions (final cfg h) !! sid = Some SS → 1 ≤ s_uuid SS ≤ next_uuid (final cfg h).
Proof. exact c07_uuid_fresh. Qed.
(* the id handed to a new session is not registered, whichever reusable id the implementation picks *)
Theorem C07_new_id_free : ∀ hint st n st', inv st → nowrap st → create_session hint st = (n, st') → parts_of st n = None.
Proof. intros hint st n st' I W H. exact (proj1 (create_session_proj hint st n st' I W H)). Qed.

Definition c07_demo : list op :=
  [OConnect 1; OConnect 2; OSend 1 (RJoin 1 SNew 1); OStep 1 0; OSend 2 (RJoin 2 (SId 1) 2); OStep 2 0;
   ODisconnect 1; ODisconnect 2; OConnect 3; OSend 3 (RJoin 3 SNew 3); OStep 3 1].
Example C07_nonvacuous :
  let cfg := {| cfg_flags := []; cfg_vikja := false; cfg_odal := false; cfg_dagaz := false |} in
  (* the session ended, its id 1 was recycled for a new, empty session under incarnation 2; gauge 1 *)
  (map (λ kv : N * session, (fst kv, s_uuid (snd kv), map fst (map_to_list (s_parts (snd kv)))))
       (map_to_list (sessions (final cfg c07_demo))), gauge (final cfg c07_demo)) = ([(1, 2, [1])], 1%Z).
Proof. vm_compute. reflexivity. Qed.

(* Properties/C03.v — Sessions are isolated: only current members can observe or affect a session.
   Only statements; proofs are in proofs/PC03.v, proofs/Trans.v, proofs/PC07.v. *)
From stdpp Require Import relations.
From hagall Require Import Model.
From hagall.proofs Require Import Relay Inv Session Local Trans WF Mono Reach PC02 PC03 PC07.

(* Local respect.  In every reachable state, whatever session-scoped request a member sends - with ids that exist
   only in other sessions, coincide with ids of other sessions, or do not exist at all - every other session is
   exactly as before, and the only connections that are sent anything are the requester and members of the
   requester's own session. *)
Theorem C03_local_respect : ∀ cfg h c cn sid p SS r hint,
  member_of cfg h c cn sid p SS → session_local r = true →
  let res := handle cfg (final cfg h) c r hint in
  (∀ s, s ≠ sid → sessions res.1.1 !! s = sessions (final cfg h) !! s) ∧
  (∀ d, d ∈ res.1.2 → fst d = c ∨ ∃ q, s_parts SS !! q = Some (fst d) ∧ q ≠ p).
Proof. exact local_respect. Qed.
Print Assumptions C03_local_respect.

(* a connection that is in no session cannot touch any: its session-scoped requests are never executed *)
Theorem C03_unjoined_no_effect : ∀ cfg st c cn r hint, is_join r = false →
  sessions (handle_unjoined cfg st c cn r hint).1.1 = sessions st.
Proof. exact handle_unjoined_other. Qed.

(* departures (disconnect, handler error, the first half of a switching join) change only the session left and
   tell only its remaining members; entering changes only the session entered and tells only its members *)
Theorem C03_leave_frame : ∀ cfg st c s, inv st → (∀ p, cur_of st c ≠ Some (s, p)) →
  sessions (leave cfg st c).1 !! s = sessions st !! s.
Proof. exact leave_frame. Qed.
Theorem C03_leave_recipients : ∀ cfg st c d, d ∈ (leave cfg st c).2 →
  ∃ cn sid p SS q, conns st !! c = Some cn ∧ c_cur cn = Some (sid, p) ∧ sessions st !! sid = Some SS ∧
                   s_parts SS !! q = Some (fst d) ∧ q ≠ p.
Proof. exact leave_recipients. Qed.
Theorem C03_enter_frame : ∀ cfg st c rid n ots s, s ≠ n →
  sessions (enter cfg st c rid n ots).1.1 !! s = sessions st !! s.
Proof. exact enter_frame. Qed.
Theorem C03_enter_recipients : ∀ cfg st c rid n ots SS d,
  sessions st !! n = Some SS → d ∈ (enter cfg st c rid n ots).1.2 → fst d = c ∨ ∃ q, s_parts SS !! q = Some (fst d).
Proof. exact enter_recipients. Qed.
Print Assumptions C03_leave_recipients.

(* who is where is unambiguous in every reachable state: a participant entry of session sid for connection c
   exists exactly when c's current session is sid under that participant id - nobody is a member of two sessions,
   nobody who left or was refused is still listed *)
Theorem C03_membership_exact : ∀ cfg h, N.of_nat (length h) < two32 → inv (final cfg h).
Proof. exact final_inv. Qed.

(* a session id that is reused after the earlier session ended names a brand-new session: empty, all counters at
   zero, a new incarnation number *)
Theorem C03_recycled_id_fresh : ∀ hint st n st', create_session hint st = (n, st') →
  sessions st' !! n = Some (session0 (next_uuid st + 1)).
Proof. exact recycled_id_fresh. Qed.

Definition c03_demo : list op :=
  [OConnect 1; OConnect 2; OConnect 3; OSend 1 (RJoin 1 SNew 1); OStep 1 0; OSend 2 (RJoin 2 SNew 2); OStep 2 0;
   OSend 1 (REntityAdd 3 false 0 None 3); OStep 1 0; OSend 2 (REntityAdd 4 false 0 None 4); OStep 2 0].
Example C03_nonvacuous :
  (* two sessions whose participant and entity ids coincide (1 and 1): connection 2 deletes "entity 1", sends a
     custom message to "participant 1" and connection 3, in no session, tries too - session 1 never notices *)
  let cfg := {| cfg_flags := []; cfg_vikja := true; cfg_odal := true; cfg_dagaz := false |} in
  let st := final cfg c03_demo in
  let r1 := handle cfg st 2 (REntityDelete 9 1 9) 0 in
  let r2 := handle cfg r1.1.1 2 (RCustom [1] [7] 9) 0 in
  let r3 := handle cfg r2.1.1 3 (REntityDelete 9 1 9) 0 in
  (r1.1.2, r2.1.2, r3.1.2, r3.2) = ([(2, MEntityDeleteResp 9)], [], [], VErr) ∧
  sessions r3.1.1 !! 1 = sessions st !! 1.
Proof. vm_compute. split; reflexivity. Qed.

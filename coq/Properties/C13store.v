(* C13store.v — the regenerated facts (coq/GenStore.v, tools/storefacts) under which the theorems of
   Properties/ConcStore.v apply to the code: Notify relays inside the subscription lock, every (un)subscription is one
   exclusive critical section of that lock, every caller of Notify relays inside the callback, and the unsubscribe
   response is sent after Unsubscribe returned.  The programs the code runs are then made of the atomic instructions
   INotify / IUnsub / IUnsubAll / ISubscribe / IRespondUnsub of coq/ConcStore.v, with the response after the
   unsubscription in the same thread (a connection's requests are handled one after the other by its main loop). *)
From hagall Require Import GenStore ConcStore.
Theorem C13_store_facts :
  notify_relays_under_lock = true /\ notify_callers_relay_inside = true /\ unsubscribe_exclusive = true /\
  subscribe_exclusive = true /\ unsub_response_after_unsub = true.
Proof. repeat split; reflexivity. Qed.
Print Assumptions C13_store_facts.

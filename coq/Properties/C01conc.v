(* C01 / C02, concurrent clause ("for every interleaving at lock granularity of 2-3 requests issued concurrently by
   different connections"), on the interleaving model of ConcView.v.  Statements only; proofs in
   proofs/ConcViewProofs.v.

   [mviews lenient s0 sched]: the violations of "the view each participant holds equals the server's state" at
   quiescence after schedule [sched] from the set-up state [s0], judged by [views_at_quiescence] - the view_init /
   view_recv / view_own of Preds2.v - under the strict client (false: the letter of C01) or the lenient client
   (true: buffers what arrives before the states handed on joining, drops what it cannot apply).
   [mrelay]: the violations of "every accepted change is relayed exactly once" (C02).
   Codes: 102 entities, 103 components of a synced type, 104 entity actions, 107 asset instances; info = [connection; session].
   Each witness schedule is replayed on the real handlers by checks/c01conc.py (corpus/C01conc/). *)
From hagall Require Import ConcView.
From hagall.proofs Require Import ConcViewProofs.

(* K2 - stale snapshot on join (strict client only): join against the owner's entity delete *)
Theorem C01_conc_refuted_join_entity_delete :
  ∃ sched, all_done (mrun sc_join_delete sched) = true ∧
           codes (mviews false sc_join_delete sched) = [(102%Z, [2%Z; 1%Z])] ∧
           mviews true sc_join_delete sched = [] ∧ mrelay sc_join_delete sched = [].
Proof. exists w_join_delete. exact refuted_join_entity_delete. Qed.
Print Assumptions C01_conc_refuted_join_entity_delete.

(* K2 - stale snapshot on join (strict client only): join against an entity add *)
Theorem C01_conc_refuted_join_entity_add :
  ∃ sched, all_done (mrun sc_join_add sched) = true ∧
           codes (mviews false sc_join_add sched) = [(102%Z, [2%Z; 1%Z])] ∧
           mviews true sc_join_add sched = [] ∧ mrelay sc_join_add sched = [].
Proof. exists w_join_add. exact refuted_join_entity_add. Qed.
Print Assumptions C01_conc_refuted_join_entity_add.

(* K2m - stale module state on join (either client): the joiner holds an action and an asset of a deleted entity *)
Theorem C01_conc_refuted_join_stale_module_state :
  ∃ sched, all_done (mrun sc_join_delete_modules sched) = true ∧
           codes (mviews false sc_join_delete_modules sched) = [(104%Z, [2%Z; 1%Z]); (107%Z, [2%Z; 1%Z])] ∧
           codes (mviews true sc_join_delete_modules sched) = [(104%Z, [2%Z; 1%Z]); (107%Z, [2%Z; 1%Z])] ∧
           mrelay sc_join_delete_modules sched = [].
Proof. exists w_join_delete_modules. exact refuted_join_stale_module_state. Qed.
Print Assumptions C01_conc_refuted_join_stale_module_state.

(* K3 - relays in another order than the mutations (either client): two updates of one component *)
Theorem C01_conc_refuted_two_component_updates :
  ∃ sched, all_done (mrun sc_two_updates sched) = true ∧
           codes (mviews false sc_two_updates sched) = [(103%Z, [2%Z; 1%Z]); (103%Z, [3%Z; 1%Z])] ∧
           codes (mviews true sc_two_updates sched) = [(103%Z, [2%Z; 1%Z]); (103%Z, [3%Z; 1%Z])] ∧
           mrelay sc_two_updates sched = [].
Proof. exists w_two_updates. exact refuted_two_component_updates. Qed.
Print Assumptions C01_conc_refuted_two_component_updates.

(* K3: two actions on the same (entity, name), equal timestamps / different timestamps *)
Theorem C01_conc_refuted_two_actions_equal_ts :
  ∃ sched, all_done (mrun (sc_two_actions 100) sched) = true ∧
           codes (mviews false (sc_two_actions 100) sched) = [(104%Z, [2%Z; 1%Z]); (104%Z, [3%Z; 1%Z])] ∧
           codes (mviews true (sc_two_actions 100) sched) = [(104%Z, [2%Z; 1%Z]); (104%Z, [3%Z; 1%Z])] ∧
           mrelay (sc_two_actions 100) sched = [].
Proof. exists w_two_actions. exact refuted_two_actions_equal_ts. Qed.
Print Assumptions C01_conc_refuted_two_actions_equal_ts.

Theorem C01_conc_refuted_two_actions_different_ts :
  ∃ sched, all_done (mrun (sc_two_actions 200) sched) = true ∧
           codes (mviews false (sc_two_actions 200) sched) = [(104%Z, [2%Z; 1%Z]); (104%Z, [3%Z; 1%Z])] ∧
           codes (mviews true (sc_two_actions 200) sched) = [(104%Z, [2%Z; 1%Z]); (104%Z, [3%Z; 1%Z])] ∧
           mrelay (sc_two_actions 200) sched = [].
Proof. exists w_two_actions. exact refuted_two_actions_different_ts. Qed.
Print Assumptions C01_conc_refuted_two_actions_different_ts.

(* K4 - check-then-act on an entity that is being deleted (either client): the server keeps a component of a
   deleted entity (orphans: code 120, [session; 1 component; entity]) that no view holds *)
Theorem C01_conc_refuted_delete_vs_component_add :
  ∃ sched, all_done (mrun sc_delete_compadd sched) = true ∧
           codes (mviews false sc_delete_compadd sched) = [(103%Z, [1%Z; 1%Z]); (103%Z, [2%Z; 1%Z]); (103%Z, [3%Z; 1%Z])] ∧
           codes (mviews true sc_delete_compadd sched) = [(103%Z, [1%Z; 1%Z]); (103%Z, [2%Z; 1%Z]); (103%Z, [3%Z; 1%Z])] ∧
           codes (orphans [mdump (mrun sc_delete_compadd sched)]) = [(120%Z, [1%Z; 1%Z; 1%Z])].
Proof. exists w_delete_compadd. exact refuted_delete_vs_component_add. Qed.
Print Assumptions C01_conc_refuted_delete_vs_component_add.

(* K4 with vikja: an orphaned action on the server (lenient client differs) ... *)
Theorem C01_conc_refuted_delete_vs_action_orphan :
  ∃ sched, all_done (mrun sc_delete_action sched) = true ∧
           mviews false sc_delete_action sched = [] ∧
           codes (mviews true sc_delete_action sched) = [(104%Z, [1%Z; 1%Z]); (104%Z, [3%Z; 1%Z])] ∧
           codes (orphans [mdump (mrun sc_delete_action sched)]) = [(120%Z, [1%Z; 2%Z; 1%Z])].
Proof. exists w_delete_action_lenient. exact refuted_delete_vs_action_orphan. Qed.
Print Assumptions C01_conc_refuted_delete_vs_action_orphan.

(* ... or the action relayed after the entity's deletion (strict client differs) *)
Theorem C01_conc_refuted_delete_vs_action_late_relay :
  ∃ sched, all_done (mrun sc_delete_action sched) = true ∧
           codes (mviews false sc_delete_action sched) = [(104%Z, [1%Z; 1%Z]); (104%Z, [3%Z; 1%Z])] ∧
           mviews true sc_delete_action sched = [] ∧
           orphans [mdump (mrun sc_delete_action sched)] = [].
Proof. exists w_delete_action_strict. exact refuted_delete_vs_action_late_relay. Qed.
Print Assumptions C01_conc_refuted_delete_vs_action_late_relay.

(* positive, EVERY schedule (any number of preemptions): join against an entity add converges under the lenient client,
   and the add is relayed exactly once *)
Theorem C01_conc_join_entity_add_lenient :
  ∀ sched, all_done (mrun sc_join_add sched) = true → mviews true sc_join_add sched = [] ∧ mrelay sc_join_add sched = [].
Proof. exact join_entity_add_lenient. Qed.
Print Assumptions C01_conc_join_entity_add_lenient.

(* positive, EVERY schedule: in the races whose views diverge every accepted change is still relayed exactly once (C02) *)
Theorem C02_conc_relayed_once :
  ∀ sched,
    (all_done (mrun sc_two_updates sched) = true → mrelay sc_two_updates sched = []) ∧
    (all_done (mrun (sc_two_actions 100) sched) = true → mrelay (sc_two_actions 100) sched = []) ∧
    (all_done (mrun (sc_two_actions 200) sched) = true → mrelay (sc_two_actions 200) sched = []) ∧
    (all_done (mrun sc_delete_compadd sched) = true → mrelay sc_delete_compadd sched = []) ∧
    (all_done (mrun sc_delete_action sched) = true → mrelay sc_delete_action sched = []).
Proof. exact relayed_once_in_the_races. Qed.
Print Assumptions C02_conc_relayed_once.

(* the hypotheses are satisfiable: a complete schedule of the join / entity-add race with two preemptions *)
Example C01_conc_example :
  all_done (mrun sc_join_add w_join_add) = true ∧ length w_join_add = 21%nat ∧
  all_done (mrun sc_join_add (firstn 20 w_join_add)) = false.
Proof. vm_compute. repeat split; reflexivity. Qed.

(* Properties/C02.v — Each accepted change is relayed exactly once to every other session member.
   Only statements; proofs are in proofs/Local.v, proofs/PC02.v, proofs/Reach.v. *)
From stdpp Require Import relations.
From hagall Require Import Model.
From hagall.proofs Require Import Relay Inv Session Local Trans WF Mono Reach PC02.

(* Bridge: in every reachable state a member's request is handled inside its own session, whose participant ids
   and connections correspond one to one (so "each other member" and "each other connection" coincide). *)
Theorem C02_reachable_step : ∀ cfg h c cn sid p SS r hint,
  member_of cfg h c cn sid p SS → session_local r = true →
  handle cfg (final cfg h) c r hint = apply_sstep (final cfg h) c sid (sstep cfg c p (c_own cn) SS r).
Proof. exact member_step. Qed.
Theorem C02_reachable_facts : ∀ cfg h c cn sid p SS, short h → member_of cfg h c cn sid p SS →
  s_parts SS !! p = Some c ∧ parts_injective SS ∧ wf cfg (4 * N.of_nat (length h)) SS.
Proof. exact member_facts. Qed.
Print Assumptions C02_reachable_facts.

(* [exactly_once_to_others SS p c m l]: l hands m to every member of SS other than p, to each exactly once,
   never to p's own connection c, and to nobody else.  Session.Broadcast is that: *)
Theorem C02_broadcast_exactly_once : ∀ SS p c m, parts_injective SS → s_parts SS !! p = Some c →
  exactly_once_to_others SS p c m (broadcast SS p m).
Proof. exact broadcast_exactly_once. Qed.
Print Assumptions C02_broadcast_exactly_once.

(* accepted entity add / entity delete / processed pose update / entity action / asset-instance add:
   one answer to the requester, the relay exactly once to every other member *)
Theorem C02_entity_add : ∀ cfg c p own SS, parts_injective SS → s_parts SS !! p = Some c →
  ∀ rid persist flag po ots, flag_on cfg F_ENTITY_ADD_B = false →
  let eid := u32_succ (s_egen SS) in
  let e := {| e_owner := p; e_persist := persist; e_flag := flag; e_pose := default zero_pose po |} in
  ∃ S1 rel, sstep cfg c p own SS (REntityAdd rid persist flag po ots) = (S1, own ∪ {[eid]}, (c, MEntityAddResp rid eid) :: rel) ∧
    s_ents S1 = <[eid := e]> (s_ents SS) ∧ s_egen S1 = eid ∧ s_parts S1 = s_parts SS ∧
    exactly_once_to_others SS p c (MEntityAddB ots (ent_to_pb eid e)) rel.
Proof. exact entity_add_step. Qed.
Theorem C02_entity_delete : ∀ cfg c p own SS, parts_injective SS → s_parts SS !! p = Some c →
  ∀ rid eid ots e, s_ents SS !! eid = Some e → e_owner e = p → flag_on cfg F_ENTITY_DELETE_B = false →
  ∃ S1 rel, sstep cfg c p own SS (REntityDelete rid eid ots) = (S1, own ∖ {[eid]}, (c, MEntityDeleteResp rid) :: rel) ∧
    s_ents S1 = delete eid (s_ents SS) ∧ s_parts S1 = s_parts SS ∧
    st_comps (s_store S1) = filter (λ kv, snd (fst kv) ≠ eid) (st_comps (s_store SS)) ∧
    exactly_once_to_others SS p c (MEntityDeleteB ots eid) rel.
Proof. exact entity_delete_own. Qed.
Theorem C02_pose : ∀ cfg c p own SS, parts_injective SS → s_parts SS !! p = Some c →
  ∀ eid ps ots e, s_ents SS !! eid = Some e → e_owner e = p → flag_on cfg F_POSE_B = false →
  ∃ S1 rel, sstep cfg c p own SS (RPose eid (Some ps) ots) = (S1, own, rel) ∧
    s_ents S1 = <[eid := {| e_owner := e_owner e; e_persist := e_persist e; e_flag := e_flag e; e_pose := ps |}]> (s_ents SS) ∧
    s_parts S1 = s_parts SS ∧ exactly_once_to_others SS p c (MPoseB ots eid ps) rel.
Proof. exact pose_accepted_step. Qed.
Theorem C02_action : ∀ cfg c p own SS, parts_injective SS → s_parts SS !! p = Some c →
  ∀ rid a ots, cfg_vikja cfg = true → action_valid a → is_Some (s_ents SS !! a_eid a) →
  (∀ old, s_actions SS !! (a_eid a, a_name a) = Some old → ¬ action_older a old) →
  ∃ S1 rel, sstep cfg c p own SS (RAction rid (Some a) ots) = (S1, own, (c, MActionResp rid) :: rel) ∧
    s_actions S1 = <[(a_eid a, a_name a) := a]> (s_actions SS) ∧ s_ents S1 = s_ents SS ∧ s_parts S1 = s_parts SS ∧
    exactly_once_to_others SS p c (MActionB ots a) rel.
Proof. exact action_accepted. Qed.
Theorem C02_asset : ∀ cfg c p own SS, parts_injective SS → s_parts SS !! p = Some c →
  ∀ rid eid aid ots e, cfg_odal cfg = true → aid ≠ 0 → s_ents SS !! eid = Some e → e_owner e = p →
  let iid := u32_succ (s_agen SS) in
  let a := {| as_id := iid; as_asset := aid; as_pid := p; as_eid := eid |} in
  ∃ S1 rel, sstep cfg c p own SS (RAssetAdd rid eid aid ots) = (S1, own, (c, MAssetAddResp rid iid) :: rel) ∧
    s_assets S1 = <[eid := a]> (s_assets SS) ∧ s_agen S1 = iid ∧ s_ents S1 = s_ents SS ∧ s_parts S1 = s_parts SS ∧
    exactly_once_to_others SS p c (MAssetAddB ots a) rel.
Proof. exact asset_own. Qed.
Print Assumptions C02_asset.

(* a join: answered to the joiner, handed the state, and relayed exactly once to every member already there *)
Theorem C02_join_outputs : ∀ cfg st c rid n ots SS,
  sessions st !! n = Some SS → flag_on cfg F_SESSION_STATE = false → flag_on cfg F_JOIN_B = false →
  let S1 := entered SS c in
  let p := u32_succ (s_pgen SS) in
  (enter cfg st c rid n ots).1.2 =
    [(c, MJoinResp rid n (s_uuid SS) p); (c, session_state_msg S1)] ++ broadcast S1 p (MJoinB ots p) ++ module_join_msgs cfg c S1.
Proof. exact enter_outputs. Qed.
Theorem C02_join_relayed_once : ∀ SS c ots, parts_injective (entered SS c) →
  let p := u32_succ (s_pgen SS) in
  exactly_once_to_others (entered SS c) p c (MJoinB ots p) (broadcast (entered SS c) p (MJoinB ots p)).
Proof. exact join_broadcast_once. Qed.

(* a departure (for any cause): every remaining member is told once about each removed entity, then once about the
   departure; the leaver is told nothing *)
Theorem C02_departure_outputs : ∀ cfg st c cn sid p SS,
  conns st !! c = Some cn → c_cur cn = Some (sid, p) → sessions st !! sid = Some SS →
  flag_on cfg F_ENTITY_DELETE_B = false → flag_on cfg F_LEAVE_B = false →
  let S2 := set_store (store_set_subs (fmap (λ s : gset N, s ∖ {[p]}))) (module_disconnect cfg (c_own cn) SS) in
  (leave cfg st c).2 =
    flat_map (λ eid, broadcast SS p (MEntityDeleteB 0 eid)) (doomed S2 (c_own cn)) ++
    broadcast (left_session cfg c p (c_own cn) SS) p (MLeaveB p).
Proof. exact leave_outputs. Qed.
Theorem C02_departure_relayed_once : ∀ cfg c p own SS, parts_injective SS → s_parts SS !! p = Some c →
  let L := left_session cfg c p own SS in
  (∀ cq m', (cq, m') ∈ broadcast L p (MLeaveB p) ↔ m' = MLeaveB p ∧ ∃ q, s_parts SS !! q = Some cq ∧ q ≠ p) ∧
  NoDup (map fst (broadcast L p (MLeaveB p))) ∧ c ∉ map fst (broadcast L p (MLeaveB p)).
Proof. exact leave_broadcast_once. Qed.
Theorem C02_removed_entities_distinct : ∀ SS own, NoDup (doomed SS own).
Proof. exact doomed_NoDup. Qed.

(* a refused request is relayed to no one: if a session-local request is answered with an error, that answer is
   the only thing anybody is sent *)
Theorem C02_refused_silent : ∀ cfg c p own SS r rid code,
  parts_injective SS → s_parts SS !! p = Some c → session_local r = true →
  (c, MError rid code) ∈ (sstep cfg c p own SS r).2 →
  (sstep cfg c p own SS r).2 = [(c, MError rid code)] ∧ s_parts (sstep cfg c p own SS r).1.1 = s_parts SS.
Proof. exact sstep_error_only. Qed.
Print Assumptions C02_refused_silent.

(* order: what every connection is handed because of a history's first operations is a prefix of what it is handed
   over the whole history - relays arrive in the order of the requests that caused them *)
Theorem C02_order : ∀ cfg h1 h2 q, ∃ later, stream (run cfg (h1 ++ h2)) q = stream (run cfg h1) q ++ later.
Proof. exact stream_prefix. Qed.

Definition c02_demo : list op :=
  [OConnect 1; OConnect 2; OConnect 3; OSend 1 (RJoin 1 SNew 1); OStep 1 0; OSend 2 (RJoin 2 (SId 1) 2); OStep 2 0;
   OSend 3 (RJoin 3 (SId 1) 3); OStep 3 0; OSend 2 (REntityAdd 4 false 0 None 4); OStep 2 0].
Example C02_nonvacuous :
  let cfg := {| cfg_flags := []; cfg_vikja := true; cfg_odal := true; cfg_dagaz := false |} in
  (* participant 2 leaves: 1 and 3 are told about its entity and its departure, once each *)
  (step cfg (final cfg c02_demo) (ODisconnect 2)).1.2 =
    [(1, MEntityDeleteB 0 1); (3, MEntityDeleteB 0 1); (1, MLeaveB 2); (3, MLeaveB 2)].
Proof. vm_compute. reflexivity. Qed.

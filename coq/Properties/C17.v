(* Properties/C17.v — Each DISABLE_* feature flag suppresses exactly its own message class.
   Only statements; proofs are in proofs/PC17.v. *)
From Coq Require Import String.
From hagall Require Import Model Preds2 Gen.
From hagall.proofs Require Import PC17.

(* regenerated from the Go sources on every run: the ten flag constants carry the ten documented strings, in the
   order the model numbers them (0..9) ... *)
Theorem C17_flag_names : Gen.flag_names = [
  ("FlagDisableSessionState", "DISABLE_SESSION_STATE");
  ("FlagDisableParticipantJoinBroadcast", "DISABLE_PARTICIPANT_JOIN_BROADCAST");
  ("FlagDisableParticipantLeaveBroadcast", "DISABLE_PARTICIPANT_LEAVE_BROADCAST");
  ("FlagDisableEntityAddBroadcast", "DISABLE_ENTITY_ADD_BROADCAST");
  ("FlagDisableEntityDeleteBroadcast", "DISABLE_ENTITY_DELETE_BROADCAST");
  ("FlagDisableEntityUpdatePoseBroadcast", "DISABLE_ENTITY_UPDATE_POSE_BROADCAST");
  ("FlagDisableCustomMessageBroadcast", "DISABLE_CUSTOM_MESSAGE_BROADCAST");
  ("FlagDisableEntityComponentAddBroadcast", "DISABLE_ENTITY_COMPONENT_ADD_BROADCAST");
  ("FlagDisableEntityComponentUpdateBroadcast", "DISABLE_ENTITY_COMPONENT_UPDATE_BROADCAST");
  ("FlagDisableEntityComponentDeleteBroadcast", "DISABLE_ENTITY_COMPONENT_DELETE_BROADCAST")]%string.
Proof. reflexivity. Qed.
(* ... and every place the sources build a state or broadcast message sits inside IfNotSet of its namesake flag
   (message type numbers as on the wire), the two module relays under no flag, and nothing else is wrapped *)
Theorem C17_table_exact : Gen.relay_sites = [
  ("HandleParticipantJoin", "FlagDisableSessionState", 2);
  ("HandleParticipantJoin", "FlagDisableParticipantJoinBroadcast", 5);
  ("leaveSession", "FlagDisableParticipantLeaveBroadcast", 7);
  ("HandleEntityAdd", "FlagDisableEntityAddBroadcast", 10);
  ("HandleEntityDelete", "FlagDisableEntityDeleteBroadcast", 13);
  ("leaveSession", "FlagDisableEntityDeleteBroadcast", 13);
  ("HandleEntityUpdatePose", "FlagDisableEntityUpdatePoseBroadcast", 15);
  ("HandleCustomMessage", "FlagDisableCustomMessageBroadcast", 17);
  ("HandleEntityComponentAdd", "FlagDisableEntityComponentAddBroadcast", 26);
  ("HandleEntityComponentDelete", "FlagDisableEntityComponentDeleteBroadcast", 29);
  ("HandleEntityComponentUpdate", "FlagDisableEntityComponentUpdateBroadcast", 31);
  ("handleSetEntityAction", "", 103);
  ("handleAssetInstanceAdd", "", 203)]%string.
Proof. reflexivity. Qed.

(* For EVERY flag set (any list of flag numbers - the 1024 subsets of the ten known ones and any unknown names)
   and every operation in every state: the step under the flags reaches the same state with the same verdict as
   the step with no flag set, and its deliveries are the flag-free deliveries minus the suppressed classes. *)
Theorem C17_step_filter : ∀ cfg st o,
  step cfg st o = ((step (noflags cfg) st o).1.1, filter_flags cfg (step (noflags cfg) st o).1.2, (step (noflags cfg) st o).2).
Proof. exact step_filter. Qed.
Print Assumptions C17_step_filter.

(* ... hence for every history: same final state, same verdicts and consumed requests, filtered deliveries *)
Theorem C17_filter : ∀ cfg st h,
  run_from cfg st h = (map (filter_event cfg) (run_from (noflags cfg) st h).1, (run_from (noflags cfg) st h).2).
Proof. exact run_filter. Qed.
Print Assumptions C17_filter.

(* unknown flag names have no effect *)
Theorem C17_unknown_flags : ∀ cfg m extra, (∀ f, f ∈ extra → 9 < f) →
  suppressed {| cfg_flags := cfg_flags cfg ++ extra; cfg_vikja := cfg_vikja cfg; cfg_odal := cfg_odal cfg; cfg_dagaz := cfg_dagaz cfg |} m
  = suppressed cfg m.
Proof. exact unknown_flag_no_effect. Qed.

Definition c17_demo : list op :=
  [OConnect 1; OConnect 2; OSend 1 (RJoin 1 SNew 1); OStep 1 0; OSend 2 (RJoin 2 (SId 1) 2); OStep 2 0;
   OSend 1 (REntityAdd 3 false 0 None 3); OStep 1 0; OSend 1 (RCustom [] [1; 2] 4); OStep 1 0; ODisconnect 1].
Example C17_nonvacuous :
  (* with the join, entity-add and leave broadcasts disabled and an unknown flag: those three classes vanish, the
     custom message, the delete of the leaver's entity and all answers stay *)
  let cfg := {| cfg_flags := [1; 3; 2; 77]; cfg_vikja := false; cfg_odal := false; cfg_dagaz := false |} in
  (flat_map ev_outs (run cfg c17_demo), flat_map ev_outs (run (noflags cfg) c17_demo)) =
  ([(1, MJoinResp 1 1 1 1); (1, MSessionState [1] [] []); (2, MJoinResp 2 1 1 2); (2, MSessionState [1; 2] [] []);
    (1, MEntityAddResp 3 1); (2, MCustomB 4 1 [1; 2]); (2, MEntityDeleteB 0 1)],
   [(1, MJoinResp 1 1 1 1); (1, MSessionState [1] [] []); (2, MJoinResp 2 1 1 2); (2, MSessionState [1; 2] [] []); (1, MJoinB 2 2);
    (1, MEntityAddResp 3 1); (2, MEntityAddB 3 {| ep_id := 1; ep_owner := 1; ep_pose := zero_pose; ep_flag := 0 |});
    (2, MCustomB 4 1 [1; 2]); (2, MEntityDeleteB 0 1); (2, MLeaveB 1)]).
Proof. vm_compute. reflexivity. Qed.

(* Properties/C12.v — Entity components behave as a map keyed by (component type, entity).
   Only statements; proofs are in proofs/Local.v, proofs/WF.v, proofs/Reach.v. *)
From stdpp Require Import relations.
From hagall Require Import Model.
From hagall.proofs Require Import Relay Session Local Trans WF Mono Reach.

(* Bridge: in every reachable state a member's component request is handled inside its own session by [sstep],
   that session is well-formed, and participant ids and connections correspond one to one. *)
Theorem C12_reachable_step : ∀ cfg h c cn sid p SS r hint,
  member_of cfg h c cn sid p SS → session_local r = true →
  handle cfg (final cfg h) c r hint = apply_sstep (final cfg h) c sid (sstep cfg c p (c_own cn) SS r).
Proof. exact member_step. Qed.
Theorem C12_reachable_facts : ∀ cfg h c cn sid p SS, short h → member_of cfg h c cn sid p SS →
  s_parts SS !! p = Some c ∧ parts_injective SS ∧ wf cfg (4 * N.of_nat (length h)) SS.
Proof. exact member_facts. Qed.
Print Assumptions C12_reachable_facts.

(* add: refused with the code the protocol names exactly when an id is zero (BAD_REQUEST), the entity or the
   type is unknown (NOT_FOUND), or the pair exists already (CONFLICT); a refusal changes nothing *)
Theorem C12_add_refused : ∀ cfg c p own SS rid tid eid data ots code,
  comp_add_outcome SS tid eid = Some code →
  sstep cfg c p own SS (RCompAdd rid tid eid data ots) = (SS, own, [(c, MError rid code)]).
Proof. exact comp_add_refused. Qed.
Theorem C12_add_accepted : ∀ cfg c p own SS, parts_injective SS → s_parts SS !! p = Some c →
  ∀ rid tid eid data ots, comp_add_outcome SS tid eid = None →
  ∃ S1 rel, sstep cfg c p own SS (RCompAdd rid tid eid data ots) = (S1, own, (c, MCompAddResp rid) :: rel) ∧
    st_comps (s_store S1) = <[(tid, eid) := data]> (st_comps (s_store SS)) ∧
    st_names (s_store S1) = st_names (s_store SS) ∧ st_subs (s_store S1) = st_subs (s_store SS) ∧
    s_ents S1 = s_ents SS ∧ s_parts S1 = s_parts SS ∧
    (if flag_on cfg F_COMP_ADD_B then rel = []
     else if decide (subs_of (s_store SS) tid = ∅) then rel = []
     else exactly_once_to_others SS p c (MCompAddB ots {| cp_tid := tid; cp_eid := eid; cp_data := data |}) rel).
Proof. exact comp_add_accepted. Qed.
Print Assumptions C12_add_accepted.

(* update: of a component that was never added (or of a missing entity, or with a zero id) changes nothing and is
   relayed to no one; of an existing one replaces the data and reaches exactly the subscribed members but the sender *)
Theorem C12_update_absent_noop : ∀ cfg c p own SS tid eid data ots,
  (tid = 0 ∨ eid = 0 ∨ s_ents SS !! eid = None ∨ st_comps (s_store SS) !! (tid, eid) = None) →
  sstep cfg c p own SS (RCompUpdate tid eid data ots) = (SS, own, []).
Proof. exact comp_update_absent. Qed.
Theorem C12_update_present : ∀ cfg c p own SS, parts_injective SS → s_parts SS !! p = Some c →
  ∀ tid eid data ots, tid ≠ 0 → eid ≠ 0 → is_Some (s_ents SS !! eid) → is_Some (st_comps (s_store SS) !! (tid, eid)) →
  flag_on cfg F_COMP_UPDATE_B = false →
  ∃ S1 rel, sstep cfg c p own SS (RCompUpdate tid eid data ots) = (S1, own, rel) ∧
    st_comps (s_store S1) = <[(tid, eid) := data]> (st_comps (s_store SS)) ∧
    st_subs (s_store S1) = st_subs (s_store SS) ∧ s_ents S1 = s_ents SS ∧ s_parts S1 = s_parts SS ∧
    (∀ cq m, (cq, m) ∈ rel ↔ m = MCompUpdateB ots {| cp_tid := tid; cp_eid := eid; cp_data := data |} ∧
               ∃ q, q ∈ subs_of (s_store SS) tid ∧ q ≠ p ∧ s_parts SS !! q = Some cq) ∧
    NoDup (map fst rel) ∧ c ∉ map fst rel.
Proof. exact comp_update_present. Qed.
Print Assumptions C12_update_present.

(* delete acts only on a component that exists *)
Theorem C12_delete_refused : ∀ cfg c p own SS rid tid eid ots code,
  comp_delete_outcome SS tid eid = Some code →
  sstep cfg c p own SS (RCompDelete rid tid eid ots) = (SS, own, [(c, MError rid code)]).
Proof. exact comp_delete_refused. Qed.
Theorem C12_delete_accepted : ∀ cfg c p own SS, parts_injective SS → s_parts SS !! p = Some c →
  ∀ rid tid eid ots, comp_delete_outcome SS tid eid = None →
  ∃ S1 rel, sstep cfg c p own SS (RCompDelete rid tid eid ots) = (S1, own, rel ++ [(c, MCompDeleteResp rid)]) ∧
    st_comps (s_store S1) = delete (tid, eid) (st_comps (s_store SS)) ∧
    st_names (s_store S1) = st_names (s_store SS) ∧ st_subs (s_store S1) = st_subs (s_store SS) ∧
    s_ents S1 = s_ents SS ∧ s_parts S1 = s_parts SS ∧
    (if flag_on cfg F_COMP_DELETE_B then rel = []
     else if decide (subs_of (s_store SS) tid = ∅) then rel = []
     else exactly_once_to_others SS p c (MCompDeleteB ots tid eid) rel).
Proof. exact comp_delete_accepted. Qed.

(* listing a type returns exactly its current components *)
Theorem C12_list_exact : ∀ cfg c p own SS rid tid, tid ≠ 0 →
  ∃ l, sstep cfg c p own SS (RCompList rid tid) = (SS, own, [(c, MCompListResp rid l)]) ∧
    ∀ x, x ∈ l ↔ cp_tid x = tid ∧ st_comps (s_store SS) !! (cp_tid x, cp_eid x) = Some (cp_data x).
Proof. exact comp_list_exact. Qed.

(* removing an entity on request removes all of its components and nothing else ... *)
Theorem C12_cascade_on_delete : ∀ cfg c p own SS, parts_injective SS → s_parts SS !! p = Some c →
  ∀ rid eid ots e, s_ents SS !! eid = Some e → e_owner e = p → flag_on cfg F_ENTITY_DELETE_B = false →
  ∃ S1 rel, sstep cfg c p own SS (REntityDelete rid eid ots) = (S1, own ∖ {[eid]}, (c, MEntityDeleteResp rid) :: rel) ∧
    s_ents S1 = delete eid (s_ents SS) ∧ s_parts S1 = s_parts SS ∧
    st_comps (s_store S1) = filter (λ kv, snd (fst kv) ≠ eid) (st_comps (s_store SS)) ∧
    exactly_once_to_others SS p c (MEntityDeleteB ots eid) rel.
Proof. exact entity_delete_own. Qed.
(* ... and so does a departure, for every entity it removes *)
Theorem C12_cascade_on_departure : ∀ cfg p l SS,
  let S' := (remove_doomed cfg p l SS).1 in
  (∀ e, s_ents S' !! e = if bool_decide (e ∈ l) then None else s_ents SS !! e) ∧
  (∀ t e, st_comps (s_store S') !! (t, e) = if bool_decide (e ∈ l) then None else st_comps (s_store SS) !! (t, e)) ∧
  st_names (s_store S') = st_names (s_store SS) ∧ st_ids (s_store S') = st_ids (s_store SS) ∧
  st_subs (s_store S') = st_subs (s_store SS) ∧ st_gen (s_store S') = st_gen (s_store SS) ∧
  s_actions S' = s_actions SS ∧ s_assets S' = s_assets SS ∧ s_egen S' = s_egen SS ∧ s_agen S' = s_agen SS ∧
  s_uuid S' = s_uuid SS.
Proof. exact remove_doomed_spec. Qed.

(* registering a type name is idempotent; a new name gets a fresh id *)
Theorem C12_type_idempotent : ∀ cfg c p own SS rid name tid, name ≠ 0 → st_ids (s_store SS) !! name = Some tid →
  sstep cfg c p own SS (RTypeAdd rid name) = (set_store (λ _, s_store SS) SS, own, [(c, MTypeAddResp rid tid)]).
Proof. exact type_add_known. Qed.
Theorem C12_type_new : ∀ cfg c p own SS rid name, name ≠ 0 → st_ids (s_store SS) !! name = None →
  let tid := u32_succ (st_gen (s_store SS)) in
  ∃ S1, sstep cfg c p own SS (RTypeAdd rid name) = (S1, own, [(c, MTypeAddResp rid tid)]) ∧
    st_names (s_store S1) = <[tid := name]> (st_names (s_store SS)) ∧
    st_ids (s_store S1) = <[name := tid]> (st_ids (s_store SS)) ∧ st_gen (s_store S1) = tid ∧
    st_comps (s_store S1) = st_comps (s_store SS).
Proof. exact type_add_new. Qed.

(* in every session of every reachable state: names and ids resolve to each other, and every stored component
   belongs to an existing entity and a registered type *)
Theorem C12_registry_and_attachment : ∀ cfg h sid SS, short h → sessions (final cfg h) !! sid = Some SS →
  wf cfg (4 * N.of_nat (length h)) SS.
Proof. exact reachable_wf. Qed.
Print Assumptions C12_registry_and_attachment.

Definition c12_demo : list op :=
  [OConnect 1; OConnect 2; OSend 1 (RJoin 1 SNew 1); OStep 1 0; OSend 2 (RJoin 2 (SId 1) 2); OStep 2 0;
   OSend 1 (REntityAdd 3 false 0 None 3); OStep 1 0; OSend 1 (RTypeAdd 4 7); OStep 1 0;
   OSend 2 (RSubscribe 5 1); OStep 2 0; OSend 1 (RCompAdd 6 1 1 42 6); OStep 1 0].
Example C12_nonvacuous :
  let cfg := {| cfg_flags := []; cfg_vikja := false; cfg_odal := false; cfg_dagaz := false |} in
  (handle cfg (final cfg c12_demo) 1 (RCompAdd 9 1 1 43 9) 0).1.2 = [(1, MError 9 E_CONFLICT)] ∧
  (handle cfg (final cfg c12_demo) 1 (RCompUpdate 1 1 44 9) 0).1.2 = [(2, MCompUpdateB 9 {| cp_tid := 1; cp_eid := 1; cp_data := 44 |})] ∧
  (handle cfg (final cfg c12_demo) 1 (RCompUpdate 1 2 44 9) 0).1.2 = [] ∧
  (handle cfg (final cfg c12_demo) 2 (RCompList 9 1) 0).1.2 = [(2, MCompListResp 9 [{| cp_tid := 1; cp_eid := 1; cp_data := 42 |}])].
Proof. vm_compute. repeat split; reflexivity. Qed.

(* C07, concurrent clause (and the session-id / participant-id clauses of C10 under concurrency):
   "for every lock-granularity interleaving of concurrent joins and departures on the same session or the same id
   (join of an existing session against the last departure, two last departures, two creations)".
   Statements only.  Model: coq/Conc.v (one instruction per critical section of package models in
   HandleParticipantJoin / leaveSession; [sched_run fixed st σ] runs schedule σ, a list of (thread, hint for the
   choice among recyclable ids); [fixed = true] are the micro-programs of the code as it is now, [fixed = false]
   those before the commit "fix: end a session in the critical section that removes its last participant ...").
   Proofs: proofs/ConcInv.v (invariant with the handlers in flight, preserved by every critical section) and
   proofs/ConcProofs.v (witnesses).  Tie: checks/c07conc.py replays every schedule within a preemption bound on the
   real handlers (lock acquisitions rewritten into scheduler yields from the current sources) and compares with
   [sched_run]; the sequence of critical sections of a sequential create / join / disconnect decides [fixed]. *)
From hagall Require Import Model Conc.
From hagall.proofs Require Import ConcInv ConcProofs.

(* Any number of connections, any programs (create / join by id / disconnect, in any number), any schedule of
   their critical sections, any resolution of the choice among recyclable ids: once every handler has returned,
   the discoverable sessions are exactly the non-empty ones, each under its own id, no id both registered and
   recyclable, the gauge equals their number, and every connection answered with success (that has not left since)
   is a participant of the session its id resolves to.  The bound is the code's own (uint32 counters). *)
Theorem C07_conc :
  ∀ (progs : list (list cop)) (σ : list (N * N)), N.of_nat (length σ) < two32 →
  let st := sched_run true (cinit progs) σ in complete st → registry_ok st.
Proof. exact conc_registry_ok. Qed.
Print Assumptions C07_conc.

(* not only at quiescence: at every moment of every schedule a handler that holds a success answer and has not yet
   begun to unregister is a participant of a session object that is not ended and that the answered id resolves to *)
Theorem C07_conc_member_always :
  ∀ progs σ tid T sid inc p, N.of_nat (length σ) < two32 →
  let st := sched_run true (cinit progs) σ in
  k_thr st !! tid = Some T → t_cur T = Some (sid, inc, p) → not_premove (t_pc T) →
  ∃ R, k_heap st !! inc = Some R ∧ r_id R = sid ∧ k_reg st !! sid = Some inc ∧ r_dead R = false ∧ p ∈ r_parts R.
Proof. exact conc_member_always. Qed.
Print Assumptions C07_conc_member_always.

(* at every moment the gauge is the number of registered sessions, a registered id is not recyclable and is the id
   of the object filed under it (no two live sessions share an id: the registry is a map) *)
Theorem C07_conc_gauge_always :
  ∀ progs σ, N.of_nat (length σ) < two32 →
  let st := sched_run true (cinit progs) σ in
  k_gauge st = Z.of_nat (size (k_reg st)) ∧
  (∀ id inc, k_reg st !! id = Some inc → id ∉ g_reuse (k_ids st) ∧ ∃ R, k_heap st !! inc = Some R ∧ r_id R = id).
Proof. exact conc_gauge_always. Qed.
Print Assumptions C07_conc_gauge_always.

(* C10 under concurrent joins: two handlers never hold (or are about to be given) the same participant id of the
   same session object *)
Theorem C10_conc_participant_ids_distinct :
  ∀ progs σ t1 t2 T1 T2 inc p, N.of_nat (length σ) < two32 →
  let st := sched_run true (cinit progs) σ in
  t1 ≠ t2 → k_thr st !! t1 = Some T1 → k_thr st !! t2 = Some T2 → claims T1 inc p → claims T2 inc p → False.
Proof. exact conc_participant_ids_distinct. Qed.
Print Assumptions C10_conc_participant_ids_distinct.

(* C10 under concurrent creations / joins / departures: two session objects that still own their numeric id never
   share it; an owned id is never recyclable and was issued by the generator *)
Theorem C10_conc_session_ids_distinct :
  ∀ progs σ i1 R1 i2 R2, N.of_nat (length σ) < two32 →
  let st := sched_run true (cinit progs) σ in
  k_heap st !! i1 = Some R1 → k_heap st !! i2 = Some R2 → holds st i1 R1 → holds st i2 R2 →
  (r_id R1 = r_id R2 → i1 = i2) ∧ r_id R1 ∉ g_reuse (k_ids st) ∧ r_id R1 ≤ g_cur (k_ids st).
Proof. exact conc_session_ids_distinct. Qed.
Print Assumptions C10_conc_session_ids_distinct.

(* the invariant itself, for every reachable state (what the four theorems above are projections of) *)
Theorem C07_conc_invariant :
  ∀ progs σ, N.of_nat (length σ) < two32 → cinv (N.of_nat (length σ)) (sched_run true (cinit progs) σ).
Proof. exact reachable_cinv. Qed.
Print Assumptions C07_conc_invariant.

(* ---- the code before the repair violated the clause: witnesses (replayed on the real code at L3 before the fix;
        corpus/C07conc/orphan-join-unrepaired.json) *)
Theorem C07_conc_refuted_orphan_join :
  ∃ progs σ, let st := sched_run false (cinit progs) σ in complete st ∧ ¬ registry_ok st.
Proof. exact conc_refuted_orphan_join. Qed.
Theorem C07_conc_refuted_double_remove :
  ∃ progs σ, let st := sched_run false (cinit progs) σ in
    complete st ∧ ¬ registry_ok st ∧ k_gauge st = (-1)%Z ∧ size (k_reg st) = 0%nat.
Proof. exact conc_refuted_double_remove. Qed.
Theorem C07_conc_refuted_reissue :
  ∃ progs σ tid T, let st := sched_run false (cinit progs) σ in
    complete st ∧ ¬ registry_ok st ∧ k_thr st !! tid = Some T ∧ t_cur T = Some (1, 2, 1) ∧
    1 ∈ g_reuse (k_ids st) ∧ k_reg st !! 1 = None.
Proof. exact conc_refuted_reissue. Qed.

(* ---- the hypotheses are met by concrete non-trivial schedules: the three racing schedules above, shortened by
        the instruction that no longer exists, run to completion on the repaired programs *)
Example C07_conc_ex_complete :
  complete (sched_run true (cinit w_orphan_progs) (plain [1;1;1;1;1; 2; 1;1; 2;2])) ∧
  complete (sched_run true (cinit w_double_progs) (plain [1;1;1;1;1; 2;2;2; 1;2; 2])) ∧
  complete (sched_run true (cinit w_reissue_progs) (plain [1;1;1;1;1; 2;2;2; 1;2; 2; 3;3;3;3;3])).
Proof. repeat split; apply all_idle_complete; vm_compute; reflexivity. Qed.
(* ... and in the first one the racing join is answered NOT_FOUND, the creator's departure unregisters *)
Example C07_conc_ex_orphan_refused :
  obs_answers (sched_run true (cinit w_orphan_progs) (plain [1;1;1;1;1; 2; 1;1; 2;2])) = [(1, [AOk 1 1 1]); (2, [ANotFound])] ∧
  obs_registry (sched_run true (cinit w_orphan_progs) (plain [1;1;1;1;1; 2; 1;1; 2;2])) = [].
Proof. split; vm_compute; reflexivity. Qed.

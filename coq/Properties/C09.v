(* C09 — concurrent clients never corrupt shared state and never deadlock the server.

   Level: proof-partial.  The theorems are about the TABLES the translator extracts from the current Go sources
   (GenLocks.v: field accesses with their must-held lock classes, lock-order edges including calls and callbacks,
   blocking sends under a lock) — trusted, fail-closed — and about an abstract lock machine; they are not about
   Go's memory model.  The tables are re-generated and the three obligations re-proved on every run. *)
From Coq Require Import NArith List Bool String.
From hagall Require Import Locks GenLocks.
From hagall.proofs Require Import LocksProofs.
Import ListNotations.
Open Scope N_scope.

(* ---- general theorems (any table, any number of threads) *)

Theorem lockset_sound : forall tbl, lockset_consistent_b tbl = true ->
  forall a b, In a tbl -> In b tbl ->
    a_field a = a_field b -> (a_write a = true \/ a_write b = true) ->
    a_exempt a = false -> a_exempt b = false ->
    exists l, holds a l /\ holds b l /\
              (a_write a = true -> exclusive a l) /\ (a_write b = true -> exclusive b l).
Proof. exact LocksProofs.lockset_sound. Qed.

Theorem ordered_no_deadlock : forall (rank : rank_fun) (progs : list prog),
  Forall (fun p => prog_ok rank p = true) progs ->
  forall cfg, reachable progs cfg -> ~ all_finished cfg ->
  exists i cfg', thread_step i cfg cfg'.
Proof. exact LocksProofs.ordered_no_deadlock. Qed.

Theorem rank_ok_acyclic : forall rank es, rank_ok rank es = true -> forall x, ~ path es x x.
Proof. exact LocksProofs.rank_ok_acyclic. Qed.

Theorem covered_no_deadlock : forall rank es (progs : list prog),
  rank_ok rank es = true ->
  Forall (fun p => balanced p = true /\ incl (prog_pairs p) (edge_pairs es)) progs ->
  forall cfg, reachable progs cfg -> ~ all_finished cfg ->
  exists i cfg', thread_step i cfg cfg'.
Proof. exact LocksProofs.covered_no_deadlock. Qed.

(* ---- obligations over the tables generated from the current sources *)

Theorem C09_translator_complete : GenLocks.translator_ok = true /\ GenLocks.unresolved = [].
Proof. split; reflexivity. Qed.

Theorem C09_locksets : lockset_consistent_b GenLocks.accesses = true.
Proof. vm_compute. reflexivity. Qed.

Theorem C09_lock_order : rank_ok (compute_rank GenLocks.lock_edges) GenLocks.lock_edges = true.
Proof. vm_compute. reflexivity. Qed.

Theorem C09_blocking_sites : blocking_ok GenLocks.allowed_blocking_channels GenLocks.blocking_under_lock = true.
Proof. vm_compute. reflexivity. Qed.

(* ---- what the obligations give for the server: any set of threads whose lock acquisitions are among the
   extracted edges (and that release what they take) never reaches a state where none can move *)
Theorem C09_no_lock_deadlock : forall progs : list prog,
  Forall (fun p => balanced p = true /\ incl (prog_pairs p) (edge_pairs GenLocks.lock_edges)) progs ->
  forall cfg, reachable progs cfg -> ~ all_finished cfg ->
  exists i cfg', thread_step i cfg cfg'.
Proof. intros progs. exact (LocksProofs.covered_no_deadlock _ _ progs C09_lock_order). Qed.

Theorem C09_conflicting_accesses_share_a_lock : forall a b, In a GenLocks.accesses -> In b GenLocks.accesses ->
    a_field a = a_field b -> (a_write a = true \/ a_write b = true) ->
    a_exempt a = false -> a_exempt b = false ->
    exists l, holds a l /\ holds b l /\
              (a_write a = true -> exclusive a l) /\ (a_write b = true -> exclusive b l).
Proof. exact (LocksProofs.lockset_sound _ C09_locksets). Qed.

Print Assumptions lockset_sound.
Print Assumptions ordered_no_deadlock.
Print Assumptions rank_ok_acyclic.
Print Assumptions covered_no_deadlock.
Print Assumptions C09_translator_complete.
Print Assumptions C09_locksets.
Print Assumptions C09_lock_order.
Print Assumptions C09_blocking_sites.
Print Assumptions C09_no_lock_deadlock.
Print Assumptions C09_conflicting_accesses_share_a_lock.

(* the hypotheses are satisfiable on concrete non-trivial values *)
Example C09_ex_table_nonempty : (0 <? N.of_nat (List.length GenLocks.accesses)) && (0 <? N.of_nat (List.length GenLocks.lock_edges)) = true.
Proof. vm_compute. reflexivity. Qed.

Example C09_ex_programs : Forall (fun p => prog_ok (fun l => l) p = true)
  [[Acq 1; Acq 2; Step; Rel 2; Rel 1]; [Acq 2; Step; Rel 2]; [Step; Acq 1; Rel 1]].
Proof. repeat constructor. Qed.

Example C09_ex_cycle_rejected :
  rank_ok (compute_rank [mkEdge 1 2 0; mkEdge 2 1 0]) [mkEdge 1 2 0; mkEdge 2 1 0] = false.
Proof. vm_compute. reflexivity. Qed.

Example C09_ex_unguarded_write_rejected :
  lockset_consistent_b [mkAccess 1 true false [] 0; mkAccess 1 false false [(7, false)] 1] = false.
Proof. vm_compute. reflexivity. Qed.

Example C09_ex_rlock_write_rejected :
  lockset_consistent_b [mkAccess 1 true false [(7, false)] 0; mkAccess 1 false false [(7, false)] 1] = false.
Proof. vm_compute. reflexivity. Qed.

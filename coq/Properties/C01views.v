(* Properties/C01views.v — C01, the simulation over whole histories: the views the executable predicate P_C01
   (Preds2.v) threads along a trace of the model match the model's sessions after every history, and every
   broadcast delivered on the way was applicable.  Statements only; proofs are in proofs/Views.v (which uses
   proofs/Own.v for "the own-set is the set of owned entities").

   [views_after cfg t] is the view state [xscan (P_C01_event cfg)] has after the trace t (C01views_is_P_C01_state):
   every view is built by view_init / view_recv / view_own / the re-sent module state and the dirty marks, by
   P_C01_event itself.  In the sequential model every broadcast of a step is delivered within the step, so the
   relation holds after EVERY history (hence after every prefix), not only at quiescent points.
   Not proved here: that the whole of P_C01 is empty on model histories — the comparisons of a hook snapshot / of the
   newcomer's state messages with the spec through the canonical sorted encodings (codes 100-104, 107, 110-131). *)
From stdpp Require Import relations.
From hagall Require Import Model Preds2.
From hagall.proofs Require Import Relay Inv Session Local Trans WF Mono Reach PC02 PC01 Views.

(* the state threaded by the predicate: P_C01's verdicts on (e :: t) are those of P_C01_event on e, followed by the
   verdicts on t from the views and the spec that [vscan] / [views_after] continue with *)
Theorem C01views_is_P_C01_state : ∀ cfg i sp (vs : gmap N view) e t,
  xscan (P_C01_event cfg) i sp vs (e :: t) =
    (P_C01_event cfg i sp (spec_step sp e) vs e).2 ++
    xscan (P_C01_event cfg) (S i) (spec_step sp e) (P_C01_event cfg i sp (spec_step sp e) vs e).1 t.
Proof. exact xscan_cons. Qed.

(* (1) after every short history with no feature flag set: a connection that is in no session holds no view; a
   member holds a view with the session's id and its participant id and
   - the same participants, the same entities with owner, flag and latest pose   (view_matches)
   - the same entity actions and asset instances
   - the subscriptions the server has for it; synced types are subscribed types
   - the same components for every type it is synced on (and for every type no un-notified change has touched
     since the view last covered it) *)
Theorem C01_views_simulation : ∀ cfg h,
  cfg_flags cfg = [] → short h →
  ∀ c, match cur_of (final cfg h) c with
       | Some (sid, p) =>
           ∃ v SS, views_after cfg (run cfg h) !! c = Some v ∧ sessions (final cfg h) !! sid = Some SS ∧
             v_sid v = sid ∧ v_pid v = p ∧ view_matches v SS ∧ v_acts v = s_actions SS ∧ v_assets v = s_assets SS ∧
             (∀ tid, tid ∈ v_subd v ↔ p ∈ subs_of (s_store SS) tid) ∧ v_synced v ⊆ v_subd v ∧
             (∀ tid, tid ∈ v_synced v ∨ tid ∉ v_dirty v →
                ∀ eid, v_comps v !! (tid, eid) = st_comps (s_store SS) !! (tid, eid))
       | None => views_after cfg (run cfg h) !! c = None
       end.
Proof. exact views_simulation_expanded. Qed.
Print Assumptions C01_views_simulation.

Theorem C01_views_member : ∀ cfg h c cn sid p SS,
  cfg_flags cfg = [] → short h → member_of cfg h c cn sid p SS →
  ∃ v, views_after cfg (run cfg h) !! c = Some v ∧
       v_sid v = sid ∧ v_pid v = p ∧ view_matches v SS ∧ v_acts v = s_actions SS ∧ v_assets v = s_assets SS ∧
       (∀ tid, tid ∈ v_subd v ↔ p ∈ subs_of (s_store SS) tid) ∧ v_synced v ⊆ v_subd v ∧
       (∀ tid, tid ∈ v_synced v ∨ tid ∉ v_dirty v →
          ∀ eid, v_comps v !! (tid, eid) = st_comps (s_store SS) !! (tid, eid)).
Proof. exact views_member_full. Qed.
Print Assumptions C01_views_member.

(* (2) in a sequential history no participant is ever sent a broadcast it cannot apply, and no participant that is
   synced on a component type is left untold about a change of that type: on a model history P_C01 never reports
   code 106 (a delivered JoinB / LeaveB / EntityAddB / EntityDeleteB / PoseB / CompAddB / CompDeleteB / CompUpdateB
   / ActionB / AssetAddB that view_recv cannot apply) nor code 105 *)
Theorem C01_deliveries_applicable : ∀ cfg h x,
  cfg_flags cfg = [] → short h → x ∈ P_C01 cfg (run cfg h) → v_code x ≠ 106%Z ∧ v_code x ≠ 105%Z.
Proof. exact deliveries_applicable. Qed.
Print Assumptions C01_deliveries_applicable.

(* the trace-determined spec the predicate consults agrees with the model: who is where, which entities (with owner,
   flag, pose, persistence) and which components exist *)
Theorem C01_spec_membership : ∀ cfg h,
  cfg_flags cfg = [] → short h → ∀ c, sp_mem (spec_after (run cfg h)) !! c = cur_of (final cfg h) c.
Proof. exact spec_membership. Qed.
Theorem C01_spec_entities_components : ∀ cfg h,
  cfg_flags cfg = [] → short h →
  (∀ sid eid, sp_ents (spec_after (run cfg h)) !! (sid, eid) =
              (λ e, (ent_to_pb eid e, e_persist e)) <$> (sessions (final cfg h) !! sid ≫= λ SS, s_ents SS !! eid)) ∧
  (∀ sid tid eid, sp_comps (spec_after (run cfg h)) !! (sid, tid, eid) =
                  sessions (final cfg h) !! sid ≫= λ SS, st_comps (s_store SS) !! (tid, eid)).
Proof. exact spec_entities_components. Qed.
Print Assumptions C01_spec_entities_components.

(* the per-session steps the simulation is made of (participants / entities / actions / assets: vrel;
   components: crel, crel_mid) *)
Theorem C01_local_request_seen_by_member : ∀ cfg k c p own SS r sid q pq v,
  wf cfg k SS → k + 1 < two32 → parts_injective SS → s_parts SS !! p = Some c → (∀ f, flag_on cfg f = false) →
  session_local r = true → s_parts SS !! pq = Some q → q ≠ c → vrel v sid pq SS →
  recv_oksK core_msg v (msgs_to q (sstep cfg c p own SS r).2) = true ∧
  vrel (recv_all v (msgs_to q (sstep cfg c p own SS r).2)) sid pq (sstep cfg c p own SS r).1.1.
Proof. exact sstep_member. Qed.
Theorem C01_local_request_seen_by_member_components : ∀ cfg k c p own SS r q pq v,
  wf cfg k SS → k + 1 < two32 → parts_injective SS → s_parts SS !! p = Some c → (∀ f, flag_on cfg f = false) →
  session_local r = true → s_parts SS !! pq = Some q → q ≠ c → crel v pq SS →
  recv_oksK comp_msg v (msgs_to q (sstep cfg c p own SS r).2) = true ∧
  crel_mid (changed SS r) (sstep cfg c p own SS r).2 q (recv_all v (msgs_to q (sstep cfg c p own SS r).2)) pq
           (sstep cfg c p own SS r).1.1.
Proof. exact sstep_member2. Qed.
Theorem C01_local_request_seen_by_requester : ∀ cfg k c p own SS r sid v,
  wf cfg k SS → k + 1 < two32 → parts_injective SS → s_parts SS !! p = Some c → (∀ f, flag_on cfg f = false) →
  session_local r = true → vrel v sid p SS →
  vrel (view_own v r (msgs_to c (sstep cfg c p own SS r).2)) sid p (sstep cfg c p own SS r).1.1.
Proof. exact sstep_own. Qed.
Theorem C01_local_request_seen_by_requester_components : ∀ cfg k c p own SS r sid v,
  wf cfg k SS → k + 1 < two32 → parts_injective SS → s_parts SS !! p = Some c → (∀ f, flag_on cfg f = false) →
  session_local r = true → vrel v sid p SS → crel v p SS →
  crel (view_own v r (msgs_to c (sstep cfg c p own SS r).2)) p (sstep cfg c p own SS r).1.1.
Proof. exact sstep_own2. Qed.
Theorem C01_departure_seen_by_member : ∀ cfg k c p own SS sid q pq v,
  wf cfg k SS → parts_injective SS → s_parts SS !! p = Some c → s_parts SS !! pq = Some q → q ≠ c →
  vrel v sid pq SS →
  recv_oks v (msgs_to q (leave_outs cfg c p own SS)) = true ∧
  vrel (recv_all v (msgs_to q (leave_outs cfg c p own SS))) sid pq (left_session cfg c p own SS).
Proof. exact leave_member. Qed.
Theorem C01_join_seen_by_newcomer : ∀ cfg k c rid n ots SS,
  wf cfg k SS → parts_injective (entered SS c) →
  vrel (view_init n (u32_succ (s_pgen SS)) (msgs_to c (enter_outs cfg c rid n ots SS))) n (u32_succ (s_pgen SS)) (entered SS c).
Proof. exact enter_own. Qed.

(* the hypotheses are satisfiable: three connections, joins, entities of both kinds, a pose update and a component
   update through the scheduler (OSend / OTick / OStep), an entity action, a component type, components, a
   subscription made exact by a list request, a departure that deletes the leaver's entity and its component *)
Definition c01views_demo : list op :=
  [OConnect 1; OConnect 2; OConnect 3;
   OSend 1 (RJoin 1 SNew 1); OStep 1 0; OSend 2 (RJoin 2 (SId 1) 2); OStep 2 0;
   OSend 1 (REntityAdd 3 false 5 None 3); OStep 1 0;
   OSend 2 (REntityAdd 4 true 6 None 4); OStep 2 0;
   OSend 3 (RJoin 5 (SId 1) 5); OStep 3 0;
   OSend 2 (RPose 2 (Some [1;2;3;4;5;6;7]) 6); OTick 1; OStep 2 0;
   OSend 3 (RAction 7 (Some {| a_eid := 2; a_name := 9; a_ts := Some 3%Z; a_data := 4 |}) 7); OStep 3 0;
   OSend 2 (RTypeAdd 8 77); OStep 2 0;
   OSend 2 (RCompAdd 9 1 2 50 9); OStep 2 0;
   OSend 3 (RSubscribe 10 1); OStep 3 0;
   OSend 3 (RCompList 11 1); OStep 3 0;
   OSend 2 (RCompUpdate 1 2 51 12); OTick 1; OStep 2 0;
   OSend 2 (RCompAdd 13 1 1 60 13); OStep 2 0;
   ODisconnect 1].
Definition c01views_cfg : config := {| cfg_flags := []; cfg_vikja := true; cfg_odal := true; cfg_dagaz := false |}.
Example C01views_nonvacuous :
  cfg_flags c01views_cfg = [] ∧ short c01views_demo ∧
  cur_of (final c01views_cfg c01views_demo) 3 = Some (1, 3) ∧
  cur_of (final c01views_cfg c01views_demo) 1 = None ∧
  (λ v : view, (v_sid v, v_pid v, elements (v_parts v), map_to_list (v_ents v), map_to_list (v_acts v),
                map_to_list (v_comps v), elements (v_subd v), elements (v_synced v), elements (v_dirty v))) <$>
    views_after c01views_cfg (run c01views_cfg c01views_demo) !! 3 =
    Some (1, 3, [3; 2],
          [(2, {| ep_id := 2; ep_owner := 2; ep_pose := [1; 2; 3; 4; 5; 6; 7]; ep_flag := 6 |})],
          [((2, 9), {| a_eid := 2; a_name := 9; a_ts := Some 3%Z; a_data := 4 |})],
          [((1, 2), 51)], [1], [1], []) ∧
  views_after c01views_cfg (run c01views_cfg c01views_demo) !! 1 = None ∧
  P_C01 c01views_cfg (run c01views_cfg c01views_demo) = [].
Proof. vm_compute. repeat split; reflexivity. Qed.

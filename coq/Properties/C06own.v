(* Properties/C06own.v — C06 speaks about "the entities owned by the leaver" (owner field, as Spec.sp_gone does);
   Model.leave removes the entities listed in the leaver's own-set (Go: Participant.entityIDs).  In every
   reachable state the two agree.  Only statements; proofs are in proofs/Own.v. *)
From stdpp Require Import relations.
From hagall Require Import Model.
From hagall.proofs Require Import Relay Inv Session Local Trans WF Mono Reach PC02 PC06 Own.

(* the own-set of a member connection is exactly the set of ids of the entities of its session whose owner
   field is its participant id *)
Theorem C06_own_is_owner : ∀ cfg h, short h →
  ∀ c cn sid p SS,
    conns (final cfg h) !! c = Some cn → c_cur cn = Some (sid, p) → sessions (final cfg h) !! sid = Some SS →
    ∀ eid, eid ∈ c_own cn ↔ ∃ e, s_ents SS !! eid = Some e ∧ e_owner e = p.
Proof. exact reachable_own. Qed.
Print Assumptions C06_own_is_owner.

(* the list a departure of a member removes, computed where Model.leave computes it (after the modules'
   disconnect handlers and the unsubscription): exactly the entities of the session that the leaver owns
   (owner field) and that are not persistent; each once; ascending *)
Theorem C06_departure_removes_owned : ∀ cfg h c cn sid p SS, short h → member_of cfg h c cn sid p SS →
  let S2 := set_store (store_set_subs (fmap (λ s : gset N, s ∖ {[p]}))) (module_disconnect cfg (c_own cn) SS) in
  (∀ eid, eid ∈ doomed S2 (c_own cn) ↔ ∃ e, s_ents SS !! eid = Some e ∧ e_owner e = p ∧ e_persist e = false) ∧
  NoDup (doomed S2 (c_own cn)) ∧ StronglySorted N.lt (doomed S2 (c_own cn)).
Proof. exact departure_doomed_exact. Qed.
Print Assumptions C06_departure_removes_owned.

(* the same as an equation: the list equals the one computed from the owner field alone (the shape of
   Spec.sp_gone, read off the session record) *)
Theorem C06_departure_list_by_owner : ∀ cfg h c cn sid p SS, short h → member_of cfg h c cn sid p SS →
  doomed (set_store (store_set_subs (fmap (λ s : gset N, s ∖ {[p]}))) (module_disconnect cfg (c_own cn) SS)) (c_own cn) =
  sortN (omap (λ kv : N * entity, if (e_owner (snd kv) =? p) && negb (e_persist (snd kv)) then Some (fst kv) else None)
              (map_to_list (s_ents SS))).
Proof. exact departure_doomed_gone. Qed.
Print Assumptions C06_departure_list_by_owner.

(* the entity map the departure leaves behind, by the owner field *)
Theorem C06_departure_entities : ∀ cfg h c cn sid p SS, short h → member_of cfg h c cn sid p SS →
  ∀ e, s_ents (left_session cfg c p (c_own cn) SS) !! e =
       match s_ents SS !! e with
       | Some ent => if (e_owner ent =? p) && negb (e_persist ent) then None else Some ent
       | None => None
       end.
Proof. exact departure_ents. Qed.
Print Assumptions C06_departure_entities.

(* two connections in one session; participant 2 adds 1 (not persistent), 2 (persistent), 4, 5 (not persistent),
   participant 1 adds 3; participant 2 deletes 1 *)
Definition c06own_demo : list op :=
  [OConnect 1; OConnect 2; OSend 1 (RJoin 1 SNew 1); OStep 1 0; OSend 2 (RJoin 2 (SId 1) 2); OStep 2 0;
   OSend 2 (REntityAdd 3 false 0 None 3); OStep 2 0; OSend 2 (REntityAdd 4 true 0 None 4); OStep 2 0;
   OSend 1 (REntityAdd 5 false 0 None 5); OStep 1 0; OSend 2 (REntityAdd 6 false 0 None 6); OStep 2 0;
   OSend 2 (REntityDelete 7 1 7); OStep 2 0; OSend 2 (REntityAdd 8 false 0 None 8); OStep 2 0].
Example C06own_nonvacuous :
  let cfg := {| cfg_flags := []; cfg_vikja := true; cfg_odal := true; cfg_dagaz := false |} in
  ∃ cn SS, short c06own_demo ∧ member_of cfg c06own_demo 2 cn 1 2 SS ∧
    set_to_sorted (c_own cn) = [2; 4; 5] ∧
    map (λ kv : N * entity, (kv.1, e_owner kv.2, e_persist kv.2)) (map_to_list (s_ents SS)) =
      [(3, 1, false); (5, 2, false); (2, 2, true); (4, 2, false)] ∧
    doomed (set_store (store_set_subs (fmap (λ s : gset N, s ∖ {[2]}))) (module_disconnect cfg (c_own cn) SS))
           (c_own cn) = [4; 5].
Proof.
  intros cfg.
  exists (default conn0 (conns (final cfg c06own_demo) !! 2)),
         (default (session0 0) (sessions (final cfg c06own_demo) !! 1)).
  split; [by vm_compute|]. split; [split; vm_compute; reflexivity|]. vm_compute. auto.
Qed.

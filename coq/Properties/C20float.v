(* C20 (float32 clause) — "the geometric primitives (dot, cross, ...) agree with exact-arithmetic
   references within floating-point tolerance ... for all finite vectors".
   Statements only; the bit-exact float32 model is GridFloat.v (Flocq binary32, round to nearest
   even, the Go evaluation order, no fused multiply-add), the proofs are in
   proofs/GridFloatProofs.v.  The theorems about real numbers depend on the axioms of Coq's
   standard library of reals (and classical logic through Flocq) and on nothing else: see the
   output of every Print Assumptions.

   Notation:  R32 x      the real number denoted by the float32 x (0 for inf / NaN)
              u32        = 2^-24   unit roundoff          eta32 = 2^-150  half the least subnormal
              gamma_dot  = (1+u32)^3 - 1  (<= 3u/(1-3u))  eta_dot   = 3 (1+u32)^2 eta32  (< 2^-148)
              gamma_cross= (1+u32)^2 - 1  (<= 2u/(1-2u))  eta_cross = 2 (1+u32) eta32    (< 2^-148)
              dot_exact a b = ax*bx + ay*by + az*bz       dot_mag a b = |ax*bx| + |ay*by| + |az*bz|
              safe_mag   = 2^128 - 2^106 *)
From Coq Require Import ZArith Reals QArith Qreals.
From Flocq Require Import Core IEEE754.BinarySingleNaN IEEE754.Binary IEEE754.Bits.
From hagall Require Import Grid GridObs GridFloat.
From hagall.proofs Require Import GridFloatProofs.

(* ---- Dot: error bound, for ALL inputs whose float32 result is finite ... *)
Theorem C20f_dot_error : forall a b : vec32, is_finite32 (dot32 a b) = true ->
  (Rabs (R32 (dot32 a b) - dot_exact a b) <= gamma_dot * dot_mag a b + eta_dot)%R.
Proof. exact dot32_error. Qed.
Print Assumptions C20f_dot_error.

(* ... which is exactly: the inputs are finite and none of the five operations overflows
   (every rounded product and every rounded partial sum is below 2^128 in magnitude) *)
Theorem C20f_dot_finite_iff : forall a b : vec32,
  is_finite32 (dot32 a b) = true <->
  finite_vec32 a = true /\ finite_vec32 b = true /\
  (let p1 := rnd32 (R32 (fx a) * R32 (fx b)) in
   let p2 := rnd32 (R32 (fy a) * R32 (fy b)) in
   let p3 := rnd32 (R32 (fz a) * R32 (fz b)) in
   Rabs p1 < omega32 /\ Rabs p2 < omega32 /\ Rabs p3 < omega32 /\
   Rabs (rnd32 (p1 + p2)) < omega32 /\ Rabs (rnd32 (rnd32 (p1 + p2) + p3)) < omega32)%R.
Proof. exact dot32_finite_iff. Qed.
Print Assumptions C20f_dot_finite_iff.

Theorem C20f_dot_error_explicit : forall a b : vec32,
  finite_vec32 a = true -> finite_vec32 b = true -> dot_no_overflow a b ->
  (Rabs (R32 (dot32 a b) - dot_exact a b) <= gamma_dot * dot_mag a b + eta_dot)%R.
Proof. exact dot32_error_explicit. Qed.
Print Assumptions C20f_dot_error_explicit.

(* a sufficient condition on the exact values alone *)
Theorem C20f_dot_no_overflow : forall a b : vec32, finite_vec32 a = true -> finite_vec32 b = true ->
  (dot_mag a b <= safe_mag)%R -> is_finite32 (dot32 a b) = true.
Proof. exact dot32_no_overflow. Qed.
Print Assumptions C20f_dot_no_overflow.

Theorem C20f_dot_no_overflow_127 : forall a b : vec32, finite_vec32 a = true -> finite_vec32 b = true ->
  (dot_mag a b < bpow radix2 127)%R -> is_finite32 (dot32 a b) = true.
Proof. exact dot32_no_overflow_127. Qed.
Print Assumptions C20f_dot_no_overflow_127.

(* ---- Cross: every finite component is close to the exact difference of products *)
Theorem C20f_cross_error : forall a b : vec32,
  (is_finite32 (fx (cross32 a b)) = true ->
   Rabs (R32 (fx (cross32 a b)) - (R32 (fy a) * R32 (fz b) - R32 (fz a) * R32 (fy b)))
   <= gamma_cross * (Rabs (R32 (fy a) * R32 (fz b)) + Rabs (R32 (fz a) * R32 (fy b))) + eta_cross)%R /\
  (is_finite32 (fy (cross32 a b)) = true ->
   Rabs (R32 (fy (cross32 a b)) - (R32 (fz a) * R32 (fx b) - R32 (fx a) * R32 (fz b)))
   <= gamma_cross * (Rabs (R32 (fz a) * R32 (fx b)) + Rabs (R32 (fx a) * R32 (fz b))) + eta_cross)%R /\
  (is_finite32 (fz (cross32 a b)) = true ->
   Rabs (R32 (fz (cross32 a b)) - (R32 (fx a) * R32 (fy b) - R32 (fy a) * R32 (fx b)))
   <= gamma_cross * (Rabs (R32 (fx a) * R32 (fy b)) + Rabs (R32 (fy a) * R32 (fx b))) + eta_cross)%R.
Proof. exact cross32_error. Qed.
Print Assumptions C20f_cross_error.

(* a component fsub (fmul p q) (fmul r s) is finite iff its inputs are and nothing overflows *)
Theorem C20f_cross_component_finite_iff : forall p q r s : binary32,
  is_finite32 (fsub (fmul p q) (fmul r s)) = true <->
  is_finite32 p = true /\ is_finite32 q = true /\ is_finite32 r = true /\ is_finite32 s = true /\
  (let p1 := rnd32 (R32 p * R32 q) in
   let p2 := rnd32 (R32 r * R32 s) in
   Rabs p1 < omega32 /\ Rabs p2 < omega32 /\ Rabs (rnd32 (p1 - p2)) < omega32)%R.
Proof. exact dp32_finite_iff. Qed.
Print Assumptions C20f_cross_component_finite_iff.

Theorem C20f_cross_no_overflow : forall a b : vec32, finite_vec32 a = true -> finite_vec32 b = true ->
  ((Rabs (R32 (fy a) * R32 (fz b)) + Rabs (R32 (fz a) * R32 (fy b)) <= safe_mag)%R -> is_finite32 (fx (cross32 a b)) = true) /\
  ((Rabs (R32 (fz a) * R32 (fx b)) + Rabs (R32 (fx a) * R32 (fz b)) <= safe_mag)%R -> is_finite32 (fy (cross32 a b)) = true) /\
  ((Rabs (R32 (fx a) * R32 (fy b)) + Rabs (R32 (fy a) * R32 (fx b)) <= safe_mag)%R -> is_finite32 (fz (cross32 a b)) = true).
Proof. exact cross32_no_overflow. Qed.
Print Assumptions C20f_cross_no_overflow.

(* ---- Add, Sub, Mul: one rounding per component *)
Theorem C20f_add_error : forall a b : vec32,
  (is_finite32 (fx (add32 a b)) = true ->
   Rabs (R32 (fx (add32 a b)) - (R32 (fx a) + R32 (fx b))) <= u32 * Rabs (R32 (fx a) + R32 (fx b)))%R /\
  (is_finite32 (fy (add32 a b)) = true ->
   Rabs (R32 (fy (add32 a b)) - (R32 (fy a) + R32 (fy b))) <= u32 * Rabs (R32 (fy a) + R32 (fy b)))%R /\
  (is_finite32 (fz (add32 a b)) = true ->
   Rabs (R32 (fz (add32 a b)) - (R32 (fz a) + R32 (fz b))) <= u32 * Rabs (R32 (fz a) + R32 (fz b)))%R.
Proof. exact add32_error. Qed.
Print Assumptions C20f_add_error.

Theorem C20f_sub_error : forall a b : vec32,
  (is_finite32 (fx (sub32 a b)) = true ->
   Rabs (R32 (fx (sub32 a b)) - (R32 (fx a) - R32 (fx b))) <= u32 * Rabs (R32 (fx a) - R32 (fx b)))%R /\
  (is_finite32 (fy (sub32 a b)) = true ->
   Rabs (R32 (fy (sub32 a b)) - (R32 (fy a) - R32 (fy b))) <= u32 * Rabs (R32 (fy a) - R32 (fy b)))%R /\
  (is_finite32 (fz (sub32 a b)) = true ->
   Rabs (R32 (fz (sub32 a b)) - (R32 (fz a) - R32 (fz b))) <= u32 * Rabs (R32 (fz a) - R32 (fz b)))%R.
Proof. exact sub32_error. Qed.
Print Assumptions C20f_sub_error.

Theorem C20f_mul_error : forall (a : vec32) (s : binary32),
  (is_finite32 (fx (mul32 a s)) = true ->
   Rabs (R32 (fx (mul32 a s)) - R32 (fx a) * R32 s) <= u32 * Rabs (R32 (fx a) * R32 s) + eta32)%R /\
  (is_finite32 (fy (mul32 a s)) = true ->
   Rabs (R32 (fy (mul32 a s)) - R32 (fy a) * R32 s) <= u32 * Rabs (R32 (fy a) * R32 s) + eta32)%R /\
  (is_finite32 (fz (mul32 a s)) = true ->
   Rabs (R32 (fz (mul32 a s)) - R32 (fz a) * R32 s) <= u32 * Rabs (R32 (fz a) * R32 s) + eta32)%R.
Proof. exact mul32_error. Qed.
Print Assumptions C20f_mul_error.

(* ---- the constants, and how the bounds relate to the tolerances of the sampled test
        (GridObs.rel_tol = 2^-22, GridObs.abs_tol = 2^-140) *)
Theorem C20f_constants :
  (u32 = / 16777216 /\ eta32 = bpow radix2 (-150) /\
   gamma_dot = (1 + u32) ^ 3 - 1 /\ eta_dot = 3 * (1 + u32) ^ 2 * eta32 /\
   gamma_cross = (1 + u32) ^ 2 - 1 /\ eta_cross = 2 * (1 + u32) * eta32 /\
   gamma_dot <= 3 * u32 / (1 - 3 * u32) /\ gamma_cross <= 2 * u32 / (1 - 2 * u32) /\
   gamma_cross <= gamma_dot /\ eta_cross <= eta_dot /\
   gamma_dot <= Q2R rel_tol /\ eta_dot <= Q2R abs_tol /\
   Q2R rel_tol = bpow radix2 (-22) /\ Q2R abs_tol = bpow radix2 (-140) /\ Q2R huge = bpow radix2 127)%R.
Proof.
  rewrite Q2R_rel_tol, Q2R_abs_tol, Q2R_huge.
  exact (conj u32_val (conj eq_refl (conj eq_refl (conj eq_refl (conj eq_refl (conj eq_refl
        (conj gamma_dot_le_classical (conj gamma_cross_le_classical (conj gamma_cross_le_gamma_dot
        (conj eta_cross_le_eta_dot (conj gamma_dot_le_rel_tol (conj eta_dot_le_abs_tol
        (conj eq_refl (conj eq_refl eq_refl)))))))))))))).
Qed.
Print Assumptions C20f_constants.

Theorem C20f_dot_within_tolerance : forall a b : vec32, is_finite32 (dot32 a b) = true ->
  (Rabs (R32 (dot32 a b) - dot_exact a b) <= Q2R rel_tol * dot_mag a b + Q2R abs_tol)%R.
Proof. exact dot32_within_tolerance. Qed.
Print Assumptions C20f_dot_within_tolerance.

(* ---- the rational [Qval x] is the real the float denotes; the exact references of Grid.v on
        these rationals are the exact real expressions *)
Theorem C20f_Qval : forall x : binary32, Q2R (Qval x) = R32 x.
Proof. exact Qval_R32. Qed.
Print Assumptions C20f_Qval.

Theorem C20f_reference : forall a b : vec32,
  Q2R (dot (vecQ a) (vecQ b)) = dot_exact a b /\ Q2R (sum_abs (vecQ a) (vecQ b)) = dot_mag a b.
Proof. exact (fun a b => conj (Q2R_dot a b) (Q2R_sum_abs a b)). Qed.
Print Assumptions C20f_reference.

(* ---- the sampled tests of GridObs.v can never fail on a correct float32 implementation:
        on the bit-exact model's result they return true for ALL finite inputs, in the tolerance
        branch (finite result) as well as in the overflow branch (non-finite result) *)
Theorem C20f_dot_ok : forall a b : vec32, finite_vec32 a = true -> finite_vec32 b = true ->
  dot_ok (vecQ a) (vecQ b) (Qres (dot32 a b)) = true.
Proof. exact dot_ok_float32. Qed.
Print Assumptions C20f_dot_ok.

Theorem C20f_cross_ok : forall a b : vec32, finite_vec32 a = true -> finite_vec32 b = true ->
  let c := cross32 a b in
  cross_ok (vecQ a) (vecQ b) (Qres (fx c)) (Qres (fy c)) (Qres (fz c)) = true.
Proof. exact cross_ok_float32. Qed.
Print Assumptions C20f_cross_ok.

(* ---- the decoder of the C20 oracle (Grid.Q_of_f32bits, applied to the dumped bit patterns)
        computes exactly [Qres]; hence the same statements on what the oracle decodes *)
Theorem C20f_decoder : forall x : binary32, Q_of_f32bits (bits_of_f32 x) = Qres x.
Proof. exact Q_of_f32bits_bits. Qed.
Print Assumptions C20f_decoder.

Theorem C20f_dot_ok_bits : forall a b : vec32, finite_vec32 a = true -> finite_vec32 b = true ->
  Q_of_f32bits (bits_of_f32 (fx a)) = Some (vx (vecQ a)) /\
  Q_of_f32bits (bits_of_f32 (fy a)) = Some (vy (vecQ a)) /\
  Q_of_f32bits (bits_of_f32 (fz a)) = Some (vz (vecQ a)) /\
  dot_ok (vecQ a) (vecQ b) (Q_of_f32bits (bits_of_f32 (dot32 a b))) = true.
Proof.
  exact (fun a b Ha Hb =>
    match proj1 (finite_vec32_iff a) Ha with
    | conj Hx (conj Hy Hz) =>
        conj (decode_finite _ Hx) (conj (decode_finite _ Hy) (conj (decode_finite _ Hz) (dot_ok_bits a b Ha Hb)))
    end).
Qed.
Print Assumptions C20f_dot_ok_bits.

Theorem C20f_cross_ok_bits : forall a b : vec32, finite_vec32 a = true -> finite_vec32 b = true ->
  let c := cross32 a b in
  cross_ok (vecQ a) (vecQ b) (Q_of_f32bits (bits_of_f32 (fx c))) (Q_of_f32bits (bits_of_f32 (fy c)))
           (Q_of_f32bits (bits_of_f32 (fz c))) = true.
Proof. exact cross_ok_bits. Qed.
Print Assumptions C20f_cross_ok_bits.

(* ---- Examples (vm_compute on concrete bit patterns; the expected values were produced by the Go
        code: /verif/work/gridfloat/goreal drives the real dagaz.Vector3f.Dot / dagaz.Cross) *)
Open Scope Z_scope.
(* a = (1.5, 2, -3.25), b = (4, 0.1f, 7):  Dot = -16.55f, Cross = (14.325, -23.5, -7.85) *)
Example C20f_ex_dot : dot_bits 1069547520 1073741824 3226468352 1082130432 1036831949 1088421888 = 3246679654.
Proof. vm_compute. reflexivity. Qed.
Example C20f_ex_cross :
  cross_bits 1069547520 1073741824 3226468352 1082130432 1036831949 1088421888 = (1097151283, 3250323456, 3237688115).
Proof. vm_compute. reflexivity. Qed.
(* the hypotheses of the theorems hold on this value: finite inputs, finite result *)
Example C20f_ex_hyp :
  let a := vec32_of_bits 1069547520 1073741824 3226468352 in
  let b := vec32_of_bits 1082130432 1036831949 1088421888 in
  finite_vec32 a = true /\ finite_vec32 b = true /\ is_finite32 (dot32 a b) = true /\
  finite_vec32 (cross32 a b) = true /\ dot_ok (vecQ a) (vecQ b) (Qres (dot32 a b)) = true.
Proof. vm_compute. repeat split; reflexivity. Qed.
(* gradual underflow: a = (1e-30, 1e-25, -1e-30), b = (1e-15, 1e-20, 1e-15): the products are
   subnormal or vanish; Dot = 2^-149 (pattern 1) *)
Example C20f_ex_underflow :
  dot_bits 228737632 368547464 2376221280 646978941 507307272 646978941 = 1 /\
  cross_bits 228737632 368547464 2376221280 646978941 507307272 646978941 = (71362, 2147483650, 2147555010).
Proof. vm_compute. split; reflexivity. Qed.
(* overflow of the partial sum: (3e38,1,1).(1,3e38,1) = +Inf; the overflow branch of dot_ok holds *)
Example C20f_ex_overflow :
  let a := vec32_of_bits 2137108966 1065353216 1065353216 in
  let b := vec32_of_bits 1065353216 2137108966 1065353216 in
  bits_of_f32 (dot32 a b) = 2139095040 /\ Qres (dot32 a b) = None /\
  dot_ok (vecQ a) (vecQ b) (Qres (dot32 a b)) = true.
Proof. vm_compute. repeat split; reflexivity. Qed.
(* Inf - Inf: (1e30,-1e30,0).(1e30,1e30,0) is a NaN (Go/amd64 yields 0xFFC00000, Flocq 0x7FC00000) *)
Example C20f_ex_nan :
  is_nan32 (dot32 (vec32_of_bits 1900671690 4048155338 0) (vec32_of_bits 1900671690 1900671690 0)) = true /\
  dot_agrees 1900671690 4048155338 0 1900671690 1900671690 0 4290772992 = true.
Proof. vm_compute. split; reflexivity. Qed.

(* C10store.v — the regenerated fact (coq/GenStore.v, tools/storefacts) under which C10_conc_addtype
   (Properties/ConcStore.v) applies to the code: AddType looks the name up and allocates inside ONE exclusive critical
   section of EntityComponentStore.mutex, i.e. it is the atomic instruction IAddType of coq/ConcStore.v. *)
From hagall Require Import GenStore ConcStore.
Theorem C10_store_facts : addtype_atomic = true.
Proof. reflexivity. Qed.
Print Assumptions C10_store_facts.

(* Properties/RefFin.v — the last three stateful predicates of Preds2.v on the sequential model's own traces:
   P_C01 (replicated views), P_C04 (every request answered exactly once with the defined outcome), P_C03 (sessions
   are isolated).  Statements only; proofs are in proofs/RefFin.v (the stateful scan), proofs/RefFin2.v (P_C01),
   proofs/RefFin3*.v (P_C04), proofs/RefFin4*.v (P_C03). *)
From hagall Require Import Model Spec Obs Preds Preds2.
From hagall.proofs Require Import Inv Reach Own Refine2 Refine3 RefMod5 Views RefFin RefFin2 RefFin3 RefFin3b RefFin4.

(* ---------- the engine: P_C01, P_C03, P_C04 are [xscan]s; the violations of one more operation are those of the
   predicate's event function on the spec and the observer state after the history so far ---------- *)
Theorem RefFin_scan_one_more : ∀ {St A} (f : nat → spec → spec → St → event → St * list A) s0 cfg h o,
  let e := ev_of (final cfg h) o (step cfg (final cfg h) o) in
  let sp := spec_after (run cfg h) in
  xscan f 0 spec0 s0 (run cfg (h ++ [o])) =
    xscan f 0 spec0 s0 (run cfg h) ++ (f (length (run cfg h)) sp (spec_step sp e) (xstate f 0 spec0 s0 (run cfg h)) e).2.
Proof. intros St A. exact (@xscan_run_snoc St A). Qed.

(* ---------- (1) P_C01, all clauses: 100-104, 107 (at a hook snapshot every member's view equals the dumped session:
   participants, entities, the components of every synced type, entity actions, asset instances — compared through
   the canonical sorted encodings), 105, 106 (proofs/Views.v), 110-118 (the SessionState / VIKJA_STATE / ODAL_STATE
   handed to a newcomer are the spec's after the join), 121-127 (hook snapshot against the spec), 199 ---------- *)
Theorem RefFin_model_passes_C01 : ∀ cfg h, cfg_flags cfg = [] → short h → P_C01 cfg (run cfg h) = [].
Proof. exact model_passes_C01. Qed.
Print Assumptions RefFin_model_passes_C01.

(* the observer state the predicate has after a trace is the [views_after] of proofs/Views.v *)
Theorem RefFin_C01_state : ∀ cfg t, views_after cfg t = xstate (P_C01_event cfg) 0 spec0 ∅ t.
Proof. exact views_after_xstate. Qed.

(* the premise on the flags cannot be dropped: P_C01 is a property of the flag-free protocol (what the flags suppress is
   C17's subject) *)
Theorem RefFin_C01_flags_needed : ∃ cfg h, short h ∧ cfg_flags cfg = [F_JOIN_B] ∧ map v_code (P_C01 cfg (run cfg h)) = [101%Z].
Proof. exact C01_flags_refuted. Qed.
Print Assumptions RefFin_C01_flags_needed.

(* a concrete history with hook snapshots: three connections in one session; entities, a pose update and a component
   update through the scheduler, an entity action, an asset instance, a component type, components, a subscription made
   exact by a list request, a newcomer after all that, a departure that removes the leaver's entity; a second session *)
Definition reffin_cfg : config := {| cfg_flags := []; cfg_vikja := true; cfg_odal := true; cfg_dagaz := false |}.
Definition reffin_demo01 : list op :=
  [OConnect 1; OConnect 2; OConnect 3; OConnect 4;
   OSend 1 (RJoin 1 SNew 1); OStep 1 0; OSend 2 (RJoin 2 (SId 1) 2); OStep 2 0; OSnap;
   OSend 1 (REntityAdd 3 false 5 None 3); OStep 1 0;
   OSend 2 (REntityAdd 4 true 6 None 4); OStep 2 0; OSnap;
   OSend 2 (RPose 2 (Some [1;2;3;4;5;6;7]) 6); OTick 1; OStep 2 0;
   OSend 2 (RAction 7 (Some {| a_eid := 2; a_name := 9; a_ts := Some 3%Z; a_data := 4 |}) 7); OStep 2 0;
   OSend 2 (RAssetAdd 8 2 5 8); OStep 2 0;
   OSend 2 (RTypeAdd 8 77); OStep 2 0;
   OSend 2 (RCompAdd 9 1 2 50 9); OStep 2 0; OSnap;
   OSend 3 (RJoin 5 (SId 1) 5); OStep 3 0; OSnap;
   OSend 3 (RSubscribe 10 1); OStep 3 0;
   OSend 3 (RCompList 11 1); OStep 3 0; OSnap;
   OSend 2 (RCompUpdate 1 2 51 12); OTick 1; OStep 2 0;
   OSend 2 (RCompAdd 13 1 1 60 13); OStep 2 0; OSnap;
   OSend 4 (RJoin 6 SNew 6); OStep 4 0;
   ODisconnect 1; OSnap].
Example RefFin_C01_nonvacuous :
  cfg_flags reffin_cfg = [] ∧ short reffin_demo01 ∧
  length (List.filter (λ o, match o with OSnap => true | _ => false end) reffin_demo01) = 7%nat ∧
  (* the view of connection 3 (participant 3 of session 1) at the end *)
  (λ v : view, (v_sid v, v_pid v, elements (v_parts v), map_to_list (v_ents v), map_to_list (v_acts v), map_to_list (v_assets v),
                map_to_list (v_comps v), elements (v_subd v), elements (v_synced v), elements (v_dirty v))) <$>
    views_after reffin_cfg (run reffin_cfg reffin_demo01) !! 3 =
    Some (1, 3, [3; 2],
          [(2, {| ep_id := 2; ep_owner := 2; ep_pose := [1; 2; 3; 4; 5; 6; 7]; ep_flag := 6 |})],
          [((2, 9), {| a_eid := 2; a_name := 9; a_ts := Some 3%Z; a_data := 4 |})],
          [(2, {| as_id := 1; as_asset := 5; as_pid := 2; as_eid := 2 |})],
          [((1, 2), 51)], [1], [1], []) ∧
  P_C01 reffin_cfg (run reffin_cfg reffin_demo01) = [].
Proof. vm_compute. repeat split; reflexivity. Qed.

(* ---------- (2) P_C04, all clauses: 401 (answers go to the requester only), 402 (no answer where the protocol defines
   none), 403 (the error code is the one the outcome table predicts from the spec; TOO_BUSY for a receipt), 404 (the
   success response of the request's kind, and only when the table says success), 405 (exactly one answer), 406 (a refused
   request is relayed to no one), 407 / 408 (a session-scoped request of a connection in no session: only errors to the
   requester, and it stays in no session), 409 (no panic), 410 (between two hook snapshots with nothing but refusals and
   read-only requests in between, no session changed), 499 ---------- *)
Theorem RefFin_model_passes_C04 : ∀ cfg h, short h → P_C04 cfg (run cfg h) = [].
Proof. exact model_passes_C04. Qed.
Print Assumptions RefFin_model_passes_C04.

(* the observer-state invariant behind clause 410: as long as the predicate still considers the trace "clean" since the
   last hook snapshot, the sessions of the model are exactly as that snapshot encoded them *)
Theorem RefFin_C04_observer : ∀ cfg h, short h →
  let s := xstate (P_C04_event cfg) 0 spec0 {| q_snap := None; q_clean := false |} (run cfg h) in
  ∀ snap, q_snap s = Some snap → q_clean s = true →
    snap = enc_dumps (map (λ kv : N * session, dump_session kv.1 kv.2) (map_to_list (sessions (final cfg h)))).
Proof. exact c04_observer_invariant. Qed.
Print Assumptions RefFin_C04_observer.

(* one event of the model, from any state that satisfies the invariants of proofs/RefMod5.v: no violation, and the
   observer invariant is kept *)
Theorem RefFin_C04_step : ∀ cfg st o k kw sp i s,
  inv st → bounded k st → k + 1 < two32 → allref cfg kw sp st → c04_inv s st →
  let e := ev_of st o (step cfg st o) in
  (P_C04_event cfg i sp (spec_step sp e) s e).2 = [] ∧
  c04_inv (P_C04_event cfg i sp (spec_step sp e) s e).1 (step cfg st o).1.1.
Proof. exact c04_step_ok. Qed.

(* ---------- (3) P_C03, all clauses: 301 (every delivery of an event goes to its actor or to a member - before or after
   the event - of a session the actor is in before or after the event), 302 (between two hook snapshots a session that
   no event of one of its members and no tick of it touched is unchanged), 399 ---------- *)
Theorem RefFin_model_passes_C03 : ∀ cfg h, short h → P_C03 cfg (run cfg h) = [].
Proof. exact model_passes_C03. Qed.
Print Assumptions RefFin_model_passes_C03.

(* the observer-state invariant behind clause 302: what the predicate remembers of a session it has not seen touched
   since the last hook snapshot is the encoding of that session's present state *)
Theorem RefFin_C03_observer : ∀ cfg h, short h →
  let s := xstate (P_C03_event cfg) 0 spec0 {| i_snap := []; i_touched := [] |} (run cfg h) in
  ∀ sid enc, sid ∉ i_touched s →
    head (omap (λ x : N * list Z, if fst x =? sid then Some (snd x) else None) (i_snap s)) = Some enc →
    ∃ SS, sessions (final cfg h) !! sid = Some SS ∧ enc = eDump (canon_dump (dump_state_only (dump_session sid SS))).
Proof. exact model_c03_observer. Qed.
Print Assumptions RefFin_C03_observer.

(* isolation of one step of the model, in terms of the model state alone (every operation with an actor c: OSend, OStep -
   including a handler error followed by the disconnection -, ODisconnect): nobody else moves; a session that c is in
   neither before nor after is exactly as before; whoever is sent something is c or was a member of a session c is in
   before or after *)
Theorem RefFin_C03_step_isolation : ∀ cfg st o k c,
  inv st → bounded k st → k + 1 < two32 → actor (ev_of st o (step cfg st o)) = Some c →
  let st' := (step cfg st o).1.1 in
  (∀ q, q ≠ c → cur_of st' q = cur_of st q) ∧
  (∀ sid, (∀ p, cur_of st c ≠ Some (sid, p)) → (∀ p, cur_of st' c ≠ Some (sid, p)) → sessions st' !! sid = sessions st !! sid) ∧
  (∀ d, d ∈ (step cfg st o).1.2 → fst d = c ∨
     ∃ sid p pq, (cur_of st c = Some (sid, p) ∨ cur_of st' c = Some (sid, p)) ∧ cur_of st (fst d) = Some (sid, pq)).
Proof. intros cfg st o k c I B Hk Ha. destruct (step_iso cfg st o k c I B Hk Ha) as [H1 H2 H3]. split; [exact H1|]. split; [exact H2|exact H3]. Qed.
Print Assumptions RefFin_C03_step_isolation.
(* an operation without an actor (OConnect, OTick, OSnap) changes no session *)
Theorem RefFin_C03_no_actor : ∀ cfg st o, actor (ev_of st o (step cfg st o)) = None → sessions (step cfg st o).1.1 = sessions st.
Proof. exact step_noactor_sessions. Qed.

(* ---------- concrete histories ---------- *)
Definition act (e n : N) (t : Z) (d : N) : action := {| a_eid := e; a_name := n; a_ts := Some t; a_data := d |}.
(* C04: a session-scoped request of a connection in no session (refused, the connection is ended); ping, a join of an
   unknown session and a receipt outside a session; two members; every kind of request accepted once; then - between the
   first and the second hook snapshot - only refusals (not the owner, no such entity, conflict, unknown type, no such
   component, unregistered type, empty name, older timestamp, foreign asset, already joined, bad latency request) and
   read-only requests; then accepted changes and a join of an unknown session by a member (which leaves first) *)
Definition reffin_demo04 : list op :=
  [OConnect 1; OConnect 2; OConnect 3;
   OSend 3 (REntityAdd 1 false 0 None 1); OStep 3 0;
   OConnect 4; OSend 4 (RPing 2); OStep 4 0; OSend 4 (RJoin 3 (SId 7) 3); OStep 4 0; OSend 4 (RReceipt 4 1 1 1); OStep 4 0;
   OSend 1 (RJoin 1 SNew 1); OStep 1 0; OSend 2 (RJoin 2 (SId 1) 2); OStep 2 0;
   OSend 1 (REntityAdd 3 true 7 None 3); OStep 1 0;
   OSend 1 (RTypeAdd 4 100); OStep 1 0;
   OSend 1 (RCompAdd 5 1 1 11 5); OStep 1 0;
   OSend 1 (RAction 6 (Some (act 1 1 10 5)) 6); OStep 1 0;
   OSend 1 (RAssetAdd 7 1 5 7); OStep 1 0;
   OSnap;
   OSend 2 (REntityDelete 8 1 8); OStep 2 0;
   OSend 2 (REntityDelete 9 5 9); OStep 2 0;
   OSend 2 (RCompAdd 10 1 1 12 10); OStep 2 0;
   OSend 2 (RCompAdd 11 2 1 12 11); OStep 2 0;
   OSend 2 (RCompDelete 12 1 2 12); OStep 2 0;
   OSend 2 (RSubscribe 13 2); OStep 2 0;
   OSend 2 (RTypeAdd 14 0); OStep 2 0;
   OSend 2 (RAction 15 (Some (act 1 1 9 6)) 15); OStep 2 0;
   OSend 2 (RAssetAdd 16 1 6 16); OStep 2 0;
   OSend 2 (RJoin 17 (SId 1) 17); OStep 2 0;
   OSend 2 (RGetName 18 1); OStep 2 0; OSend 2 (RGetId 19 100); OStep 2 0; OSend 2 (RGetId 20 5); OStep 2 0;
   OSend 2 (RCompList 21 1); OStep 2 0; OSend 2 (RPing 22); OStep 2 0;
   OSend 2 (RSignedLatency 23 0 1); OStep 2 0;
   OSnap;
   OSend 2 (RSubscribe 24 1); OStep 2 0; OSend 2 (RUnsubscribe 25 1); OStep 2 0;
   OSend 2 (RCompDelete 26 1 1 26); OStep 2 0;
   OSend 1 (REntityDelete 27 1 27); OStep 1 0;
   OSend 2 (RJoin 28 (SId 9) 28); OStep 2 0;
   OSnap].
(* who is answered with what: (connection, 0 = the success response / the error code) per consumed request with an id *)
Definition answer_codes (e : event) : option (list (N * N)) :=
  match ev_req e with
  | Some r => match req_rid r with
              | Some rid => Some (omap (λ d : delivery, if bool_decide (msg_rid d.2 = Some rid)
                                          then Some (d.1, match d.2 with MError _ k => k | _ => 0 end) else None) (ev_outs e))
              | None => None end
  | None => None end.
(* tampering with one event of a trace, to see the clauses fire *)
Definition at_event (n : nat) (f : event → event) (t : trace) : trace := imap (λ i e, if Nat.eqb i n then f e else e) t.
Definition set_outs (f : list delivery → list delivery) (e : event) : event :=
  {| ev_op := ev_op e; ev_req := ev_req e; ev_outs := f (ev_outs e); ev_verdict := ev_verdict e |}.
Definition codes_at (l : list violation) : list (nat * Z) := map (λ v, (v_index v, v_code v)) l.

Example RefFin_C04_nonvacuous :
  let cfg := reffin_cfg in let t := run cfg reffin_demo04 in
  short reffin_demo04 ∧
  omap answer_codes t =
    [[]; [(4, 0)]; [(4, 404)]; [(4, 0)]; [(1, 0)]; [(2, 0)]; [(1, 0)]; [(1, 0)]; [(1, 0)]; [(1, 0)]; [(1, 0)];
     [(2, 401)]; [(2, 404)]; [(2, 409)]; [(2, 404)]; [(2, 404)]; [(2, 404)]; [(2, 400)]; [(2, 400)]; [(2, 401)]; [(2, 461)];
     [(2, 0)]; [(2, 0)]; [(2, 404)]; [(2, 0)]; [(2, 0)]; [(2, 400)];
     [(2, 0)]; [(2, 0)]; [(2, 0)]; [(1, 0)]; [(2, 404)]] ∧
  (* at the second hook snapshot (operation 59) the observer still holds the first one and saw nothing but refusals:
     clause 410 does compare the two *)
  (λ s, (is_Some_b (q_snap s), q_clean s))
    (xstate (P_C04_event cfg) 0 spec0 {| q_snap := None; q_clean := false |} (run cfg (take 59 reffin_demo04))) = (true, true) ∧
  P_C04 cfg t = [] ∧
  (* the clauses are not vacuous: operation 28 is connection 2's EntityDelete of a foreign entity (UNAUTHORIZED) *)
  codes_at (P_C04 cfg (at_event 28 (set_outs (λ _, [(2, MError 8 E_NOT_FOUND)])) t)) = [(28%nat, 403%Z)] ∧
  codes_at (P_C04 cfg (at_event 28 (set_outs (λ o, o ++ o)) t)) = [(28%nat, 405%Z)] ∧
  codes_at (P_C04 cfg (at_event 28 (set_outs (λ o, o ++ [(1, MEntityDeleteB 8 1)])) t)) = [(28%nat, 406%Z)] ∧
  (* and the second snapshot replaced by the third (taken after accepted changes) *)
  codes_at (P_C04 cfg (at_event 59 (λ e, default e (t !! 70%nat)) t)) = [(59%nat, 410%Z)].
Proof. vm_compute. repeat split; reflexivity. Qed.

(* C03: a hook snapshot after EVERY operation; two sessions whose participant and entity ids coincide; connection 2
   deletes "entity 1" and addresses "participant 1" of its own session 2, connection 4 (in no session) tries too;
   connection 3 switches from session 1 to session 2; a tick; session 1 ends; its id is recycled by a new session *)
Definition reffin_demo03 : list op := flat_map (λ o, [o; OSnap])
  [OConnect 1; OConnect 2; OConnect 3; OConnect 4;
   OSend 1 (RJoin 1 SNew 1); OStep 1 0; OSend 2 (RJoin 2 SNew 2); OStep 2 0; OSend 3 (RJoin 3 (SId 1) 3); OStep 3 0;
   OSend 1 (REntityAdd 3 false 0 None 3); OStep 1 0; OSend 2 (REntityAdd 4 false 0 None 4); OStep 2 0;
   OSend 2 (REntityDelete 5 1 5); OStep 2 0;
   OSend 2 (RCustom [1] [7] 6); OStep 2 0;
   OSend 4 (REntityDelete 7 1 7); OStep 4 0;
   OSend 3 (RJoin 8 (SId 2) 8); OStep 3 0;
   OTick 1;
   ODisconnect 1;
   OSend 2 (RJoin 9 SNew 9); OStep 2 1].
Example RefFin_C03_nonvacuous :
  let cfg := reffin_cfg in let t := run cfg reffin_demo03 in
  let obs n := (λ s, (map fst (i_snap s), i_touched s))
                 (xstate (P_C03_event cfg) 0 spec0 {| i_snap := []; i_touched := [] |} (run cfg (take n reffin_demo03))) in
  short reffin_demo03 ∧
  (* the observer before some of the snapshots: sessions in the last snapshot, sessions touched since *)
  map obs [23; 25; 37; 41; 52]%nat = [([1; 2], [1; 1]); ([1; 2], [2; 2]); ([1; 2], []); ([1; 2], [1; 1]); ([1; 2], [])] ∧
  P_C03 cfg t = [] ∧
  (* not vacuous: event 22 is connection 1's EntityAdd in session 1 (event 23 the snapshot after it) - a delivery leaked
     to connection 2 (in session 2) is reported, and so is the change of session 1 when the event is attributed to nobody *)
  codes_at (P_C03 cfg (at_event 22 (set_outs (λ o, o ++ [(2, MPingResp 0)])) t)) = [(22%nat, 301%Z)] ∧
  codes_at (P_C03 cfg (at_event 22 (λ _, {| ev_op := OConnect 9; ev_req := None; ev_outs := []; ev_verdict := VSkip |}) t)) = [(23%nat, 302%Z)].
Proof. vm_compute. repeat split; reflexivity. Qed.

(* Properties/C05.v — Only the creator of an entity can delete it, move it or attach an asset to it.
   Only statements; proofs are in proofs/PC05.v, proofs/Mono.v, proofs/WF.v. *)
From stdpp Require Import relations.
From Coq Require Import String.
From hagall Require Import Model Gen.
From hagall.proofs Require Import Relay Session Local Trans WF Mono Reach PC05.

(* regenerated from the Go sources on every run: the owner comparison is present in the three handlers,
   and no code path ever recycles a participant or entity id (only session and frame-handler ids) *)
Theorem C05_source_facts :
  Gen.owner_checks = ["HandleEntityDelete"; "HandleEntityUpdatePose"; "handleAssetInstanceAdd"]%string ∧
  Gen.id_reuse_sites = ["frameHandlerIDs"; "ids"]%string.
Proof. split; reflexivity. Qed.

(* In every reachable state: a delete / asset-add by anyone but the creator is answered UNAUTHORIZED, a pose
   update by anyone but the creator (or of an unknown entity, or without a pose) is dropped silently; in all
   three cases the state is unchanged and nobody else is told. *)
Theorem C05_delete_foreign_refused : ∀ cfg h c cn sid p SS, member_of cfg h c cn sid p SS →
  ∀ rid eid ots e hint, s_ents SS !! eid = Some e → e_owner e ≠ p →
  handle cfg (final cfg h) c (REntityDelete rid eid ots) hint = (final cfg h, [(c, MError rid E_UNAUTHORIZED)], VOk).
Proof. exact c05_delete_foreign. Qed.
Print Assumptions C05_delete_foreign_refused.

Theorem C05_pose_foreign_dropped : ∀ cfg h c cn sid p SS, member_of cfg h c cn sid p SS →
  ∀ eid po ots hint, (s_ents SS !! eid = None ∨ po = None ∨ ∃ e, s_ents SS !! eid = Some e ∧ e_owner e ≠ p) →
  handle cfg (final cfg h) c (RPose eid po ots) hint = (final cfg h, [], VOk).
Proof. exact c05_pose_foreign. Qed.
Print Assumptions C05_pose_foreign_dropped.

Theorem C05_asset_foreign_refused : ∀ cfg h c cn sid p SS, member_of cfg h c cn sid p SS →
  ∀ rid eid aid ots e hint, cfg_odal cfg = true → aid ≠ 0 → s_ents SS !! eid = Some e → e_owner e ≠ p →
  handle cfg (final cfg h) c (RAssetAdd rid eid aid ots) hint = (final cfg h, [(c, MError rid E_UNAUTHORIZED)], VOk).
Proof. exact c05_asset_foreign. Qed.
Print Assumptions C05_asset_foreign_refused.

(* Ownership is immutable: whatever a session goes through in one step (any request of any member, a departure,
   a join), an entity that is there before and after keeps its owner, persist bit and flag. *)
Theorem C05_owner_immutable : ∀ cfg k SS SS', k + 1 < two32 → wf cfg k SS → sess_trans cfg (Some SS) (Some SS') →
  ∀ e ent ent', s_ents SS !! e = Some ent → s_ents SS' !! e = Some ent' →
  e_owner ent' = e_owner ent ∧ e_persist ent' = e_persist ent ∧ e_flag ent' = e_flag ent.
Proof. intros cfg k SS SS' Hk W T. exact (sb_owner _ _ (stable_trans cfg k SS SS' Hk W T)). Qed.
Print Assumptions C05_owner_immutable.

(* Ownership can never be acquired later: in every reachable state every entity's owner id is below the id the
   next joiner will be handed, and participant ids are only ever issued by incrementing that counter, which
   never decreases (so no later participant ever carries a departed owner's id). *)
Theorem C05_next_pid_owns_nothing : ∀ cfg h c cn sid p SS, short h → member_of cfg h c cn sid p SS →
  ∀ e ent, s_ents SS !! e = Some ent → e_owner ent < u32_succ (s_pgen SS) ∧ s_pgen (entered SS c) = u32_succ (s_pgen SS).
Proof. exact c05_next_pid_owns_nothing. Qed.
Print Assumptions C05_next_pid_owns_nothing.

Theorem C05_pid_counter_monotone : ∀ cfg k SS SS', k + 1 < two32 → wf cfg k SS → sess_trans cfg (Some SS) (Some SS') →
  s_pgen SS ≤ s_pgen SS' ∧ ∀ q, s_parts SS !! q = None → is_Some (s_parts SS' !! q) → s_pgen SS < q ≤ s_pgen SS'.
Proof. intros cfg k SS SS' Hk W T. pose proof (stable_trans cfg k SS SS' Hk W T) as S. split; [apply S|apply S]. Qed.
Print Assumptions C05_pid_counter_monotone.

(* non-vacuity: participant 2 tries to delete participant 1's entity in a reachable two-member session *)
Definition c05_demo : list op :=
  [OConnect 1; OConnect 2; OSend 1 (RJoin 1 SNew 1); OStep 1 0; OSend 2 (RJoin 2 (SId 1) 2); OStep 2 0;
   OSend 1 (REntityAdd 3 true 0 None 3); OStep 1 0].
Example C05_nonvacuous :
  let cfg := {| cfg_flags := []; cfg_vikja := true; cfg_odal := true; cfg_dagaz := false |} in
  (handle cfg (final cfg c05_demo) 2 (REntityDelete 9 1 9) 0).1.2 = [(2, MError 9 E_UNAUTHORIZED)] ∧
  (handle cfg (final cfg c05_demo) 1 (REntityDelete 9 1 9) 0).1.2 = [(1, MEntityDeleteResp 9); (2, MEntityDeleteB 9 1)].
Proof. vm_compute. split; reflexivity. Qed.

(* C19 — A receipt is forwarded to the credit service iff well-formed, once and unchanged.
   Model: coq/Receipt.v (written from receipt/handler.go, websocket/realtime.go HandleReceipt,
   cmd/main.go).  Proofs: coq/proofs/ReceiptProofs.v.  Facts regenerated from the Go sources:
   coq/GenReceipt.v (tools/receiptfacts).  keccak / ecrecover_ok are universally quantified. *)
From Coq Require Import List NArith Bool String.
From hagall Require Import Receipt GenReceipt.
From hagall.proofs Require Import ReceiptProofs.
Import ListNotations.

(* ---- obligations over the regenerated facts (the tie to the sources; they fail closed) ---- *)

(* cmd/main.go makes exactly one buffered channel of positive capacity and hands that same
   channel to the connection handlers and to the forwarder *)
Theorem C19_tie_capacity :
  exists n, receipt_chan_cap = Some n /\ (0 < n)%N /\ receipt_chan_shared = true.
Proof. eexists; repeat split; reflexivity. Qed.

(* every send on ReceiptChan in package websocket is the comm of a select with a default *)
Theorem C19_tie_enqueue :
  receipt_enqueue_blocking = false /\ (0 < receipt_enqueue_sites)%N /\ receipt_enqueue_blocking_sites = 0%N.
Proof. repeat split; reflexivity. Qed.

(* the refusal codes of HandleReceipt are the model's *)
Theorem C19_tie_codes :
  receipt_empty_code = Some (code_name BadRequest, code_num BadRequest) /\
  receipt_full_code = Some (code_name TooBusy, code_num TooBusy).
Proof. split; reflexivity. Qed.

(* ---- the theorems: all histories, all payloads, any capacity ---- *)

(* exactly one answer per submission, in order, the one named by the specification `expected`
   (a function of the three fields and the queue length), an error return exactly on refusal *)
Theorem C19_answer_once :
  forall keccak ecrecover_ok cap blocking h st,
    run keccak ecrecover_ok cap blocking h = Some st ->
    map entry_key (log st) = submits h /\
    Forall (fun e => exists a, e_answers e = [a] /\
                     a = answer_of (e_rid e) (expected cap (e_qlen e) (e_payload e)) /\
                     e_err e = negb (verdict_accepted (expected cap (e_qlen e) (e_payload e))) /\
                     e_qlen e <= cap)
           (log st).
Proof. exact answer_once. Qed.

(* the same per step, in any state, the three cases written out *)
Theorem C19_answer_cases :
  forall cap blocking st c r p st' e,
    submit cap blocking st c r p = Done st' e ->
    e_conn e = c /\ e_rid e = r /\ e_payload e = p /\
    ((p_receipt p = [] \/ p_hash p = [] \/ p_sig p = []) ->
       e_answers e = [AError r BadRequest] /\ e_err e = true /\ queue st' = queue st) /\
    (p_receipt p <> [] -> p_hash p <> [] -> p_sig p <> [] -> List.length (queue st) < cap ->
       e_answers e = [AReceiptResponse r] /\ e_err e = false /\ queue st' = queue st ++ [p]) /\
    (p_receipt p <> [] -> p_hash p <> [] -> p_sig p <> [] -> cap <= List.length (queue st) ->
       e_answers e = [AError r TooBusy] /\ e_err e = true /\ queue st' = queue st).
Proof. exact submit_cases. Qed.

(* the list of POSTed bodies IS the well-formed part of the dequeued payloads: same payloads
   (unchanged), same order, same multiplicities; what reached the service is a subsequence *)
Theorem C19_forward_iff :
  forall keccak ecrecover_ok cap blocking h st,
    run keccak ecrecover_ok cap blocking h = Some st ->
    posted st = filter (valid keccak ecrecover_ok) (dequeued st) /\
    subseq (delivered st) (posted st).
Proof. exact forward_iff. Qed.

(* both directions, element-wise, with "well-formed" spelled out *)
Theorem C19_forward_iff_members :
  forall keccak ecrecover_ok cap blocking h st,
    run keccak ecrecover_ok cap blocking h = Some st ->
    (forall p, In p (posted st) ->
        In p (dequeued st) /\ keccak (p_receipt p) = p_hash p /\ ecrecover_ok (p_hash p) (p_sig p) = true) /\
    (forall p, In p (dequeued st) ->
        keccak (p_receipt p) = p_hash p -> ecrecover_ok (p_hash p) (p_sig p) = true -> In p (posted st)) /\
    (forall p, In p (delivered st) -> In p (posted st)).
Proof. exact forward_iff_members. Qed.

(* at most once, with multiplicities *)
Theorem C19_forward_at_most_once :
  forall keccak ecrecover_ok cap blocking h st,
    run keccak ecrecover_ok cap blocking h = Some st -> forall p,
    count_occ payload_eq_dec (posted st) p =
      (if valid keccak ecrecover_ok p then count_occ payload_eq_dec (dequeued st) p else 0) /\
    count_occ payload_eq_dec (dequeued st) p <= count_occ payload_eq_dec (accepted st) p /\
    count_occ payload_eq_dec (delivered st) p <= count_occ payload_eq_dec (posted st) p.
Proof. exact forward_counts. Qed.

(* while the service is reachable every attempt arrives *)
Theorem C19_delivered_when_up :
  forall keccak ecrecover_ok cap blocking h st,
    Forall (fun o => o <> ServiceUp false) h ->
    run keccak ecrecover_ok cap blocking h = Some st -> delivered st = posted st.
Proof. exact delivered_when_up. Qed.

(* FIFO, nothing invented: dequeued is a prefix of accepted, the rest is the queue; accepted
   is exactly what was answered with a ReceiptResponse, in submission order *)
Theorem C19_dequeued_subset_accepted :
  forall keccak ecrecover_ok cap blocking h st,
    run keccak ecrecover_ok cap blocking h = Some st ->
    accepted st = dequeued st ++ queue st /\
    accepted st = map e_payload (filter entry_accepted (log st)) /\
    map entry_key (log st) = submits h.
Proof. exact dequeued_prefix_accepted. Qed.

(* the queue never exceeds the capacity, in any state any history passes through *)
Theorem C19_queue_bounded :
  forall keccak ecrecover_ok cap blocking h1 h2 st,
    run keccak ecrecover_ok cap blocking (h1 ++ h2) = Some st ->
    exists s1, run keccak ecrecover_ok cap blocking h1 = Some s1 /\ List.length (queue s1) <= cap.
Proof. exact queue_bounded_everywhere. Qed.

(* submitting never blocks: with the enqueue the code HAS (the regenerated fact), a submission
   is one completed step in every state and every history runs to its end.
   PARTIAL as to the runtime: that a Go `select` with `default` does not wait is the semantics of
   the language, observed by the harness (full queue, deadline), not derived here. *)
Theorem C19_never_blocks :
  forall keccak ecrecover_ok cap,
    (forall st c r p, exists st' e, submit cap receipt_enqueue_blocking st c r p = Done st' e) /\
    (forall st o, exists st', step keccak ecrecover_ok cap receipt_enqueue_blocking st o = Some st') /\
    (forall h, exists st, run keccak ecrecover_ok cap receipt_enqueue_blocking h = Some st).
Proof. exact (fun k e c => never_blocks k e c receipt_enqueue_blocking eq_refl). Qed.

(* ...and the fact matters: a plain send does block, on a full queue *)
Theorem C19_blocking_send_would_block :
  forall keccak ecrecover_ok cap p, has_empty p = false ->
    run keccak ecrecover_ok cap true (repeat (Submit 0 0 p) (S cap)) = None.
Proof. exact (fun k e c => blocking_send_blocks k e c true eq_refl). Qed.

Print Assumptions C19_tie_capacity.
Print Assumptions C19_tie_enqueue.
Print Assumptions C19_tie_codes.
Print Assumptions C19_answer_once.
Print Assumptions C19_answer_cases.
Print Assumptions C19_forward_iff.
Print Assumptions C19_forward_iff_members.
Print Assumptions C19_forward_at_most_once.
Print Assumptions C19_delivered_when_up.
Print Assumptions C19_dequeued_subset_accepted.
Print Assumptions C19_queue_bounded.
Print Assumptions C19_never_blocks.
Print Assumptions C19_blocking_send_would_block.

(* ---- the hypotheses are satisfiable on concrete, non-trivial values ---- *)
(* a history over capacity 2 with accepted / too-busy / bad-request answers, well-formed and
   ill-formed receipts, the service down in the middle: it completes, and shows every case *)
Example C19_ex_run :
  exists st, run toy_keccak toy_ecrecover_ok 2 false ex_history = Some st /\
    submits ex_history <> [] /\
    map (fun e => (e_answers e, e_err e)) (log st) =
      [([AReceiptResponse 7], false); ([AReceiptResponse 8], false); ([AError 9 TooBusy], true);
       ([AError 1 BadRequest], true); ([AReceiptResponse 2], false); ([AReceiptResponse 3], false);
       ([AReceiptResponse 4], false)] /\
    dequeued st = [ex_valid; ex_badhash; ex_valid2; ex_badsig; ex_valid] /\
    posted st = [ex_valid; ex_valid2; ex_valid] /\
    delivered st = [ex_valid; ex_valid] /\
    queue st = [].
Proof.
  eexists. split; [vm_compute; reflexivity|].
  vm_compute. repeat split. discriminate.
Qed.

Example C19_ex_valid : valid toy_keccak toy_ecrecover_ok ex_valid = true /\
  valid toy_keccak toy_ecrecover_ok ex_badhash = false /\ valid toy_keccak toy_ecrecover_ok ex_badsig = false.
Proof. repeat split; vm_compute; reflexivity. Qed.

Example C19_ex_counts :
  forall st, run toy_keccak toy_ecrecover_ok 2 false ex_history = Some st ->
  count_occ payload_eq_dec (posted st) ex_valid = 2 /\ count_occ payload_eq_dec (accepted st) ex_valid = 2 /\
  count_occ payload_eq_dec (posted st) ex_badhash = 0 /\ count_occ payload_eq_dec (accepted st) ex_badhash = 1.
Proof. intros st H. vm_compute in H. inversion H. repeat split. Qed.

(* all service-up history (hypothesis of C19_delivered_when_up) *)
Example C19_ex_up :
  Forall (fun o => o <> ServiceUp false) [Submit 1 1 ex_valid; Forward; ServiceUp true] /\
  exists st, run toy_keccak toy_ecrecover_ok 2 false [Submit 1 1 ex_valid; Forward; ServiceUp true] = Some st /\
             delivered st = [ex_valid].
Proof. split. repeat constructor; discriminate. eexists. split; vm_compute; reflexivity. Qed.

(* the same history with a blocking enqueue stops at the submission that finds the queue full *)
Example C19_ex_blocking : run toy_keccak toy_ecrecover_ok 2 true ex_history = None /\ has_empty ex_valid = false.
Proof. split; vm_compute; reflexivity. Qed.

(* Done and its three branches are inhabited *)
Example C19_ex_cases :
  (exists st' e, submit 1 false init 1 5 ex_nohash = Done st' e /\ e_answers e = [AError 5 BadRequest]) /\
  (exists st' e, submit 1 false init 1 5 ex_valid = Done st' e /\ e_answers e = [AReceiptResponse 5]) /\
  (exists st' e, submit 0 false init 1 5 ex_valid = Done st' e /\ e_answers e = [AError 5 TooBusy]).
Proof. repeat split; do 2 eexists; split; vm_compute; reflexivity. Qed.

(* C13 and C10, concurrent readings: races inside the entity-component store (models/entity.go
   EntityComponentStore) between the connections of one session.  Statements only.
   Model: coq/ConcStore.v — threads are connections (a connection's requests are handled one after the other by
   websocket/handler.go, so they form one sequential program), one instruction per critical section of the store
   or lock-free action of the handler; [sched_run (cinit s0 progs) σ] runs schedule σ (a list of thread indices)
   from store s0; [c_log] is what left the store, in execution order.  Proofs: proofs/ConcStoreProofs.v
   (invariants preserved by every instruction of every thread; induction over the schedule).

   The theorems are conditional on facts about the code, given as boolean predicates over the programs:
     uses_atomic_notify        Notify runs its handler (the relay) INSIDE subscriptionMutex.RLock
                               (no INotifyRead / INotifyRelay);
     uses_atomic_addtype       AddType looks up and allocates inside ONE mutex.Lock region
                               (no IAddTypeLookup / IAddTypeAlloc);
     responds_after_unsub      a thread sends the unsubscribe response for (p, t) only after an Unsubscribe(t, p)
                               (or UnsubscribeByParticipant(p)) of its own, with no Subscribe(t, p) of its own in
                               between (HandleEntityComponentUnsubscribe: Unsubscribe, then respond.Send);
     subscribes_in_own_thread  Subscribe(t, p) is not issued by another thread than the one that sends p's
                               unsubscribe response for t (both are requests of p's own connection).
   The last fact is not in the clause as worded; without it (or with the response merely "somewhere after" an
   unsubscription) the statement is false of the model: C13_conc_needs_own_thread_refuted,
   C13_conc_needs_no_subscribe_between_refuted. *)
From hagall Require Import Base ConcStore.
From hagall.proofs Require Import ConcStoreProofs.

(* ---------------------------------------------------------------- C13 ---------------------------------------- *)
(* Any number of connections, any programs within the facts, any initial store, any schedule: in the log no
   update is handed to p for type t after p's unsubscribe response for t, unless a Subscribe(t, p) was executed
   in between. *)
Theorem C13_conc_no_relay_after_unsub_response :
  ∀ progs, uses_atomic_notify progs = true → responds_after_unsub progs = true →
    subscribes_in_own_thread progs = true →
  ∀ σ s0 p t s l1 l2 l3,
    c_log (sched_run (cinit s0 progs) σ) = l1 ++ [EvUnsubResp p t] ++ l2 ++ [EvRelay p t s] ++ l3 →
    EvSub p t ∈ l2.
Proof. exact conc_no_relay_after_unsub_response. Qed.
Print Assumptions C13_conc_no_relay_after_unsub_response.

(* ... and at every moment of every schedule, a participant whose response is out and that has not subscribed
   since is not in the subscriber set of the store *)
Theorem C13_conc_responded_not_subscribed :
  ∀ progs, uses_atomic_notify progs = true → responds_after_unsub progs = true →
    subscribes_in_own_thread progs = true →
  ∀ σ s0 p t l1 l2, let st := sched_run (cinit s0 progs) σ in
    c_log st = l1 ++ [EvUnsubResp p t] ++ l2 → EvSub p t ∉ l2 → p ∉ subs_of (c_store st) t.
Proof. exact conc_responded_not_subscribed. Qed.
Print Assumptions C13_conc_responded_not_subscribed.

(* The core, with the atomic Notify as ONLY hypothesis (any programs otherwise, whoever subscribes): no update is
   handed to p for t after Unsubscribe(t, p) / UnsubscribeByParticipant(p) RETURNED, unless a Subscribe(t, p) was
   executed in between. *)
Theorem C13_conc_no_relay_after_unsubscribe :
  ∀ progs, uses_atomic_notify progs = true →
  ∀ σ s0 p t s e l1 l2 l3, e = EvUnsub p t ∨ e = EvUnsubAll p →
    c_log (sched_run (cinit s0 progs) σ) = l1 ++ [e] ++ l2 ++ [EvRelay p t s] ++ l3 →
    EvSub p t ∈ l2.
Proof. exact conc_no_relay_after_unsubscribe. Qed.
Print Assumptions C13_conc_no_relay_after_unsubscribe.

(* What the hypotheses of the clause as worded give (atomic Notify; every response somewhere after an
   unsubscription of the same pair in the same thread): a relay after the response is explained by a subscribe
   executed after that unsubscription (possibly BEFORE the response: the two refutations below). *)
Theorem C13_conc_no_relay_after_unsub_response_weak :
  ∀ progs, uses_atomic_notify progs = true → responds_after_unsub_weak progs = true →
  ∀ σ s0 p t s l1 l2 l3,
    c_log (sched_run (cinit s0 progs) σ) = l1 ++ [EvUnsubResp p t] ++ l2 ++ [EvRelay p t s] ++ l3 →
    ∃ la e lb, l1 = la ++ [e] ++ lb ∧ (e = EvUnsub p t ∨ e = EvUnsubAll p) ∧ EvSub p t ∈ lb ++ l2.
Proof. exact conc_no_relay_after_unsub_response_weak. Qed.
Print Assumptions C13_conc_no_relay_after_unsub_response_weak.

(* the split Notify (copy the subscribers under RLock, relay after RUnlock) breaks the clause:
   thread 0 = participant 1: AddType "9" (id 1), Subscribe(1,1), Unsubscribe(1,1), response;
   thread 1 = participant 2: Notify(1) split in read / relay; schedule 0 0 1 0 0 1:
   log = TypeId, Sub 1 1, Unsub 1 1, UnsubResp 1 1, Relay 1 1 2 *)
Theorem C13_conc_split_refuted :
  ∃ progs σ,
    responds_after_unsub progs = true ∧ subscribes_in_own_thread progs = true ∧
    uses_atomic_notify progs = false ∧
    ∃ l1 l2 l3 p t s,
      c_log (sched_run (cinit store0 progs) σ) = l1 ++ [EvUnsubResp p t] ++ l2 ++ [EvRelay p t s] ++ l3 ∧
      EvSub p t ∉ l2 ∧ p ∉ subs_of (c_store (sched_run (cinit store0 progs) σ)) t.
Proof. exact conc_split_notify_refuted. Qed.
Print Assumptions C13_conc_split_refuted.

(* the atomic Notify and "Unsubscribe, then respond" do not suffice if another thread may subscribe p *)
Theorem C13_conc_needs_own_thread_refuted :
  ∃ progs σ,
    uses_atomic_notify progs = true ∧ responds_after_unsub progs = true ∧
    subscribes_in_own_thread progs = false ∧
    ∃ l1 l2 l3 p t s,
      c_log (sched_run (cinit store0 progs) σ) = l1 ++ [EvUnsubResp p t] ++ l2 ++ [EvRelay p t s] ++ l3 ∧
      EvSub p t ∉ l2.
Proof. exact conc_needs_own_thread_refuted. Qed.
Print Assumptions C13_conc_needs_own_thread_refuted.
(* ... nor if the thread itself may subscribe between its Unsubscribe and its response *)
Theorem C13_conc_needs_no_subscribe_between_refuted :
  ∃ progs σ,
    uses_atomic_notify progs = true ∧ responds_after_unsub_weak progs = true ∧
    subscribes_in_own_thread progs = true ∧ responds_after_unsub progs = false ∧
    ∃ l1 l2 l3 p t s,
      c_log (sched_run (cinit store0 progs) σ) = l1 ++ [EvUnsubResp p t] ++ l2 ++ [EvRelay p t s] ++ l3 ∧
      EvSub p t ∉ l2.
Proof. exact conc_needs_no_subscribe_between_refuted. Qed.
Print Assumptions C13_conc_needs_no_subscribe_between_refuted.

(* ---------------------------------------------------------------- C10 ---------------------------------------- *)
(* Any number of connections, any programs whose type additions are the atomic AddType (any other instruction
   allowed, the split Notify included), any well-formed initial index, any schedule within the code's own bound
   (uint32 counter):
   (a) two answers for the same name carry the same id; (b) answers for different names carry different ids;
   (c) the name -> id index is injective, every id in it is at most the counter, the index is the inverse of the
       id -> name index, the counter has not decreased and no initial entry was dropped or changed;
   (d) an answer's id is the index entry of its name at the end. *)
Theorem C10_conc_addtype :
  ∀ progs, uses_atomic_addtype progs = true →
  ∀ σ s0, store_wf s0 → s_next s0 + N.of_nat (length σ) < two32 →
  let st := sched_run (cinit s0 progs) σ in
  (∀ t1 t2 n i1 i2, EvTypeId t1 n i1 ∈ c_log st → EvTypeId t2 n i2 ∈ c_log st → i1 = i2) ∧
  (∀ t1 t2 n1 n2 i1 i2, EvTypeId t1 n1 i1 ∈ c_log st → EvTypeId t2 n2 i2 ∈ c_log st → n1 ≠ n2 → i1 ≠ i2) ∧
  ((∀ n1 n2 i, s_ids (c_store st) !! n1 = Some i → s_ids (c_store st) !! n2 = Some i → n1 = n2) ∧
   (∀ n i, s_ids (c_store st) !! n = Some i → i ≤ s_next (c_store st)) ∧
   store_wf (c_store st) ∧
   s_next s0 ≤ s_next (c_store st) ∧ s_ids s0 ⊆ s_ids (c_store st) ∧ s_names s0 ⊆ s_names (c_store st)) ∧
  (∀ tid n i, EvTypeId tid n i ∈ c_log st → s_ids (c_store st) !! n = Some i).
Proof. exact conc_addtype. Qed.
Print Assumptions C10_conc_addtype.

(* ids are never reissued: between any two moments of a schedule the counter does not decrease, no entry of either
   index is dropped or changed, the log is only extended, and a name registered in between gets an id above the
   earlier counter (hence different from every id issued before) *)
Theorem C10_conc_addtype_never_reissued :
  ∀ progs, uses_atomic_addtype progs = true →
  ∀ σ1 σ2 s0, store_wf s0 → s_next s0 + N.of_nat (length (σ1 ++ σ2)) < two32 →
  let st1 := sched_run (cinit s0 progs) σ1 in
  let st2 := sched_run (cinit s0 progs) (σ1 ++ σ2) in
  s_next (c_store st1) ≤ s_next (c_store st2) ∧
  s_ids (c_store st1) ⊆ s_ids (c_store st2) ∧
  s_names (c_store st1) ⊆ s_names (c_store st2) ∧
  c_log st1 `prefix_of` c_log st2 ∧
  ∀ n i, s_ids (c_store st2) !! n = Some i → s_ids (c_store st1) !! n = None → s_next (c_store st1) < i.
Proof. exact conc_addtype_never_reissued. Qed.
Print Assumptions C10_conc_addtype_never_reissued.

(* the split AddType (lookup under RLock, allocation later without looking again) breaks (a), (c) and (d):
   two threads add the name 7, schedule 0 1 0 1 (both miss, both allocate): thread 0 is answered 1, thread 1 is
   answered 2; the name index ends with 7 -> 2, the id index with 1 -> 7 (orphaned) and 2 -> 7 *)
Theorem C10_conc_split_refuted :
  ∃ progs σ, let st := sched_run (cinit store0 progs) σ in
    uses_atomic_addtype progs = false ∧
    EvTypeId 0 7 1 ∈ c_log st ∧ EvTypeId 1 7 2 ∈ c_log st ∧
    s_ids (c_store st) !! 7 = Some 2 ∧
    s_names (c_store st) !! 1 = Some 7 ∧ s_names (c_store st) !! 2 = Some 7 ∧
    ¬ store_wf (c_store st).
Proof. exact conc_split_addtype_refuted. Qed.
Print Assumptions C10_conc_split_refuted.

(* ------------------------------------------------- schedules and sequential histories ------------------------ *)
(* In the atomic fragment every schedule is a sequential history at the granularity of store calls: its final
   store and its log are those of ONE client issuing the executed calls ([trace]: an interleaving of the threads'
   programs) one after the other.  (At the granularity of whole connections this is false, and not expected:
   threads [AddType a; AddType c] and [AddType b; AddType c] interleaved 0 1 0 1 give c the id 3, either
   connection-after-connection order gives it 2.) *)
Theorem ConcStore_atomic_sequential :
  ∀ progs, uses_atomic_notify progs = true → uses_atomic_addtype progs = true →
  ∀ σ s0, let st := sched_run (cinit s0 progs) σ in
    (c_store st, c_log st) = seq_run s0 (trace (cinit s0 progs) σ).
Proof. exact conc_atomic_sequential. Qed.
Print Assumptions ConcStore_atomic_sequential.

(* ---------------------------------------------------------------- non-vacuity -------------------------------- *)
(* participant 1 (thread 0): AddType, Subscribe, Unsubscribe + response, Subscribe again;
   participant 2 (thread 1): three component updates of that type.  The facts hold; the schedule interleaves the
   updates before the unsubscription (relayed), between Unsubscribe and the response and after it (not relayed),
   and after the re-subscription (relayed): the split of the theorem exists with l2 = [EvSub 1 1]. *)
Definition ex_progs : list (list instr) :=
  [ [IAddType 9; ISubscribe 1 1; IUnsub 1 1; IRespondUnsub 1 1; ISubscribe 1 1];
    [INotify 1 2; INotify 1 2; INotify 1 2; INotify 1 2] ].
Definition ex_sched : list nat := [0; 0; 1; 0; 1; 0; 1; 0; 1]%nat.

Example ConcStore_ex_facts :
  uses_atomic_notify ex_progs = true ∧ uses_atomic_addtype ex_progs = true ∧
  responds_after_unsub ex_progs = true ∧ responds_after_unsub_weak ex_progs = true ∧
  subscribes_in_own_thread ex_progs = true ∧
  complete (sched_run (cinit store0 ex_progs) ex_sched) = true.
Proof. repeat split; vm_compute; reflexivity. Qed.

Example C13_conc_ex_log :
  c_log (sched_run (cinit store0 ex_progs) ex_sched) =
    [EvTypeId 0 9 1; EvSub 1 1; EvRelay 1 1 2; EvUnsub 1 1] ++ [EvUnsubResp 1 1] ++ [EvSub 1 1] ++
    [EvRelay 1 1 2] ++ [] ∧
  relay_after_resp [] (c_log (sched_run (cinit store0 ex_progs) ex_sched)) = false.
Proof. split; vm_compute; reflexivity. Qed.

(* the judge sees the violation in the witness of the split Notify *)
Example C13_conc_ex_judge_split :
  c_log (sched_run (cinit store0 w13_progs) w13_sched) =
    [EvTypeId 0 9 1; EvSub 1 1; EvUnsub 1 1; EvUnsubResp 1 1; EvRelay 1 1 2] ∧
  relay_after_resp [] (c_log (sched_run (cinit store0 w13_progs) w13_sched)) = true.
Proof. split; vm_compute; reflexivity. Qed.

(* three connections add two names concurrently (one of them also subscribes and relays): the hypotheses of
   C10_conc_addtype hold for the empty store; the answers *)
Definition ex10_progs : list (list instr) :=
  [ [IAddType 7; IAddType 8]; [IAddType 8; IAddType 7]; [IAddType 7; ISubscribe 3 1; INotifyRead 1; INotifyRelay 1 2] ].
Definition ex10_sched : list nat := [1; 0; 2; 0; 1; 2; 2; 2]%nat.

Example C10_conc_ex_wf : store_wf store0.
Proof. exact store0_wf. Qed.

Example C10_conc_ex :
  uses_atomic_addtype ex10_progs = true ∧ uses_atomic_notify ex10_progs = false ∧
  s_next store0 + N.of_nat (length ex10_sched) < two32 ∧
  type_answers (c_log (sched_run (cinit store0 ex10_progs) ex10_sched)) =
    [(1%nat, 8, 1); (0%nat, 7, 2); (2%nat, 7, 2); (0%nat, 8, 1); (1%nat, 7, 2)] ∧
  obs_ids (c_store (sched_run (cinit store0 ex10_progs) ex10_sched)) = [(7, 2); (8, 1)] ∧
  s_next (c_store (sched_run (cinit store0 ex10_progs) ex10_sched)) = 2.
Proof. repeat split; vm_compute; reflexivity. Qed.

(* the split AddType witness, observed *)
Example C10_conc_ex_split :
  type_answers (c_log (sched_run (cinit store0 w10_progs) w10_sched)) = [(0%nat, 7, 1); (1%nat, 7, 2)] ∧
  obs_ids (c_store (sched_run (cinit store0 w10_progs) w10_sched)) = [(7, 2)] ∧
  obs_names (c_store (sched_run (cinit store0 w10_progs) w10_sched)) = [(1, 7); (2, 7)].
Proof. repeat split; vm_compute; reflexivity. Qed.

(* the sequential reading of the first example *)
Example ConcStore_ex_trace :
  trace (cinit store0 ex_progs) ex_sched =
    [(0%nat, IAddType 9); (0%nat, ISubscribe 1 1); (1%nat, INotify 1 2); (0%nat, IUnsub 1 1); (1%nat, INotify 1 2);
     (0%nat, IRespondUnsub 1 1); (1%nat, INotify 1 2); (0%nat, ISubscribe 1 1); (1%nat, INotify 1 2)] ∧
  (seq_run store0 (trace (cinit store0 ex_progs) ex_sched)).2 = c_log (sched_run (cinit store0 ex_progs) ex_sched).
Proof. split; vm_compute; reflexivity. Qed.

(* the remark under ConcStore_atomic_sequential, computed (names a = 5, b = 6, c = 7) *)
Example ConcStore_ex_not_connection_serial :
  let progs := [ [IAddType 5; IAddType 7]; [IAddType 6; IAddType 7] ] in
  s_ids (c_store (sched_run (cinit store0 progs) [0; 1; 0; 1]%nat)) !! 7 = Some 3 ∧
  s_ids (c_store (sched_run (cinit store0 progs) [0; 0; 1; 1]%nat)) !! 7 = Some 2 ∧
  s_ids (c_store (sched_run (cinit store0 progs) [1; 1; 0; 0]%nat)) !! 7 = Some 2.
Proof. repeat split; vm_compute; reflexivity. Qed.

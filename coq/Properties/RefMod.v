(* Properties/RefMod.v — the refinement between the sequential model and the trace-determined specification,
   extended to the MODULE state (vikja entity actions, odal asset instances) and the ISSUED-ID sets, and the
   predicates that are therefore silent on every trace of the model.
   Only statements; proofs are in proofs/RefMod.v (refinement), RefMod2.v (P_C16), RefMod3.v (P_C10),
   RefMod4.v (P_C02), RefMod5.v (P_C06, P_C05). *)
From hagall Require Import Model Spec Obs Preds.
From hagall.proofs Require Import Inv Reach Own Refine Refine2 Refine3 RefComp RefComp2 RefMod RefMod2 RefMod3 RefMod4 RefMod5.

(* ---------- Deliverable 1: the module refinement ---------- *)
Theorem RefMod_refinement : ∀ cfg h, short h → refines_mod (spec_after (run cfg h)) (final cfg h).
Proof. exact refinement_mod. Qed.
Print Assumptions RefMod_refinement.

(* the same with the abstraction relation spelled out.  No side condition on the modules being loaded is needed:
   when vikja (odal) is not loaded the model stores no action (asset) and the spec records none. *)
Theorem RefMod_refinement_explicit : ∀ cfg h, short h →
  let sp := spec_after (run cfg h) in let st := final cfg h in
  (* vikja: the action stored under (session, entity, name) *)
  (∀ sid eid name, sp_acts sp !! (sid, eid, name) = sessions st !! sid ≫= λ SS, s_actions SS !! (eid, name)) ∧
  (* odal: the asset instance attached to (session, entity) *)
  (∀ sid eid, sp_assets sp !! (sid, eid) = sessions st !! sid ≫= λ SS, s_assets SS !! eid) ∧
  (* the entity ids / asset-instance ids issued under a live incarnation are exactly 1 .. the session's counter *)
  (∀ sid SS, sessions st !! sid = Some SS →
     (∀ e, e ∈ issued (sp_eids sp) (s_uuid SS) ↔ 1 ≤ e ≤ s_egen SS) ∧
     (∀ i, i ∈ issued (sp_iids sp) (s_uuid SS) ↔ 1 ≤ i ≤ s_agen SS)) ∧
  (* nothing is issued under an incarnation that does not exist yet *)
  (∀ u, next_uuid st < u → issued (sp_eids sp) u = ∅ ∧ issued (sp_iids sp) u = ∅).
Proof.
  intros cfg h Hs sp st. destruct (refinement_mod cfg h Hs) as [D1 D2 D3 D4 D5 D6]. fold sp st in D1, D2, D3, D4, D5, D6.
  split; [exact D1|]. split; [exact D2|]. split.
  - intros sid SS HS. split; [by apply (D3 sid)|by apply (D4 sid)].
  - intros u Hu. split; [by apply D5|by apply D6].
Qed.
Print Assumptions RefMod_refinement_explicit.

(* the canonical lists the predicates compare snapshots / newcomer states with, computed from the model state *)
Theorem RefMod_canonical_lists : ∀ cfg h sid SS, short h → sessions (final cfg h) !! sid = Some SS →
  let sp := spec_after (run cfg h) in
  spec_acts sp sid = sort_by eAction (map snd (map_to_list (s_actions SS))) ∧
  spec_assets sp sid = sort_by eAsset (map snd (map_to_list (s_assets SS))).
Proof.
  intros cfg h sid SS Hs HS sp. pose proof (reachable_good cfg h Hs) as [_ _ _ Wf _ _ D]. split.
  - exact (spec_acts_eq cfg _ _ _ sid SS D HS (Wf sid SS HS)).
  - exact (spec_assets_eq cfg _ _ _ sid SS D HS (Wf sid SS HS)).
Qed.
Print Assumptions RefMod_canonical_lists.

(* ---------- Deliverable 2a: P_C16, all clauses (1601-1606 request outcomes and relays, 1614-1618 the module
   states handed to a joiner, 1626/1627 hook snapshots, 1699) ---------- *)
Theorem RefMod_model_passes_C16 : ∀ cfg h, short h → P_C16 cfg (run cfg h) = [].
Proof. exact model_passes_C16. Qed.
Print Assumptions RefMod_model_passes_C16.

(* ---------- Deliverable 2b: P_C10, all clauses (1001-1012, 1024, 1028-1031, 1099); uses the type-registry part of
   builder-refcomp's component refinement (proofs/RefComp2.v) ---------- *)
Theorem RefMod_model_passes_C10 : ∀ cfg h, short h → P_C10 cfg (run cfg h) = [].
Proof. exact model_passes_C10. Qed.
Print Assumptions RefMod_model_passes_C10.

(* ---------- Deliverable 2c: P_C02, all clauses (201: the relay-class deliveries of every event are, as sorted
   lines, exactly the expected ones; 299) ---------- *)
Theorem RefMod_model_passes_C02 : ∀ cfg h, short h → P_C02 cfg (run cfg h) = [].
Proof. exact model_passes_C02. Qed.
Print Assumptions RefMod_model_passes_C02.

(* ---------- Deliverable 2d: P_C06.  FALSE of the model as stated: clause 601 ("no departure => no leave-class
   message") reads an EntityDeleteBroadcast with origin timestamp 0 as a departure's, and a client may send
   REntityDelete with ots = 0.  Smallest witness (10 operations; fewer cannot have two members, an entity and a
   consumed delete request). ---------- *)
Theorem RefMod_C06_refuted : ∃ cfg h, short h ∧ P_C06 cfg (run cfg h) ≠ [].
Proof. exact C06_refuted. Qed.
Print Assumptions RefMod_C06_refuted.

(* on every history in which no consumed EntityDelete request carries origin timestamp 0, P_C06 is silent - all
   clauses: 601-605 (who is told what at a departure), 610-618 (state handed to a later joiner), 621-627 (hook
   snapshots: participants, entities, components, subscriptions, actions, assets), 699 *)
Theorem RefMod_model_passes_C06 : ∀ cfg h, short h → no_zero_delete (run cfg h) → P_C06 cfg (run cfg h) = [].
Proof. exact model_passes_C06. Qed.
Print Assumptions RefMod_model_passes_C06.

(* ---------- by-product: P_C05 completely (Refine_model_passes_C05_partial left the snapshot clauses 510-531) ---------- *)
Theorem RefMod_model_passes_C05 : ∀ cfg h, short h → P_C05 cfg (run cfg h) = [].
Proof. exact model_passes_C05. Qed.
Print Assumptions RefMod_model_passes_C05.

(* ---------- a concrete history: both modules loaded; connections 1, 2 (later 3) in one session; entity 1
   (persistent, owner 1), 2 (volatile, owner 1), 3 (volatile, owner 2); actions on (1, name 1) with timestamps
   10, 10 (equal: accepted), 9 (older: refused), 11 (newer: accepted), one on entity 2 and one on entity 3; an
   asset on entity 1 re-added (instance 1 replaced by 2), a foreign AssetAdd refused, assets on 2 and 3; a
   newcomer; the deletion of entity 3 (its action and asset go); the departure of connection 1 (entity 2 goes with
   its action and asset, the persistent entity 1 keeps both) ---------- *)
Definition act (e n : N) (t : Z) (d : N) : action := {| a_eid := e; a_name := n; a_ts := Some t; a_data := d |}.
Definition refmod_demo : list op :=
  [OConnect 1; OConnect 2; OConnect 3;
   OSend 1 (RJoin 1 SNew 1); OStep 1 0; OSend 2 (RJoin 2 (SId 1) 2); OStep 2 0;
   OSend 1 (REntityAdd 3 true 7 None 3); OStep 1 0; OSend 1 (REntityAdd 4 false 8 None 4); OStep 1 0;
   OSend 2 (REntityAdd 5 false 9 None 5); OStep 2 0;
   OSend 1 (RAction 6 (Some (act 1 1 10 5)) 6); OStep 1 0;
   OSend 2 (RAction 7 (Some (act 1 1 10 6)) 7); OStep 2 0;
   OSend 2 (RAction 8 (Some (act 1 1 9 7)) 8); OStep 2 0;
   OSend 2 (RAction 9 (Some (act 1 1 11 8)) 9); OStep 2 0;
   OSend 2 (RAction 10 (Some (act 2 1 11 9)) 10); OStep 2 0;
   OSend 1 (RAction 10 (Some (act 3 2 5 4)) 10); OStep 1 0;
   OSend 1 (RAssetAdd 11 1 5 11); OStep 1 0;
   OSend 1 (RAssetAdd 12 1 6 12); OStep 1 0;
   OSend 2 (RAssetAdd 13 1 6 13); OStep 2 0;
   OSend 1 (RAssetAdd 14 2 7 14); OStep 1 0;
   OSend 2 (RAssetAdd 14 3 8 14); OStep 2 0;
   OSnap;
   OSend 3 (RJoin 15 (SId 1) 15); OStep 3 0;
   OSend 2 (REntityDelete 16 3 16); OStep 2 0; OSnap;
   ODisconnect 1; OSnap].
Definition refmod_cfg : config := {| cfg_flags := []; cfg_vikja := true; cfg_odal := true; cfg_dagaz := false |}.

Example RefMod_nonvacuous :
  let cfg := refmod_cfg in
  let h := refmod_demo in
  let sp := spec_after (run cfg h) in
  bool_decide (4 * N.of_nat (length h) < two32) = true ∧
  (* what each action / asset request was answered with: 1 = accepted, an error code otherwise *)
  omap (λ e, match ev_req e with
             | Some (RAction _ _ _ | RAssetAdd _ _ _ _) =>
                 Some (omap (λ d : delivery, match d.2 with MError _ k => Some k | MActionResp _ | MAssetAddResp _ _ => Some 1 | _ => None end) (ev_outs e))
             | _ => None end) (run cfg h) =
    [[1]; [1]; [400]; [1]; [1]; [1]; [1]; [1]; [401]; [1]; [1]] ∧
  (* the spec's tables at the end ... *)
  map_to_list (sp_acts sp) = [((1, 1, 1), act 1 1 11 8)] ∧
  map_to_list (sp_assets sp) = [((1, 1), {| as_id := 2; as_asset := 6; as_pid := 1; as_eid := 1 |})] ∧
  map (λ kv : N * gset N, (kv.1, set_to_sorted kv.2)) (map_to_list (sp_eids sp)) = [(1, [1; 2; 3])] ∧
  map (λ kv : N * gset N, (kv.1, set_to_sorted kv.2)) (map_to_list (sp_iids sp)) = [(1, [1; 2; 3; 4])] ∧
  (* ... and the model's *)
  map (λ kv : N * session, (kv.1, map_to_list (s_actions kv.2), map_to_list (s_assets kv.2), s_egen kv.2, s_agen kv.2))
      (map_to_list (sessions (final cfg h))) =
    [(1, [((1, 1), act 1 1 11 8)], [(1, {| as_id := 2; as_asset := 6; as_pid := 1; as_eid := 1 |})], 3, 4)] ∧
  (* the hypothesis of the C06 theorem holds of this trace, and all the predicates are silent *)
  bool_decide (no_zero_delete (run cfg h)) = true ∧
  P_C16 cfg (run cfg h) = [] ∧ P_C10 cfg (run cfg h) = [] ∧ P_C02 cfg (run cfg h) = [] ∧
  P_C06 cfg (run cfg h) = [] ∧ P_C05 cfg (run cfg h) = [].
Proof. vm_compute. repeat split. Qed.

(* the tables before the deletion and the departure: three actions, three assets *)
Example RefMod_nonvacuous_before :
  let cfg := refmod_cfg in
  let h := take 37 refmod_demo in
  let sp := spec_after (run cfg h) in
  map (λ kv : (N * N * N) * action, (kv.1, a_ts kv.2, a_data kv.2)) (map_to_list (sp_acts sp)) =
    [((1, 1, 1), Some 11%Z, 8); ((1, 2, 1), Some 11%Z, 9); ((1, 3, 2), Some 5%Z, 4)] ∧
  map (λ kv : (N * N) * asset, (kv.1, as_id kv.2, as_asset kv.2, as_pid kv.2)) (map_to_list (sp_assets sp)) =
    [((1, 1), 2, 6, 1); ((1, 3), 4, 8, 2); ((1, 2), 3, 7, 1)].
Proof. vm_compute. repeat split. Qed.

(* the witness of RefMod_C06_refuted *)
Example RefMod_C06_witness :
  let cfg := refmod_cfg in
  map v_code (P_C06 cfg (run cfg c06_witness)) = [601%Z] ∧ length c06_witness = 10%nat ∧
  P_C02 cfg (run cfg c06_witness) = [].
Proof. vm_compute. repeat split. Qed.

(* Properties/RefComp.v — the refinement between the sequential model and the trace-determined specification,
   extended to the ENTITY-COMPONENT part of the spec (type registry, components, subscriptions), and its two
   consumers: the model's own traces are never flagged by P_C12 nor by P_C13.
   Only statements; proofs are in proofs/RefComp.v (relation, canonical lists), proofs/RefComp2.v (step simulation),
   proofs/RefComp3.v (P_C12), proofs/RefComp4.v (P_C13). *)
From hagall Require Import Model Spec Obs Preds.
From hagall.proofs Require Import Inv WF Reach Own Refine Refine2 Refine3 RefComp RefComp2 RefComp3 RefComp4.

(* Component refinement.  After EVERY history (hence after every prefix of every history) the three
   entity-component tables that Spec.v computes from the answers alone are the abstraction of the stores of the
   model's sessions.  Every operation of Model.step is covered: type registration, component add / delete,
   component update (applied by spec_step at the OStep that consumes it, after OSend stored it in the pending map
   and OTick flushed it), subscribe / unsubscribe, entity deletion (store_delete_entity vs sp_remove_entity),
   departures (the leaver's subscriptions dropped, the components of the removed entities gone), session end
   (sp_purge: the entries of an ended session are gone on both sides - [sessions st !! sid = None] gives [None]),
   joins (a new session starts with empty tables; a recycled session id inherits nothing). *)
Theorem RefComp_refinement : ∀ cfg h, short h → refines_comps (spec_after (run cfg h)) (final cfg h).
Proof. exact refinement_comps. Qed.
Print Assumptions RefComp_refinement.

(* the same, with the abstraction relation spelled out.  The subscription table is compared EXACTLY (entry by
   entry, empty sets included: the model and the spec keep the same empty-set entries), which implies the
   comparison as sets. *)
Theorem RefComp_refinement_explicit : ∀ cfg h, short h →
  let sp := spec_after (run cfg h) in let st := final cfg h in
  (∀ sid name, sp_types sp !! (sid, name) = sessions st !! sid ≫= λ SS, st_ids (s_store SS) !! name) ∧
  (∀ sid tid eid, sp_comps sp !! (sid, tid, eid) = sessions st !! sid ≫= λ SS, st_comps (s_store SS) !! (tid, eid)) ∧
  (∀ sid tid, sp_subs sp !! (sid, tid) = sessions st !! sid ≫= λ SS, st_subs (s_store SS) !! tid) ∧
  (∀ sid tid, default ∅ (sp_subs sp !! (sid, tid)) = default ∅ (sessions st !! sid ≫= λ SS, st_subs (s_store SS) !! tid)).
Proof.
  intros cfg h Hs sp st. destruct (refinement_comps cfg h Hs) as [R1 R2 R3]. fold sp st in R1, R2, R3.
  split; [exact R1|]. split; [exact R2|]. split; [exact R3|]. intros sid tid. by rewrite R3.
Qed.
Print Assumptions RefComp_refinement_explicit.

(* consequences for the canonical (sorted) lists the predicates compare snapshots and list responses with *)
Theorem RefComp_canonical_lists : ∀ cfg h sid SS, short h → sessions (final cfg h) !! sid = Some SS →
  let sp := spec_after (run cfg h) in
  spec_comps sp sid = sort_by eComp (store_list_all (s_store SS)) ∧
  spec_types sp sid = sort_by (λ tn, [zn (fst tn); zn (snd tn)]) (map_to_list (st_names (s_store SS))) ∧
  spec_subs sp sid = sort_by (λ tp, [zn (fst tp); zn (snd tp)])
    (flat_map (λ ts : N * gset N, map (λ p, (fst ts, p)) (elements (snd ts))) (map_to_list (st_subs (s_store SS)))) ∧
  (∀ tid, tid ∈ spec_tids sp sid ↔ is_Some (st_names (s_store SS) !! tid)) ∧
  (∀ tid, sort_by eComp (store_list tid (s_store SS)) = List.filter (λ x, cp_tid x =? tid) (spec_comps sp sid)).
Proof.
  intros cfg h sid SS Hs HS sp. pose proof (refinement_comps cfg h Hs) as R.
  pose proof (reachable_wf cfg h sid SS Hs HS) as W.
  split; [by eapply spec_comps_eq|]. split; [by eapply spec_types_eq|]. split; [by eapply spec_subs_eq|].
  split; [intros tid; by eapply spec_tids_iff|].
  intros tid. apply spec_comps_list. apply (sa_comps _ _ _ (refines_comps_at _ _ _ _ R HS)).
Qed.
Print Assumptions RefComp_canonical_lists.

(* First consumer: the model's own trace passes P_C12 ("components behave as a map") on every history - ALL
   clauses: 1201 / 1202 (outcome tables of ComponentAdd / ComponentDelete), 1203 (a refused update has no effect),
   1204 / 1205 (ComponentList returns the spec's components of the type), 1206-1208 (type registration and lookups
   agree with the spec's registry), 1210-1218 (the SessionState handed to a joiner carries the components of the
   spec after the join), 1221-1231 (hook snapshots: components and types of every session), 1299. *)
Theorem RefComp_model_passes_C12 : ∀ cfg h, short h → P_C12 cfg (run cfg h) = [].
Proof. exact model_passes_C12. Qed.
Print Assumptions RefComp_model_passes_C12.

(* Second consumer: the model's own trace passes P_C13 ("notifications follow subscriptions") on every history -
   ALL clauses: 1301 (no component notification outside a member's ComponentAdd / Delete / Update), 1302 (only the
   notification announcing the request), 1303 (refused or suppressed: nobody), 1304 (never the sender), 1305 (no
   subscribers: nobody), 1306 (every subscribed other member exactly once), 1307 (updates: non-subscribers never),
   1308 (add / delete: anybody at most once), 1309 (only members), 1310 (subscribing to an unregistered type is
   refused), 1321-1331 (hook snapshots: the subscriptions of every session), 1399. *)
Theorem RefComp_model_passes_C13 : ∀ cfg h, short h → P_C13 cfg (run cfg h) = [].
Proof. exact model_passes_C13. Qed.
Print Assumptions RefComp_model_passes_C13.

(* a concrete history: two members (connections 1 and 2, participants 1 and 2 of session 1); three entities
   (1: persistent of participant 1, 2: volatile of participant 1, 3: volatile of participant 2); two component
   types (names 100 and 200, ids 1 and 2); participant 2 subscribes to type 1, participant 1 to type 2; four
   components; an update of component (1, 1) travelling through the scheduler (OSend, OTick, OStep); a list
   request; then participant 2 deletes entity 3 (its component goes), connection 1 departs (entity 2 and its
   component go, its subscription is dropped - the empty entry stays on both sides), connection 2 departs (the
   session ends: everything is purged); snapshots in between *)
Definition refcomp_demo1 : list op :=
  [OConnect 1; OConnect 2;
   OSend 1 (RJoin 1 SNew 1); OStep 1 0; OSend 2 (RJoin 2 (SId 1) 2); OStep 2 0;
   OSend 1 (REntityAdd 3 true 7 None 3); OStep 1 0;
   OSend 1 (REntityAdd 4 false 8 None 4); OStep 1 0;
   OSend 2 (REntityAdd 5 false 9 None 5); OStep 2 0;
   OSend 1 (RTypeAdd 6 100); OStep 1 0;
   OSend 2 (RTypeAdd 7 200); OStep 2 0;
   OSend 2 (RSubscribe 8 1); OStep 2 0;
   OSend 1 (RSubscribe 9 2); OStep 1 0;
   OSend 1 (RCompAdd 10 1 1 11 10); OStep 1 0;
   OSend 1 (RCompAdd 11 1 2 22 11); OStep 1 0;
   OSend 2 (RCompAdd 12 2 3 33 12); OStep 2 0;
   OSend 2 (RCompAdd 13 2 1 44 13); OStep 2 0;
   OSend 1 (RCompUpdate 1 1 55 14); OTick 1; OStep 1 0;
   OSend 2 (RCompList 14 2); OStep 2 0;
   OSnap].
Definition refcomp_demo2 : list op := refcomp_demo1 ++ [OSend 2 (REntityDelete 15 3 15); OStep 2 0; OSnap].
Definition refcomp_demo3 : list op := refcomp_demo2 ++ [ODisconnect 1; OSnap].
Definition refcomp_demo4 : list op := refcomp_demo3 ++ [ODisconnect 2; OSnap].

(* the three spec tables, and the three store tables of every session of the model *)
Definition refcomp_show (cfg : config) (h : list op) :=
  let sp := spec_after (run cfg h) in
  (map_to_list (sp_types sp), map_to_list (sp_comps sp),
   map (λ kv : (N*N) * gset N, (kv.1, elements kv.2)) (map_to_list (sp_subs sp)),
   map (λ kv : N * session, (kv.1, map_to_list (st_ids (s_store kv.2)), map_to_list (st_comps (s_store kv.2)),
          map (λ ts : N * gset N, (ts.1, elements ts.2)) (map_to_list (st_subs (s_store kv.2)))))
       (map_to_list (sessions (final cfg h)))).

Example RefComp_nonvacuous :
  let cfg := {| cfg_flags := []; cfg_vikja := true; cfg_odal := true; cfg_dagaz := false |} in
  (* the hypothesis is satisfiable *)
  bool_decide (4 * N.of_nat (length refcomp_demo4) < two32) = true ∧
  (* after the update: spec tables = model tables (keys (sid, name) / (sid, tid, eid) / (sid, tid)) *)
  refcomp_show cfg refcomp_demo1 =
    ([(1, 200, 2); (1, 100, 1)], [(1, 1, 1, 55); (1, 2, 3, 33); (1, 2, 1, 44); (1, 1, 2, 22)], [(1, 1, [2]); (1, 2, [1])],
     [(1, [(200, 2); (100, 1)], [(1, 1, 55); (1, 2, 22); (2, 1, 44); (2, 3, 33)], [(1, [2]); (2, [1])])]) ∧
  (* after the deletion of entity 3: component (2, 3) is gone *)
  refcomp_show cfg refcomp_demo2 =
    ([(1, 200, 2); (1, 100, 1)], [(1, 1, 1, 55); (1, 2, 1, 44); (1, 1, 2, 22)], [(1, 1, [2]); (1, 2, [1])],
     [(1, [(200, 2); (100, 1)], [(1, 1, 55); (1, 2, 22); (2, 1, 44)], [(1, [2]); (2, [1])])]) ∧
  (* after the departure of connection 1: entity 2's component (1, 2) is gone, the leaver's subscription is dropped *)
  refcomp_show cfg refcomp_demo3 =
    ([(1, 200, 2); (1, 100, 1)], [(1, 1, 1, 55); (1, 2, 1, 44)], [(1, 1, [2]); (1, 2, [])],
     [(1, [(200, 2); (100, 1)], [(1, 1, 55); (2, 1, 44)], [(1, [2]); (2, [])])]) ∧
  (* after the end of the session: everything is purged *)
  refcomp_show cfg refcomp_demo4 = ([], [], [], []) ∧
  (* what the requests produced: the add / update notifications and the list response *)
  map (λ e, match ev_req e with
            | Some (RCompUpdate _ _ _ _) | Some (RCompAdd _ _ _ _ _) | Some (RCompList _ _) => Some (ev_outs e)
            | _ => None end) (run cfg refcomp_demo1) =
    [None; None; None; None; None; None; None; None; None; None; None; None; None; None; None; None; None; None; None; None; None;
     Some [(1, MCompAddResp 10); (2, MCompAddB 10 {| cp_tid := 1; cp_eid := 1; cp_data := 11 |})]; None;
     Some [(1, MCompAddResp 11); (2, MCompAddB 11 {| cp_tid := 1; cp_eid := 2; cp_data := 22 |})]; None;
     Some [(2, MCompAddResp 12); (1, MCompAddB 12 {| cp_tid := 2; cp_eid := 3; cp_data := 33 |})]; None;
     Some [(2, MCompAddResp 13); (1, MCompAddB 13 {| cp_tid := 2; cp_eid := 1; cp_data := 44 |})]; None; None;
     Some [(2, MCompUpdateB 14 {| cp_tid := 1; cp_eid := 1; cp_data := 55 |})]; None;
     Some [(2, MCompListResp 14 [{| cp_tid := 2; cp_eid := 1; cp_data := 44 |}; {| cp_tid := 2; cp_eid := 3; cp_data := 33 |}])];
     None] ∧
  (* and the predicates are silent on the whole run *)
  P_C12 cfg (run cfg refcomp_demo4) = [] ∧ P_C13 cfg (run cfg refcomp_demo4) = [].
Proof. vm_compute. repeat split. Qed.

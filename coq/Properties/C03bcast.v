(* C03bcast.v — the regenerated fact (coq/GenStore.v, tools/storefacts) behind the atomic broadcast instruction of the
   interleaving models (coq/ConcView.v part 2) and behind C03's concurrent reading: Session.Broadcast and Session.BroadcastTo
   look their recipients up and call Responder.SendMsg for each of them inside ONE critical section of the participant lock
   (held from the lock statement to every exit), so that a participant that has left the session - it may be a member of
   another one by then - is never handed a relay of the session it left.  (Before /repo 24b0f8e BroadcastTo sent after
   releasing the lock: finding F16.) *)
From hagall Require Import GenStore.
Theorem C03_broadcast_facts : broadcast_serves_under_lock = true /\ broadcast_to_serves_under_lock = true.
Proof. split; reflexivity. Qed.
Print Assumptions C03_broadcast_facts.

(* C03, concurrent reading: Session.Broadcast / Session.BroadcastTo (models/session.go) racing the moves of
   connections between several sessions.  Statements only.
   Model: coq/ConcBcast.v — threads are connections (a connection's requests are handled one after the other, so
   they form one sequential program), one instruction per critical section of package models: ILeave c
   (RemoveParticipant on c's current session, if any), IEnter c s (AddParticipant; the join response), IBroadcast /
   IBroadcastTo (lookup AND delivery under the participant read lock: one step).  A join is [move c s] =
   [ILeave c; IEnter c s].  The variant before the repair (24b0f8e) / seeded: IBcastSnapshot / IBcastToSnapshot read
   the recipients under the lock and push one IBcastDeliver per remembered recipient, each a scheduling point.
   [sched_run (binit progs) σ] runs schedule σ (a list of thread indices) from "no session has a member";
   [b_log] is what every instruction did, in execution order: EvJoined c s, EvLeft c s, EvDeliver q s c tag (q is
   handed the message tag that c sent in session s).  [members_after l] are the member sets determined by the
   EvJoined / EvLeft of l alone.  Proofs: proofs/ConcBcastProofs.v (invariants preserved by every instruction of
   every thread; induction over the schedule).

   The theorems are conditional on facts about the code, given as boolean predicates over the programs:
     wellformed              every AddParticipant of a connection comes directly after the RemoveParticipant of the
                             same connection (the handler leaves its current session before it joins another), no
                             IBcastDeliver of a program's own, no connection id is used by two threads;
     uses_atomic_broadcast   recipients are looked up and served in ONE critical section (no snapshot variant).
   Without uses_atomic_broadcast the clause is false: C03_conc_split_refuted.  Without "leave first" it is false as
   well: C03_conc_needs_leave_first_refuted. *)
From hagall Require Import Base ConcBcast.
From hagall.proofs Require Import ConcBcastProofs.

(* ---------------------------------------------------------------- deliveries go to members ------------------- *)
(* Any number of connections, any well-formed programs with the atomic broadcasts, any schedule: the member sets
   read off the log are the state, and every delivery is logged at a moment when receiver AND sender are members
   of the session the message was sent in (and the receiver is not the sender). *)
Theorem C03_conc_delivery_to_members_only :
  ∀ progs, wellformed progs = true → uses_atomic_broadcast progs = true →
  ∀ σ, let st := sched_run (binit progs) σ in
  b_sess st = members_after (b_log st) ∧
  ∀ l1 q s c tag l2, b_log st = l1 ++ [EvDeliver q s c tag] ++ l2 →
    q ∈ members (members_after l1) s ∧ c ∈ members (members_after l1) s ∧ q ≠ c.
Proof. exact conc_delivery_to_members_only. Qed.
Print Assumptions C03_conc_delivery_to_members_only.

(* the same needs no shape of the programs at all (connection ids may even be shared) *)
Theorem C03_conc_delivery_to_members_only_any_programs :
  ∀ progs, uses_atomic_broadcast progs = true →
  ∀ σ, let st := sched_run (binit progs) σ in
  b_sess st = members_after (b_log st) ∧
  ∀ l1 q s c tag l2, b_log st = l1 ++ [EvDeliver q s c tag] ++ l2 →
    q ∈ members (members_after l1) s ∧ c ∈ members (members_after l1) s ∧ q ≠ c.
Proof. exact conc_delivery_to_members_only_any. Qed.
Print Assumptions C03_conc_delivery_to_members_only_any_programs.

(* at the step itself, on the STATE: whatever a step of any connection delivers, the step changes no membership,
   the session is the sender's current one, receiver and sender are members of it, and the receiver is a
   member of no other session *)
Theorem C03_conc_delivery_step :
  ∀ progs, wellformed progs = true → uses_atomic_broadcast progs = true →
  ∀ σ tid, let st := sched_run (binit progs) σ in let st' := step st tid in
  members_after (b_log st) = b_sess st ∧
  ∃ evs, b_log st' = b_log st ++ evs ∧
    ∀ q s c tag, EvDeliver q s c tag ∈ evs →
      b_sess st' = b_sess st ∧ b_cur st' = b_cur st ∧ b_cur st !! c = Some s ∧
      q ∈ members (b_sess st) s ∧ c ∈ members (b_sess st) s ∧ q ≠ c ∧
      (∀ s2, q ∈ members (b_sess st) s2 → s2 = s).
Proof. exact conc_delivery_step. Qed.
Print Assumptions C03_conc_delivery_step.

(* at every moment a connection is a member of at most one session: the one its handler holds as current *)
Theorem C03_conc_one_session :
  ∀ progs, wellformed progs = true → uses_atomic_broadcast progs = true →
  ∀ σ, let st := sched_run (binit progs) σ in
  ∀ c s, c ∈ members (b_sess st) s ↔ b_cur st !! c = Some s.
Proof. exact conc_one_session. Qed.
Print Assumptions C03_conc_one_session.

(* ---------------------------------------------------------------- nothing after a move ----------------------- *)
(* between q's departure from s and q's next join of s (or the end of the log) nothing sent in s is delivered to
   q: a delivery to q in s after EvLeft q s has an EvJoined q s in between *)
Theorem C03_conc_no_delivery_after_leave :
  ∀ progs, wellformed progs = true → uses_atomic_broadcast progs = true →
  ∀ σ, let st := sched_run (binit progs) σ in
  ∀ l1 q s l2 c tag l3, b_log st = l1 ++ [EvLeft q s] ++ l2 ++ [EvDeliver q s c tag] ++ l3 →
    EvJoined q s ∈ l2.
Proof. exact conc_no_delivery_after_leave. Qed.
Print Assumptions C03_conc_no_delivery_after_leave.

(* in particular once q has been told it joined s', nothing sent in another session s reaches q until q joins s
   again *)
Theorem C03_conc_no_delivery_after_move :
  ∀ progs, wellformed progs = true → uses_atomic_broadcast progs = true →
  ∀ σ, let st := sched_run (binit progs) σ in
  ∀ l1 q s' l2 s c tag l3, b_log st = l1 ++ [EvJoined q s'] ++ l2 ++ [EvDeliver q s c tag] ++ l3 →
    s ≠ s' → EvJoined q s ∈ l2.
Proof. exact conc_no_delivery_after_move. Qed.
Print Assumptions C03_conc_no_delivery_after_move.

(* the shape of the log behind it: a connection is added to a session only while the log has it in none *)
Theorem C03_conc_join_only_when_out :
  ∀ progs, wellformed progs = true → uses_atomic_broadcast progs = true →
  ∀ σ, let st := sched_run (binit progs) σ in
  ∀ l1 q s l2, b_log st = l1 ++ [EvJoined q s] ++ l2 → ∀ s2, q ∉ members (members_after l1) s2.
Proof. exact conc_join_only_when_out. Qed.
Print Assumptions C03_conc_join_only_when_out.

(* ---------------------------------------------------------------- exactly once ------------------------------- *)
(* any reachable state in which connection tid is about to execute Broadcast as c, c a member of s: the step
   logs l, changes no membership; l has no duplicates and consists exactly of one EvDeliver q s c tag per member
   q ≠ c of s at that moment *)
Theorem C03_conc_exactly_once :
  ∀ progs, wellformed progs = true → uses_atomic_broadcast progs = true →
  ∀ σ tid c tag rest s, let st := sched_run (binit progs) σ in
  b_thr st !! tid = Some (IBroadcast c tag :: rest) → c ∈ members (b_sess st) s →
  ∃ l, b_log (step st tid) = b_log st ++ l ∧ b_sess (step st tid) = b_sess st ∧ NoDup l ∧
    ∀ ev, ev ∈ l ↔ ∃ q, ev = EvDeliver q s c tag ∧ q ∈ members (b_sess st) s ∧ q ≠ c.
Proof. exact conc_exactly_once. Qed.
Print Assumptions C03_conc_exactly_once.

(* the addressed form: exactly one EvDeliver per addressed member q ≠ c (however often qs lists it), nobody else *)
Theorem C03_conc_exactly_once_to :
  ∀ progs, wellformed progs = true → uses_atomic_broadcast progs = true →
  ∀ σ tid c tag qs rest s, let st := sched_run (binit progs) σ in
  b_thr st !! tid = Some (IBroadcastTo c tag qs :: rest) → c ∈ members (b_sess st) s →
  ∃ l, b_log (step st tid) = b_log st ++ l ∧ b_sess (step st tid) = b_sess st ∧ NoDup l ∧
    ∀ ev, ev ∈ l ↔ ∃ q, ev = EvDeliver q s c tag ∧ q ∈ qs ∧ q ∈ members (b_sess st) s ∧ q ≠ c.
Proof. exact conc_exactly_once_to. Qed.
Print Assumptions C03_conc_exactly_once_to.

(* ---------------------------------------------------------------- the snapshot variant ----------------------- *)
(* before the repair / seeded change.  connection 0 = id 1: joins 10, addresses 2 with tag 7 (snapshot, delivery);
   connection 1 = id 2: joins 10, moves to 20.  Schedule 0 0 1 1 0 1 1 0: both in 10, 1's snapshot, 2 leaves 10 and
   enters 20, 1 delivers.  Log: EvJoined 1 10; EvJoined 2 10; EvLeft 2 10; EvJoined 2 20; EvDeliver 2 10 1 7 —
   2 is handed a message of session 10 after it was told it joined 20 *)
Theorem C03_conc_split_refuted :
  ∃ progs σ q s s' c tag l1 l2 l3, let st := sched_run (binit progs) σ in
    wellformed progs = true ∧ uses_atomic_broadcast progs = false ∧ complete st = true ∧
    b_log st = l1 ++ [EvJoined q s'] ++ l2 ++ [EvDeliver q s c tag] ++ l3 ∧
    s ≠ s' ∧ EvJoined q s ∉ l2 ∧
    is_member (members_after (l1 ++ [EvJoined q s'] ++ l2)) s q = false ∧
    is_member (b_sess st) s' q = true.
Proof. exact conc_split_refuted. Qed.
Print Assumptions C03_conc_split_refuted.

(* the atomic broadcast does not suffice if a join does not leave the current session first *)
Theorem C03_conc_needs_leave_first_refuted :
  ∃ progs σ q s s' c tag l1 l2 l3, let st := sched_run (binit progs) σ in
    uses_atomic_broadcast progs = true ∧ threads_disjoint progs = true ∧ wellformed progs = false ∧
    complete st = true ∧
    b_log st = l1 ++ [EvJoined q s'] ++ l2 ++ [EvDeliver q s c tag] ++ l3 ∧
    s ≠ s' ∧ EvJoined q s ∉ l2 ∧ b_cur st !! q = Some s'.
Proof. exact conc_needs_leave_first_refuted. Qed.
Print Assumptions C03_conc_needs_leave_first_refuted.

(* ---------------------------------------------------------------- non-vacuity -------------------------------- *)
(* connection 0 = id 1: joins 10, broadcasts 7, addresses 2, 3, 2 and itself with 8, moves to 20, broadcasts 9;
   connection 1 = id 2: joins 10, broadcasts 5, moves to 20, broadcasts 6;
   connection 2 = id 3: joins 10, addresses 1 and 2 with 4, leaves (disconnect).
   The schedule interleaves the moves with the broadcasts. *)
Definition ex_progs : list (list instr) :=
  [ move 1 10 ++ [IBroadcast 1 7; IBroadcastTo 1 8 [2; 3; 2; 1]] ++ move 1 20 ++ [IBroadcast 1 9];
    move 2 10 ++ [IBroadcast 2 5] ++ move 2 20 ++ [IBroadcast 2 6];
    move 3 10 ++ [IBroadcastTo 3 4 [1; 2]; ILeave 3] ].
Definition ex_sched : list nat := [0;0;1;1;2;2;0;1;1;0;2;1;0;0;1;2;0]%nat.

Example ConcBcast_ex_facts :
  wellformed ex_progs = true ∧ uses_atomic_broadcast ex_progs = true ∧
  complete (sched_run (binit ex_progs) ex_sched) = true.
Proof. repeat split; vm_compute; reflexivity. Qed.

Example C03_conc_ex_final :
  let st := sched_run (binit ex_progs) ex_sched in
  obs_cur st = [(1, 20); (2, 20)] ∧
  is_member (b_sess st) 20 1 = true ∧ is_member (b_sess st) 20 2 = true ∧ is_member (b_sess st) 10 1 = false ∧
  is_member (b_sess st) 10 2 = false ∧ is_member (b_sess st) 10 3 = false ∧
  deliveries_ok ∅ (b_log st) = true ∧
  delivered_to 10 1 8 (b_log st) = [3] ∧ delivered_to 10 3 4 (b_log st) = [1] ∧
  delivered_to 20 1 9 (b_log st) = [2] ∧
  b_log st = [EvJoined 1 10; EvJoined 2 10; EvJoined 3 10; EvDeliver 3 10 1 7; EvDeliver 2 10 1 7;
              EvDeliver 1 10 2 5; EvDeliver 3 10 2 5; EvLeft 2 10; EvDeliver 3 10 1 8; EvDeliver 1 10 3 4;
              EvJoined 2 20; EvLeft 1 10; EvJoined 1 20; EvDeliver 1 20 2 6; EvLeft 3 10; EvDeliver 2 20 1 9].
Proof. repeat split; vm_compute; reflexivity. Qed.

(* the hypotheses of C03_conc_exactly_once_to: after 9 steps connection 0 stands at its addressed broadcast, 1 is
   a member of 10 together with 3 (2 has just left): the step delivers tag 8 to 3 once — not to 2 (listed twice,
   gone), not to 1 (the sender) *)
Example C03_conc_ex_exact :
  let st := sched_run (binit ex_progs) (take 9 ex_sched) in
  b_thr st !! 0%nat = Some (IBroadcastTo 1 8 [2; 3; 2; 1] :: move 1 20 ++ [IBroadcast 1 9]) ∧
  is_member (b_sess st) 10 1 = true ∧ is_member (b_sess st) 10 3 = true ∧ is_member (b_sess st) 10 2 = false ∧
  b_log (step st 0) = b_log st ++ [EvDeliver 3 10 1 8].
Proof. repeat split; vm_compute; reflexivity. Qed.

(* the race of the snapshot witness with the atomic form: whichever side of 2's move the broadcast falls on, no
   message of session 10 reaches 2 after it has joined 20 *)
Example C03_conc_ex_atomic_vs_split :
  let progs := [ move 1 10 ++ [IBroadcastTo 1 7 [2]]; move 2 10 ++ move 2 20 ] in
  wellformed progs = true ∧ uses_atomic_broadcast progs = true ∧
  b_log (sched_run (binit progs) [0; 0; 1; 1; 0; 1; 1]%nat) =
    [EvJoined 1 10; EvJoined 2 10; EvDeliver 2 10 1 7; EvLeft 2 10; EvJoined 2 20] ∧
  b_log (sched_run (binit progs) [0; 0; 1; 1; 1; 0; 1]%nat) =
    [EvJoined 1 10; EvJoined 2 10; EvLeft 2 10; EvJoined 2 20] ∧
  b_log (sched_run (binit progs) [0; 0; 1; 1; 1; 1; 0]%nat) =
    [EvJoined 1 10; EvJoined 2 10; EvLeft 2 10; EvJoined 2 20] ∧
  b_log (sched_run (binit w03_progs) w03_sched) =
    [EvJoined 1 10; EvJoined 2 10; EvLeft 2 10; EvJoined 2 20; EvDeliver 2 10 1 7] ∧
  deliveries_ok ∅ (b_log (sched_run (binit w03_progs) w03_sched)) = false.
Proof. repeat split; vm_compute; reflexivity. Qed.

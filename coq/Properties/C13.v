(* Properties/C13.v — Component notifications follow component-type subscriptions.
   Only statements; proofs are in proofs/Local.v, proofs/WF.v, proofs/Reach.v. *)
From stdpp Require Import relations.
From hagall Require Import Model.
From hagall.proofs Require Import Relay Inv Session Local Trans WF Mono Reach.

Theorem C13_reachable_step : ∀ cfg h c cn sid p SS r hint,
  member_of cfg h c cn sid p SS → session_local r = true →
  handle cfg (final cfg h) c r hint = apply_sstep (final cfg h) c sid (sstep cfg c p (c_own cn) SS r).
Proof. exact member_step. Qed.
(* in every reachable state subscribers are members of the session (so "every other member" includes every
   other subscriber), the session is well-formed, participant ids and connections correspond one to one *)
Theorem C13_reachable_facts : ∀ cfg h c cn sid p SS, short h → member_of cfg h c cn sid p SS →
  s_parts SS !! p = Some c ∧ parts_injective SS ∧ wf cfg (4 * N.of_nat (length h)) SS.
Proof. exact member_facts. Qed.
Print Assumptions C13_reachable_facts.

(* an accepted add / delete: while somebody is subscribed to the type every other member - hence every other
   subscriber - is told exactly once, the sender never; while nobody is subscribed nobody is told *)
Theorem C13_add_notifies : ∀ cfg c p own SS, parts_injective SS → s_parts SS !! p = Some c →
  ∀ rid tid eid data ots, comp_add_outcome SS tid eid = None →
  ∃ S1 rel, sstep cfg c p own SS (RCompAdd rid tid eid data ots) = (S1, own, (c, MCompAddResp rid) :: rel) ∧
    st_comps (s_store S1) = <[(tid, eid) := data]> (st_comps (s_store SS)) ∧
    st_names (s_store S1) = st_names (s_store SS) ∧ st_subs (s_store S1) = st_subs (s_store SS) ∧
    s_ents S1 = s_ents SS ∧ s_parts S1 = s_parts SS ∧
    (if flag_on cfg F_COMP_ADD_B then rel = []
     else if decide (subs_of (s_store SS) tid = ∅) then rel = []
     else exactly_once_to_others SS p c (MCompAddB ots {| cp_tid := tid; cp_eid := eid; cp_data := data |}) rel).
Proof. exact comp_add_accepted. Qed.
Theorem C13_delete_notifies : ∀ cfg c p own SS, parts_injective SS → s_parts SS !! p = Some c →
  ∀ rid tid eid ots, comp_delete_outcome SS tid eid = None →
  ∃ S1 rel, sstep cfg c p own SS (RCompDelete rid tid eid ots) = (S1, own, rel ++ [(c, MCompDeleteResp rid)]) ∧
    st_comps (s_store S1) = delete (tid, eid) (st_comps (s_store SS)) ∧
    st_names (s_store S1) = st_names (s_store SS) ∧ st_subs (s_store S1) = st_subs (s_store SS) ∧
    s_ents S1 = s_ents SS ∧ s_parts S1 = s_parts SS ∧
    (if flag_on cfg F_COMP_DELETE_B then rel = []
     else if decide (subs_of (s_store SS) tid = ∅) then rel = []
     else exactly_once_to_others SS p c (MCompDeleteB ots tid eid) rel).
Proof. exact comp_delete_accepted. Qed.

(* an accepted update reaches exactly the subscribers of the type that are members, other than the sender,
   each exactly once: subscribers only, never the sender, nobody when nobody is subscribed *)
Theorem C13_update_subscribers_only : ∀ cfg c p own SS, parts_injective SS → s_parts SS !! p = Some c →
  ∀ tid eid data ots, tid ≠ 0 → eid ≠ 0 → is_Some (s_ents SS !! eid) → is_Some (st_comps (s_store SS) !! (tid, eid)) →
  flag_on cfg F_COMP_UPDATE_B = false →
  ∃ S1 rel, sstep cfg c p own SS (RCompUpdate tid eid data ots) = (S1, own, rel) ∧
    st_comps (s_store S1) = <[(tid, eid) := data]> (st_comps (s_store SS)) ∧
    st_subs (s_store S1) = st_subs (s_store SS) ∧ s_ents S1 = s_ents SS ∧ s_parts S1 = s_parts SS ∧
    (∀ cq m, (cq, m) ∈ rel ↔ m = MCompUpdateB ots {| cp_tid := tid; cp_eid := eid; cp_data := data |} ∧
               ∃ q, q ∈ subs_of (s_store SS) tid ∧ q ≠ p ∧ s_parts SS !! q = Some cq) ∧
    NoDup (map fst rel) ∧ c ∉ map fst rel.
Proof. exact comp_update_present. Qed.
Print Assumptions C13_update_subscribers_only.
Theorem C13_update_absent_silent : ∀ cfg c p own SS tid eid data ots,
  (tid = 0 ∨ eid = 0 ∨ s_ents SS !! eid = None ∨ st_comps (s_store SS) !! (tid, eid) = None) →
  sstep cfg c p own SS (RCompUpdate tid eid data ots) = (SS, own, []).
Proof. exact comp_update_absent. Qed.

(* subscribing: refused for an unregistered type; otherwise adds exactly the subscriber to exactly that type *)
Theorem C13_subscribe_unregistered_refused : ∀ cfg c p own SS rid tid,
  tid ≠ 0 → st_names (s_store SS) !! tid = None →
  sstep cfg c p own SS (RSubscribe rid tid) = (SS, own, [(c, MError rid E_NOT_FOUND)]).
Proof. exact subscribe_unregistered. Qed.
Theorem C13_subscribe : ∀ cfg c p own SS rid tid, tid ≠ 0 → is_Some (st_names (s_store SS) !! tid) →
  ∃ S1, sstep cfg c p own SS (RSubscribe rid tid) = (S1, own, [(c, MSubResp rid)]) ∧
    subs_of (s_store S1) tid = subs_of (s_store SS) tid ∪ {[p]} ∧
    (∀ t, t ≠ tid → subs_of (s_store S1) t = subs_of (s_store SS) t) ∧
    st_comps (s_store S1) = st_comps (s_store SS) ∧ s_parts S1 = s_parts SS.
Proof. exact subscribe_registered. Qed.
(* after unsubscribing the participant is no longer among the type's subscribers (so it gets no further update
   notification, by C13_update_subscribers_only), and nobody else's subscription changes *)
Theorem C13_unsubscribe : ∀ cfg c p own SS, parts_injective SS → s_parts SS !! p = Some c → ∀ rid tid, tid ≠ 0 →
  ∃ S1, sstep cfg c p own SS (RUnsubscribe rid tid) = (S1, own, [(c, MUnsubResp rid)]) ∧
    subs_of (s_store S1) tid = subs_of (s_store SS) tid ∖ {[p]} ∧
    (∀ t, t ≠ tid → subs_of (s_store S1) t = subs_of (s_store SS) t) ∧
    st_comps (s_store S1) = st_comps (s_store SS) ∧ s_parts S1 = s_parts SS.
Proof. exact unsubscribe_step. Qed.

(* a departure ends the leaver's subscriptions: in the session it leaves behind every subscriber is still a
   member (well-formedness is preserved by the departure) *)
Theorem C13_departure_keeps_wf : ∀ cfg k SS c p own, wf cfg k SS → wf cfg k (left_session cfg c p own SS).
Proof. exact wf_left. Qed.
Print Assumptions C13_departure_keeps_wf.

Definition c13_demo : list op :=
  [OConnect 1; OConnect 2; OConnect 3; OSend 1 (RJoin 1 SNew 1); OStep 1 0; OSend 2 (RJoin 2 (SId 1) 2); OStep 2 0;
   OSend 3 (RJoin 3 (SId 1) 3); OStep 3 0;
   OSend 1 (REntityAdd 3 false 0 None 3); OStep 1 0; OSend 1 (RTypeAdd 4 7); OStep 1 0;
   OSend 2 (RSubscribe 5 1); OStep 2 0; OSend 1 (RSubscribe 6 1); OStep 1 0; OSend 1 (RCompAdd 7 1 1 42 6); OStep 1 0].
Example C13_nonvacuous :
  let cfg := {| cfg_flags := []; cfg_vikja := false; cfg_odal := false; cfg_dagaz := false |} in
  (* an update by subscriber 1 reaches subscriber 2 only - not itself, not the non-subscriber 3 *)
  (handle cfg (final cfg c13_demo) 1 (RCompUpdate 1 1 44 9) 0).1.2 = [(2, MCompUpdateB 9 {| cp_tid := 1; cp_eid := 1; cp_data := 44 |})] ∧
  (handle cfg (final cfg c13_demo) 3 (RSubscribe 9 5) 0).1.2 = [(3, MError 9 E_NOT_FOUND)].
Proof. vm_compute. split; reflexivity. Qed.

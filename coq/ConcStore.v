(* ConcStore.v — interleaving semantics of the entity-component store (models/entity.go EntityComponentStore) at
   the granularity of its critical sections, for the concurrent readings of C13 ("after unsubscribing, a
   participant receives no further update notifications") and C10 (component type ids).  Executable, total, no
   proofs in this file.

   A thread is one connection: websocket/handler.go handles the messages of a connection one after the other in
   its select loop, so the requests of a connection form ONE sequential program; different connections of a
   session run concurrently.  One instruction = one critical section, or one lock-free action of the handler:

     HandleEntityComponentTypeAdd     AddType      (mutex.Lock: lookup-or-allocate in ONE region)      IAddType
     HandleEntityComponentSubscribe   Subscribe    (subscriptionMutex.Lock, inside it mutex.RLock for
                                                    the existence check of the type id; placed at the
                                                    inner acquisition)                                 ISubscribe
     HandleEntityComponentUnsubscribe Unsubscribe  (subscriptionMutex.Lock)                            IUnsub
                                      respond.Send (no lock; after Unsubscribe returned)               IRespondUnsub
     leaveSession                     UnsubscribeByParticipant (subscriptionMutex.Lock)                IUnsubAll
     HandleEntityComponentUpdate / Add / Delete
                                      Notify       (subscriptionMutex.RLock; the handler h, which
                                                    relays with Session.BroadcastTo, runs INSIDE it)   INotify

   and the two refactorings that the theorems of Properties/ConcStore.v exclude by hypothesis:

     AddType split into a lookup under RLock and a later allocation that does not look again
                                                                            IAddTypeLookup ; IAddTypeAlloc
     Notify copying the subscribers under RLock and relaying after RUnlock  INotifyRead ; INotifyRelay

   Names of component types are numbers here (an injective coding of the strings).  The id counter is
   SequentialIDGenerator.currentID (uint32; Reuse is never called on this generator, so New is currentID++).
   The log records, in execution order, what leaves the store towards the clients (answers, relays) and the
   subscription changes (so that "a subscribe was executed in between" can be said over the log). *)
From hagall Require Import Base.

Inductive instr :=
| IAddType (name : N)
| IAddTypeLookup (name : N)
| IAddTypeAlloc (name : N)
| ISubscribe (p t : N)
| IUnsub (p t : N)
| IUnsubAll (p : N)
| IRespondUnsub (p t : N)
| INotify (t src : N)
| INotifyRead (t : N)
| INotifyRelay (t src : N).

Inductive event :=
| EvTypeId (tid : nat) (name id : N)     (* thread [tid] was answered [id] for AddType [name] *)
| EvSub (p t : N)                        (* Subscribe(t, p) added p *)
| EvSubFail (p t : N)                    (* Subscribe(t, p) refused: type id not added *)
| EvUnsub (p t : N)                      (* Unsubscribe(t, p) returned *)
| EvUnsubAll (p : N)                     (* UnsubscribeByParticipant(p) returned *)
| EvUnsubResp (p t : N)                  (* the unsubscribe response was handed to p's connection *)
| EvRelay (q t src : N).                 (* an update of a component of type t made by src was handed to q *)

Record store := {
  s_ids : gmap N N;            (* idIndex: name -> type id *)
  s_names : gmap N N;          (* nameIndex: type id -> name *)
  s_next : N;                  (* ids.currentID *)
  s_subs : gmap N (gset N)     (* subscriptions: type id -> participants *)
}.
Definition store0 : store := {| s_ids := ∅; s_names := ∅; s_next := 0; s_subs := ∅ |}.

(* handler-local variables that live across two critical sections (split variants only) *)
Record locals := {
  l_hit : option N;            (* what the lookup of the split AddType found *)
  l_subs : list N              (* the subscribers the split Notify copied *)
}.
Definition locals0 : locals := {| l_hit := None; l_subs := [] |}.

Record thread := { th_prog : list instr; th_loc : locals }.

Record cstate := {
  c_store : store;
  c_thr : list thread;         (* thread i is the i-th connection *)
  c_log : list event           (* oldest first *)
}.

Definition subs_of (s : store) (t : N) : gset N := default ∅ (s_subs s !! t).
Definition set_subs (m : gmap N (gset N)) (s : store) : store :=
  {| s_ids := s_ids s; s_names := s_names s; s_next := s_next s; s_subs := m |}.

(* BroadcastTo(sender, msg, ids...) skips the sender *)
Definition relay_to (subs : list N) (t src : N) : list event :=
  map (λ q, EvRelay q t src) (filter (λ q, q ≠ src) subs).

(* ids.New(); nameIndex[id] = name; idIndex[name] = id *)
Definition alloc_type (name : N) (s : store) : N * store :=
  let id := u32_succ (s_next s) in
  (id, {| s_ids := <[name := id]> (s_ids s); s_names := <[id := name]> (s_names s); s_next := id;
          s_subs := s_subs s |}).

(* one instruction of thread [tid] on the shared store and the thread's locals: new store, new locals, what is
   appended to the log *)
Definition exec (tid : nat) (i : instr) (s : store) (l : locals) : store * locals * list event :=
  match i with
  | IAddType name =>
      match s_ids s !! name with
      | Some id => (s, l, [EvTypeId tid name id])
      | None => let '(id, s') := alloc_type name s in (s', l, [EvTypeId tid name id])
      end
  | IAddTypeLookup name => (s, {| l_hit := s_ids s !! name; l_subs := l_subs l |}, [])
  | IAddTypeAlloc name =>
      let l' := {| l_hit := None; l_subs := l_subs l |} in
      match l_hit l with
      | Some id => (s, l', [EvTypeId tid name id])
      | None => let '(id, s') := alloc_type name s in (s', l', [EvTypeId tid name id])
      end
  | ISubscribe p t =>
      match s_names s !! t with
      | None => (s, l, [EvSubFail p t])
      | Some _ => (set_subs (<[t := subs_of s t ∪ {[p]}]> (s_subs s)) s, l, [EvSub p t])
      end
  | IUnsub p t =>
      (match s_subs s !! t with
       | None => s
       | Some ps => set_subs (<[t := ps ∖ {[p]}]> (s_subs s)) s
       end, l, [EvUnsub p t])
  | IUnsubAll p => (set_subs ((λ ps, ps ∖ {[p]}) <$> s_subs s) s, l, [EvUnsubAll p])
  | IRespondUnsub p t => (s, l, [EvUnsubResp p t])
  | INotify t src => (s, l, relay_to (elements (subs_of s t)) t src)
  | INotifyRead t => (s, {| l_hit := l_hit l; l_subs := elements (subs_of s t) |}, [])
  | INotifyRelay t src => (s, {| l_hit := l_hit l; l_subs := [] |}, relay_to (l_subs l) t src)
  end.

(* one step of thread [tid]; a finished or unknown thread does nothing *)
Definition step (st : cstate) (tid : nat) : cstate :=
  match c_thr st !! tid with
  | None => st
  | Some T =>
      match th_prog T with
      | [] => st
      | i :: rest =>
          let '(s', l', evs) := exec tid i (c_store st) (th_loc T) in
          {| c_store := s';
             c_thr := <[tid := {| th_prog := rest; th_loc := l' |}]> (c_thr st);
             c_log := c_log st ++ evs |}
      end
  end.

Definition sched_run (st : cstate) (σ : list nat) : cstate := fold_left step σ st.

Definition cinit (s0 : store) (progs : list (list instr)) : cstate :=
  {| c_store := s0; c_thr := map (λ p, {| th_prog := p; th_loc := locals0 |}) progs; c_log := [] |}.

Definition complete (st : cstate) : bool := forallb (λ T, match th_prog T with [] => true | _ => false end) (c_thr st).

(* ---------- the facts about the code that the theorems are conditional on ---------- *)
Definition instr_atomic_notify (i : instr) : bool :=
  match i with INotifyRead _ | INotifyRelay _ _ => false | _ => true end.
Definition instr_atomic_addtype (i : instr) : bool :=
  match i with IAddTypeLookup _ | IAddTypeAlloc _ => false | _ => true end.

(* Notify runs its handler inside the read-locked region *)
Definition uses_atomic_notify (progs : list (list instr)) : bool := forallb (forallb instr_atomic_notify) progs.
(* AddType looks up and allocates inside one locked region *)
Definition uses_atomic_addtype (progs : list (list instr)) : bool := forallb (forallb instr_atomic_addtype) progs.

(* [resp_covered p t b prog]: every IRespondUnsub p t of [prog] comes after an IUnsub p t (or IUnsubAll p) of
   [prog] with no ISubscribe p t of [prog] between the two; [b] says whether such an unsubscription is already
   behind us *)
Fixpoint resp_covered (p t : N) (b : bool) (prog : list instr) : bool :=
  match prog with
  | [] => true
  | i :: r =>
      match i with
      | IUnsub p' t' => resp_covered p t (b || bool_decide (p' = p ∧ t' = t)) r
      | IUnsubAll p' => resp_covered p t (b || bool_decide (p' = p)) r
      | ISubscribe p' t' => resp_covered p t (b && negb (bool_decide (p' = p ∧ t' = t))) r
      | IRespondUnsub p' t' => (negb (bool_decide (p' = p ∧ t' = t)) || b) && resp_covered p t b r
      | _ => resp_covered p t b r
      end
  end.
Definition prog_responds_after_unsub (prog : list instr) : bool :=
  forallb (λ i, match i with IRespondUnsub p t => resp_covered p t false prog | _ => true end) prog.
(* the unsubscribe response is sent after Unsubscribe returned (and the handler does not subscribe in between) *)
Definition responds_after_unsub (progs : list (list instr)) : bool := forallb prog_responds_after_unsub progs.

(* the weaker reading: every IRespondUnsub p t comes after an IUnsub p t / IUnsubAll p of the same program *)
Fixpoint resp_preceded (p t : N) (b : bool) (prog : list instr) : bool :=
  match prog with
  | [] => true
  | i :: r =>
      match i with
      | IUnsub p' t' => resp_preceded p t (b || bool_decide (p' = p ∧ t' = t)) r
      | IUnsubAll p' => resp_preceded p t (b || bool_decide (p' = p)) r
      | IRespondUnsub p' t' => (negb (bool_decide (p' = p ∧ t' = t)) || b) && resp_preceded p t b r
      | _ => resp_preceded p t b r
      end
  end.
Definition responds_after_unsub_weak (progs : list (list instr)) : bool :=
  forallb (λ prog, forallb (λ i, match i with IRespondUnsub p t => resp_preceded p t false prog | _ => true end) prog)
          progs.

Definition has_resp (p t : N) (prog : list instr) : bool :=
  existsb (λ i, match i with IRespondUnsub p' t' => bool_decide (p' = p ∧ t' = t) | _ => false end) prog.
(* Subscribe(t, p) and the unsubscribe response for (p, t) are issued by p's own connection: no ISubscribe p t in
   a thread other than one that has an IRespondUnsub p t *)
Definition subscribes_in_own_thread (progs : list (list instr)) : bool :=
  forallb (λ ip : nat * list instr,
    forallb (λ jq : nat * list instr,
      (ip.1 =? jq.1)%nat ||
      forallb (λ i, match i with ISubscribe p t => negb (has_resp p t jq.2) | _ => true end) ip.2)
      (imap pair progs))
    (imap pair progs).

(* ---------- well-formed type index (the empty store is; every reachable store of the atomic fragment is) ---------- *)
Definition store_wf (s : store) : Prop :=
  (∀ n i, s_ids s !! n = Some i ↔ s_names s !! i = Some n) ∧
  (∀ n i, s_ids s !! n = Some i → i ≤ s_next s).

(* ---------- executable judges over a log (for examples and for a harness) ---------- *)
(* is q handed an update of type t after its unsubscribe response for t, with no subscribe of q to t in between? *)
Fixpoint relay_after_resp (pend : list (N * N)) (log : list event) : bool :=
  match log with
  | [] => false
  | e :: r =>
      match e with
      | EvUnsubResp p t => relay_after_resp ((p, t) :: pend) r
      | EvSub p t => relay_after_resp (filter (λ x, x ≠ (p, t)) pend) r
      | EvRelay q t _ => bool_decide ((q, t) ∈ pend) || relay_after_resp pend r
      | _ => relay_after_resp pend r
      end
  end.
Definition type_answers (log : list event) : list (nat * N * N) :=
  omap (λ e, match e with EvTypeId tid n i => Some (tid, n, i) | _ => None end) log.
Definition obs_ids (s : store) : list (N * N) := map_to_list (s_ids s).
Definition obs_names (s : store) : list (N * N) := map_to_list (s_names s).
Definition obs_subs (s : store) : list (N * list N) := map_to_list (elements <$> s_subs s).

(* ---------- the sequential reading of a schedule ---------- *)
(* the instructions a schedule executes, in execution order (steps of finished / unknown threads dropped) *)
Fixpoint trace (st : cstate) (σ : list nat) : list (nat * instr) :=
  match σ with
  | [] => []
  | tid :: σ' =>
      match c_thr st !! tid with
      | Some T => match th_prog T with i :: _ => [(tid, i)] | [] => [] end
      | None => []
      end ++ trace (step st tid) σ'
  end.
(* one sequential client that issues these store calls one after the other (no handler-local state) *)
Definition seq_step (sl : store * list event) (ti : nat * instr) : store * list event :=
  let '(s', _, evs) := exec ti.1 ti.2 sl.1 locals0 in (s', sl.2 ++ evs).
Definition seq_run (s0 : store) (tr : list (nat * instr)) : store * list event := fold_left seq_step tr (s0, []).
